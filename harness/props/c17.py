"""C17 - saving and loading a mesh round-trips geometry, connectivity and tags.

M : spec/MC_C17.cfg - TLC enumerates small meshes x every facet subset x every orientation flag on interior facets
    x sub-domain subsets and checks FromMeshioImpl(ToMeshioImpl(m)) = m (as designations) on the transcription of
    _encode_cell_data / _decode_cell_data / to_meshio / from_meshio (spec/TagCodec.tla); MC_C17_oriented.cfg keeps
    the pre-repair decoder as a regression model that TLC must refute.
R : the scenarios TLC exports are executed on the real code (in memory and through real files).
V : universe and random meshes (first and second order, curved, renumbered, random float coordinates) with random
    tag sets and user data go through every format; the abstract meshes before / after are validated by
    spec/TraceC17.tla, which evaluates every clause of TagCodec on every event.
"""
import dataclasses
import json
import os

import numpy as np

from .. import universe as U
from ..core import guarded, MachineryError
from ..tags_common import (common_scale, conn_tables, crc, mesh_am, mesh_checksums, points_enc, quiet,
                           values_enc_pair)

RULE = ('scenario = one mesh (class, order, coordinates, cell list) with one set of named sub-domains and named '
        'boundaries (boundary and interior facets, orientation flags) and user data, exported through several '
        'formats; one event per format. Non-trivial = at least one boundary name with >= 2 facets or an interior '
        'facet, or second order; distinct = distinct (class, p, t, tags).')

FIRST = {'tri': 'MeshTri1', 'quad': 'MeshQuad1', 'tet': 'MeshTet1', 'hex': 'MeshHex1'}
SECOND = {'MeshTri1': 'MeshTri2', 'MeshQuad1': 'MeshQuad2', 'MeshTet1': 'MeshTet2', 'MeshHex1': 'MeshHex2'}
CODEC = {'mem': 'celldata', 'gmsh22': 'celldata', 'gmsh41': 'celldata', 'vtk': 'celldata', 'vtu': 'celldata',
         'vtk-ascii': 'celldata', 'vtu-ascii': 'celldata', 'dict': 'dict', 'json': 'dict', 'npz': 'npz'}
FILE = {'gmsh22': ('.msh', {'file_format': 'gmsh22'}), 'gmsh41': ('.msh', {'file_format': 'gmsh'}),
        'vtk': ('.vtk', {}), 'vtu': ('.vtu', {}), 'vtk-ascii': ('.vtk', {'binary': False}),
        'vtu-ascii': ('.vtu', {'binary': False})}
ALL_FMTS = ['mem', 'gmsh22', 'gmsh41', 'vtk', 'vtu', 'dict', 'json', 'npz']

_scratch = [None]


# ---------------------------------------------------------------- building the mesh of a recipe

def build(rec):
    import skfem
    from skfem.generic_utils import OrientedBoundary
    cls1 = getattr(skfem, rec['cls'])
    if rec.get('unsorted'):
        # the cells keep the local vertex order of the recipe (MeshTri1 would sort it by default); 'oriented': the
        # library's own way to such a mesh
        m = cls1(np.array(rec['p'], dtype=np.float64), np.array(rec['t'], dtype=np.int64), sort_t=False)
        if rec.get('oriented'):
            m = m.oriented()
    else:
        m = cls1(np.array(rec['p'], dtype=np.float64), np.array(rec['t'], dtype=np.int64))
    if rec.get('order', 1) == 2:
        m = getattr(skfem, SECOND[rec['cls']]).from_mesh(m)
        if rec.get('curve'):
            d = m.doflocs.copy()
            for j, off in rec['curve']:
                d[:, j] += np.array(off, dtype=np.float64)
            m = dataclasses.replace(m, doflocs=d)
    bnd = {}
    for name, b in rec.get('bnd', {}).items():
        f = np.array(b['f'], dtype=np.int64)
        bnd[name] = f if b.get('ori') is None else OrientedBoundary(f, np.array(b['ori'], dtype=np.int64))
    if rec.get('bndv'):
        # facets given as vertex tuples, orientation as owner cell (TLC-exported scenarios): look the ids up
        key = {tuple(sorted(int(v) for v in m.facets[:, f])): f for f in range(m.facets.shape[1])}
        for name, b in rec['bndv'].items():
            f = np.array([key[tuple(sorted(v))] for v in b['fv']], dtype=np.int64)
            ori = np.array([0 if int(m.f2t[0, fi]) == own else 1 for fi, own in zip(f, b['own'])], dtype=np.int64)
            bnd[name] = OrientedBoundary(f, ori) if ori.any() else f
    sub = {name: np.array(ix, dtype=np.int64) for name, ix in rec.get('sub', {}).items()}
    if rec.get('notags'):
        return m
    return dataclasses.replace(m, _boundaries=bnd if (bnd or rec.get('keep_empty')) else None,
                               _subdomains=sub if (sub or rec.get('keep_empty')) else None)


def _userdata(rec, m):
    """fresh arrays for every export (to_meshio adds its own keys to the dictionary it is given)."""
    pd = {k: np.array(v['v'], dtype=v['dtype']).reshape(v['shape']) for k, v in rec.get('pd', {}).items()}
    cd = {k: [np.array(v['v'], dtype=v['dtype']).reshape(v['shape'])] for k, v in rec.get('cd', {}).items()}
    return pd, cd


def _roundtrip(m, fmt, pd, cd, path):
    """export + load through the real code; returns (loaded mesh, point data read back, cell data read back)."""
    from skfem import Mesh
    from skfem.io.meshio import to_meshio, from_meshio
    import skfem.io.json as sjson
    out = ['point_data', 'cell_data']
    if fmt == 'mem':
        m2 = from_meshio(to_meshio(m, point_data=pd or None, cell_data=cd or None), out=out)
    elif fmt in FILE:
        ext, kw = FILE[fmt]
        m.save(path + ext, point_data=pd or None, cell_data=cd or None, **kw)
        m2 = Mesh.load(path + ext, out=out)
    elif fmt == 'dict':
        m2 = type(m).from_dict(m.to_dict())
        out = [{}, {}]
    elif fmt == 'json':
        sjson.to_file(m, path + '.json')
        m2 = sjson.from_file(path + '.json')
        out = [{}, {}]
    elif fmt == 'npz':
        m.save_npz(path + '.npz')
        m2 = type(m).load_npz(path + '.npz')
        out = [{}, {}]
    else:
        raise ValueError(fmt)
    return m2, out[0], out[1]


def _ud_lists(pd, cd, pd2, cd2):
    pre, post = [], []
    for tag, a, b in (('p', pd, pd2), ('c', {k: v[0] for k, v in cd.items()},
                                       {k: (v[0] if isinstance(v, (list, tuple)) and len(v) else v)
                                        for k, v in (cd2 or {}).items()})):
        for name in sorted(a):
            x = np.asarray(a[name])
            y = np.asarray(b[name]) if (b is not None and name in b) else np.zeros((0,))
            ex, ey = values_enc_pair(x, y)
            pre.append({'name': tag + ':' + name, 'shape': [int(s) for s in x.shape], 'v': ex})
            post.append({'name': tag + ':' + name, 'shape': [int(s) for s in y.shape], 'v': ey})
    return pre, post


def _own(d):
    """the user's own entries of a data dictionary: not the mesh's encoded tags, not meshio's gmsh bookkeeping."""
    return sorted(k for k in (d or {}) if not (k.startswith('skfem:') or k.startswith('gmsh:')))


def _ud_crc(pd, cd, pkeys, ckeys):
    """checksums of the user's own arrays as they sit in the dictionaries handed to the export."""
    out = []
    for k in pkeys:
        out.append(crc(pd[k]) if k in pd else crc(None))
    for k in ckeys:
        v = cd.get(k)
        out.append(crc(*[np.asarray(a) for a in v]) if isinstance(v, (list, tuple)) else crc(v))
    return out


def _retag(m2, hist):
    """step 3 of a history: the loaded mesh gets existing names RE-DEFINED (other entity sets, other flags) through
    with_boundaries / with_subdomains, possibly a further name; no name is dropped."""
    from skfem.generic_utils import OrientedBoundary
    bnd = {}
    for name, b in hist.get('bnd', {}).items():
        f = np.array(b['f'], dtype=np.int64)
        bnd[name] = f if b.get('ori') is None else OrientedBoundary(f, np.array(b['ori'], dtype=np.int64))
    sub = {name: np.array(ix, dtype=np.int64) for name, ix in hist.get('sub', {}).items()}
    m3 = m2
    if bnd:
        m3 = m3.with_boundaries(bnd)
    if sub:
        m3 = m3.with_subdomains(sub)
    return m3


EMPTY_AM = {'kind': '', 'cls': '', 'p': [], 't': [], 'tt': [], 'nv': 0, 'nf': 0, 'hass': 0, 'hasb': 0, 'sub': [],
            'bnd': []}


def _new_event(fmt, step):
    return {'a': 'RT', 'fmt': fmt, 'codec': CODEC[fmt], 'err': '', 'step': step,
            'tags': {'fmt': fmt, 'codec': CODEC[fmt], 'step': step},
            'pre': EMPTY_AM, 'post': EMPTY_AM, 'conn': {'ok': 0, 't2f': [], 'f2t': []},
            'ud_pre': [], 'ud_post': [], 'ck_pre': [], 'ck_post': [], 'udck_pre': [], 'udck_post': [], 'enc': ''}


def _cycle(ev, m, fmt, pd, cd, base):
    """one export + load of the mesh m with the user data (pd, cd) through the real code, recorded in ev.
    Returns (loaded mesh, point data read back, cell data read back) or None after an error."""
    pkeys, ckeys = _own(pd), _own(cd)
    # reference copies of the user's own arrays (what was handed over), independent of the dictionaries
    pd_ref = {k: np.array(pd[k], copy=True) for k in pkeys}
    cd_ref = {k: [np.array(np.asarray(cd[k][0]), copy=True)] for k in ckeys}

    def call():
        with quiet():
            ck0 = mesh_checksums(m)
            ud0 = _ud_crc(pd, cd, pkeys, ckeys)
            conn = conn_tables(m)
            p0 = m.doflocs.copy()
            pre = mesh_am(m, None, with_nodes=True)
            m2, pd2, cd2 = _roundtrip(m, fmt, pd, cd, base)
            ck1 = mesh_checksums(m)
            ud1 = _ud_crc(pd, cd, pkeys, ckeys)
            post = mesh_am(m2, None, with_nodes=True)
            return ck0, ud0, conn, p0, pre, m2, pd2, cd2, ck1, ud1, post
    res, err = guarded(call, 60)
    if err:
        ev['err'] = err
        return None
    ck0, ud0, conn, p0, pre, m2, pd2, cd2, ck1, ud1, post = res
    scale = common_scale([p0, m2.doflocs], maxabs=2**20) if p0.shape[0] == m2.doflocs.shape[0] else None
    pre['p'], post['p'] = points_enc([p0, m2.doflocs], scale)
    ev['enc'] = 'int*%d' % scale if scale else 'bits'
    ev['pre'], ev['post'], ev['conn'] = pre, post, conn
    ev['ck_pre'], ev['ck_post'] = ck0, ck1
    ev['udck_pre'], ev['udck_post'] = ud0, ud1
    ev['ud_pre'], ev['ud_post'] = _ud_lists(pd_ref, cd_ref, pd2, cd2)
    return m2, pd2, cd2


def execute(rec):
    """Run the real code on a recipe; one event per format - and, for a recipe with a 'history', a second one per
    cell-data format: the loaded mesh is re-tagged (same names, other entity sets / flags) and saved again together
    with ALL the data that came with the first file (the old 'skfem:*' arrays included), then loaded."""
    events = []
    base = os.path.join(_scratch[0] or '/var/tmp', 'c17_%d' % os.getpid())
    with quiet():
        m, err0 = guarded(lambda: build(rec), 30)
    for fmt in rec['fmts']:
        ev = _new_event(fmt, 1)
        events.append(ev)
        hist = rec.get('history') if CODEC[fmt] == 'celldata' else None
        ev2 = None
        if hist:
            ev2 = _new_event(fmt, 2)
            events.append(ev2)
        if err0:
            ev['err'] = 'build:' + err0
            if ev2:
                ev2['err'] = 'previous:build'
            continue
        usable = CODEC[fmt] == 'celldata'
        pd, cd = _userdata(rec, m) if usable else ({}, {})
        res = _cycle(ev, m, fmt, pd, cd, base)
        if not ev2:
            continue
        if res is None:
            ev2['err'] = 'previous:' + ev['err']
            continue
        m2, pd2, cd2 = res

        def prepare():
            with quiet():
                m3 = _retag(m2, hist)
                # everything the first file gave back is passed through (meshio's own gmsh bookkeeping excepted:
                # its writers rebuild it), plus one more user array
                pd3 = {k: v for k, v in (pd2 or {}).items() if not k.startswith('gmsh:')}
                cd3 = {k: v for k, v in (cd2 or {}).items() if not k.startswith('gmsh:')}
                for k, v in hist.get('extra_cd', {}).items():
                    cd3[k] = [np.array(v['v'], dtype=v['dtype']).reshape(v['shape'])]
                return m3, pd3, cd3
        prep, err = guarded(prepare, 30)
        if err:
            ev2['err'] = 'retag:' + err
            continue
        m3, pd3, cd3 = prep
        _cycle(ev2, m3, fmt, pd3, cd3, base + '_b')
    return events


# ---------------------------------------------------------------- scenario generation

def _interior(m):
    return np.nonzero(m.f2t[1] >= 0)[0]


def _names(rng, k, kind):
    pool = ['left', 'inlet', 'Gamma_1', 'b', 'x-y', 'outer.wall', 'a_rather_long_boundary_name_0123456789', 'UP',
            'k9', 'interface', 'wall:inner', 'zone:1:a']
    pick = rng.choice(len(pool), size=k, replace=False)
    return [pool[j] + ('' if kind == 'b' else '_s') for j in pick]


def _with_repeats(f, ori, cand, interior, rng, p=0.15):
    """with probability p the index array lists a facet MORE THAN ONCE - one entry copied, or the concatenation of the
    selection with a second, overlapping one (a union built by concatenation); a repeated facet keeps the flag of its
    first copy, so the array designates the same SET of (oriented) facets as without the repetitions."""
    if not f or rng.random() >= p:
        return f, ori
    flag = dict(zip(f, ori)) if ori is not None else None
    if rng.random() < 0.5:
        more = [f[int(rng.integers(len(f)))] for _ in range(int(rng.integers(1, 3)))]
    else:
        keep = [x for x in f if rng.random() < 0.6] or [f[0]]
        pool = [int(x) for x in cand]
        new = [pool[int(j)] for j in rng.choice(len(pool), size=min(len(pool), int(rng.integers(0, 3))), replace=False)]
        more = keep + new
    if flag is not None:
        for x in more:
            if x not in flag:
                flag[x] = int(rng.integers(2)) if x in interior else 0
    f2 = list(f) + more
    if rng.random() < 0.3:
        f2 = sorted(f2)
    return f2, (None if flag is None else [flag[x] for x in f2])


def random_tags(m, rng, nb=2, ns=2, p_int=0.5):
    """random named boundaries (boundary and interior facets, random flags on interior ones) and sub-domains."""
    nf, nt = m.facets.shape[1], m.t.shape[1]
    interior = set(int(f) for f in _interior(m))
    bnd = {}
    for name in _names(rng, nb, 'b'):
        mode = rng.integers(4)
        if mode == 0:      # boundary facets only
            cand = np.array(sorted(set(range(nf)) - interior))
        elif mode == 1:    # interior only
            cand = np.array(sorted(interior)) if interior else np.arange(nf)
        else:
            cand = np.arange(nf)
        k = int(rng.integers(0 if mode == 3 else 1, min(len(cand), 7) + 1))
        f = rng.choice(cand, size=k, replace=False)
        if rng.random() < 0.6:
            f = np.sort(f)
        oriented = rng.random() < 0.7
        ori = None
        if oriented:
            ori = [int(rng.integers(2)) if int(x) in interior else 0 for x in f]
        f, ori = _with_repeats([int(x) for x in f], ori, cand, interior, rng)
        bnd[name] = {'f': f, 'ori': ori}
    sub = {}
    for name in _names(rng, ns, 's'):
        k = int(rng.integers(0, nt + 1))
        ix = rng.choice(nt, size=k, replace=False)
        if rng.random() < 0.6:
            ix = np.sort(ix)
        sub[name] = [int(x) for x in ix]
    return bnd, sub


def random_userdata(nnodes, nt, rng, dyadic):
    def vals(n, shape):
        if dyadic:
            return (rng.integers(-64, 65, size=n) / 8.0).tolist()
        return rng.standard_normal(n).tolist()
    pd = {'u': {'v': vals(nnodes, None), 'dtype': 'float64', 'shape': [nnodes]},
          'id': {'v': rng.integers(-5, 1000, size=nnodes).tolist(), 'dtype': 'int64', 'shape': [nnodes]}}
    if rng.random() < 0.5:
        pd['vec'] = {'v': vals(3 * nnodes, None), 'dtype': 'float64', 'shape': [nnodes, 3]}
    cd = {'mat': {'v': rng.integers(0, 7, size=nt).tolist(), 'dtype': 'int64', 'shape': [nt]},
          'kappa': {'v': vals(nt, None), 'dtype': 'float64', 'shape': [nt]}}
    return pd, cd


def base_meshes(tier, rng):
    """(kind, p, t, family): small meshes with integer coordinates, renumbered / re-ordered variants included."""
    out = []
    thorough = tier == 'thorough'
    for dg in ((0, 0, 0, 0), (1, 0, 0, 1), (0, 1, 1, 0)):
        p, t = U.tri_lattice(2, 2, dg)
        out.append(('tri', p, t, 'U2t'))
        for s in ((0, 1, 2, 3), (0, 1, 2, 5, 6, 7), (2, 3, 4)):
            ps, ts = U.submesh(p, t, s)
            out.append(('tri', ps, ts, 'U2t'))
    p, t = U.tri_lattice(3, 2, (0, 1, 0, 1, 1, 0))
    out.append(('tri', p, t, 'U2t'))
    p, t = U.tri_lattice(2, 2, (0, 1, 1, 0), jiggle=[(4, 0.25, 0.5)])
    out.append(('tri', p * 4, t, 'U2t-jiggled'))
    for (nx, ny) in ((1, 1), (2, 1), (2, 2), (3, 2)):
        p, t = U.quad_grid(nx, ny)
        out.append(('quad', p, t, 'U2q'))
    p, t = U.quad_grid(2, 2, jiggle=[(4, 0.25, -0.25)])
    out.append(('quad', p * 4, t, 'U2q-jiggled'))
    p, t = U.quad_grid(2, 2)
    ps, ts = U.submesh(p, t, (0, 1, 3))
    out.append(('quad', ps, ts, 'U2q'))
    for (n, split) in ((1, 6), (1, 5), (2, 6), (2, 5)):
        p, t = U.tet_cubes(n, split)
        out.append(('tet', p, t, 'U3t'))
    p, t = U.tet_cubes(1, 6)
    ps, ts = U.submesh(p, t, (0, 1, 2, 4))
    out.append(('tet', ps, ts, 'U3t'))
    for dims in ((1, 1, 1), (2, 1, 1), (2, 2, 1)) + (((2, 2, 2),) if thorough else ()):
        p, t = U.hex_grid(*dims)
        out.append(('hex', p, t, 'U3h'))
    p, t = U.hex_grid(2, 2, 1)
    ps, ts = U.submesh(p, t, (0, 1, 3))
    out.append(('hex', ps, ts, 'U3h'))
    # renumbered / cell-permuted / locally re-ordered variants
    var = []
    for (kind, p, t, fam) in out:
        if t.shape[1] < 2 or rng.random() < (0.3 if not thorough else 0.0):
            continue
        p2, t2 = U.renumber(p, t, rng.permutation(p.shape[1]))
        t2 = U.permute_cells(t2, rng.permutation(t2.shape[1]))
        t2 = U.apply_local_orders(kind, t2, rng)
        var.append((kind, p2, t2, fam + '-renumbered'))
    # random tier: integer Delaunay
    nd = 60 if thorough else 6
    for j in range(nd):
        dim = 2 if j % 2 == 0 else 3
        p, t = U.delaunay_int(dim, int(rng.integers(5, 10 if dim == 2 else 8)), 6 if dim == 2 else 4, rng)
        if 0 < t.shape[1] <= 30:
            var.append(('tri' if dim == 2 else 'tet', p, t, 'delaunay'))
    return out + var


def redefine_tags(m, rec, rng, dyadic):
    """a history for the recipe: every existing name gets another entity set (and other flags); sometimes a further
    name and a further user array appear.  No name is dropped."""
    nf, nt = m.facets.shape[1], m.t.shape[1]
    interior = set(int(f) for f in _interior(m))
    bnd, sub = {}, {}
    names = list(rec.get('bnd', {})) + (['added_later'] if rng.random() < 0.3 else [])
    for name in names:
        old = rec.get('bnd', {}).get(name, {'f': [], 'ori': None})
        for _ in range(5):
            k = int(rng.integers(1, min(nf, 7) + 1))
            f = [int(x) for x in rng.choice(nf, size=k, replace=False)]
            if rng.random() < 0.6:
                f = sorted(f)
            ori = [int(rng.integers(2)) if x in interior else 0 for x in f] if rng.random() < 0.7 else None
            if sorted(f) != sorted(old['f']) or (ori or []) != (old.get('ori') or []):
                break
        f, ori = _with_repeats(f, ori, np.arange(nf), interior, rng)
        bnd[name] = {'f': f, 'ori': ori}
    for name in list(rec.get('sub', {})) + (['zone_later'] if rng.random() < 0.3 else []):
        old = rec.get('sub', {}).get(name, [])
        for _ in range(5):
            ix = sorted(int(x) for x in rng.choice(nt, size=int(rng.integers(0, nt + 1)), replace=False))
            if ix != sorted(old):
                break
        sub[name] = ix
    hist = {'bnd': bnd, 'sub': sub, 'extra_cd': {}}
    if rng.random() < 0.6:
        if rng.random() < 0.5:
            hist['extra_cd']['later'] = {'v': rng.integers(-9, 99, size=nt).tolist(), 'dtype': 'int64', 'shape': [nt]}
        else:
            v = (rng.integers(-64, 65, size=nt) / 8.0) if dyadic else rng.standard_normal(nt)
            hist['extra_cd']['later'] = {'v': v.tolist(), 'dtype': 'float64', 'shape': [nt]}
    return hist


def make_recipe(kind, p, t, fam, rng, order, fmts, floats=False, curved=False, userdata=True, notags=False,
                history=False):
    import skfem
    rec = {'driver': 'rt', 'cls': FIRST[kind], 'order': order, 'family': fam,
           'p': np.asarray(p, dtype=float).tolist(), 't': np.asarray(t).astype(int).tolist(), 'fmts': list(fmts)}
    if floats:
        q = np.asarray(p, dtype=float) + rng.uniform(-0.05, 0.05, size=np.asarray(p).shape)
        rec['p'] = q.tolist()
    m1 = getattr(skfem, rec['cls'])(np.array(rec['p'], dtype=np.float64), np.array(rec['t'], dtype=np.int64))
    nnodes = m1.p.shape[1]
    if order == 2:
        m2 = getattr(skfem, SECOND[rec['cls']]).from_mesh(m1)
        nnodes = m2.doflocs.shape[1]
        if curved:
            nv = m1.p.shape[1]
            js = rng.choice(np.arange(nv, nnodes), size=min(4, nnodes - nv), replace=False)
            rec['curve'] = [[int(j), (rng.integers(-2, 3, size=m1.p.shape[0]) / 16.0).tolist()] for j in js]
    if notags:
        rec['notags'] = 1
    else:
        bnd, sub = random_tags(m1, rng, nb=int(rng.integers(1, 4)), ns=int(rng.integers(0, 3)))
        rec['bnd'], rec['sub'] = bnd, sub
    if userdata:
        rec['pd'], rec['cd'] = random_userdata(nnodes, m1.t.shape[1], rng, dyadic=not floats or 'vtu-ascii' in fmts)
    if history and not notags:
        rec['history'] = redefine_tags(m1, rec, rng, dyadic=not floats or 'vtu-ascii' in fmts)
    return rec


def _boundary_only(rec, rng):
    """restrict the boundary names of a recipe (and of its history) to facets that lie in one cell only."""
    import skfem
    m = getattr(skfem, rec['cls'])(np.array(rec['p'], dtype=np.float64), np.array(rec['t'], dtype=np.int64))
    bf = [int(x) for x in m.boundary_facets()]
    for tags in [rec.get('bnd', {})] + ([rec['history']['bnd']] if rec.get('history') else []):
        for name, b in tags.items():
            k = max(1, min(len(bf), len(b['f'])))
            f = [bf[int(j)] for j in rng.choice(len(bf), size=k, replace=False)]
            if rng.random() < 0.2:
                f.append(f[0])
            tags[name] = {'f': f, 'ori': None if b.get('ori') is None else [0] * len(f)}


def generate(tier, seed):
    rng = np.random.default_rng(seed + 17)
    thorough = tier == 'thorough'
    recs = []
    meshes = base_meshes(tier, rng)
    reps = 14 if thorough else 1
    for rep in range(reps):
        for n, (kind, p, t, fam) in enumerate(meshes):
            fm1 = list(ALL_FMTS)
            if thorough and (n + rep) % 3 == 0:
                fm1 += ['vtk-ascii', 'vtu-ascii']
            recs.append(make_recipe(kind, p, t, fam, rng, 1, fm1, history=(n + rep) % 2 == 0))
            # second order (dict / JSON are stated for first-order meshes only); the bigger ones are thinned in quick
            if t.shape[1] <= (8 if kind == 'hex' else 16) and (thorough or (n + rep) % 2 == 0):
                fm2 = ['mem', 'gmsh22', 'gmsh41', 'vtk', 'vtu', 'npz']
                if not thorough:
                    fm2 = ['mem', 'npz'] + [fm2[1 + (n + j) % 4] for j in range(2)]
                recs.append(make_recipe(kind, p, t, fam + '-o2', rng, 2, fm2, curved=(n + rep) % 2 == 0,
                                        history=(n + rep) % 4 == 0))
            # arbitrary float coordinates and float user data: bitwise comparison
            if (n + rep) % (2 if thorough else 4) == 0:
                recs.append(make_recipe(kind, p, t, fam + '-float', rng, 1 + (n // 4) % 2 if t.shape[1] <= 8 else 1,
                                        ['mem', 'gmsh22', 'gmsh41', 'vtk', 'vtu', 'npz'], floats=True, history=True))
    # triangle / tetrahedral meshes whose cells keep an UNSORTED local vertex order (sort_t=False with scrambled local
    # orders, results of oriented()): the loaders give MeshTri1 its own sorted order back, the tags must designate the
    # same facets and cells
    k = 0
    for (kind, p, t, fam) in meshes:
        if kind not in ('tri', 'tet') or t.shape[1] < 2 or 'renumbered' in fam:
            continue
        for variant in (0, 1):
            if not thorough and (k + variant) % 2 and kind == 'tet':
                continue
            t2 = U.apply_local_orders(kind, np.asarray(t), rng)
            r = make_recipe(kind, p, t2, fam + '-unsorted', rng, 1, ALL_FMTS, history=(k % 2 == 0))
            # interior facets included: which of its two cells a flag (or a plain array's implicit side) designates is read
            # off f2t, whose row order depends on the local order; /repo fix 88c0145 translates the flags to the mesh
            # that the loader returns (re-sorted t)
            r['unsorted'] = 1
            r['oriented'] = variant
            recs.append(r)
        k += 1
    # meshes without any tag (None must not turn into an error), empty tag arrays
    for (kind, p, t, fam) in meshes[::5]:
        recs.append(make_recipe(kind, p, t, fam + '-untagged', rng, 1, ALL_FMTS, notags=True))
    return recs


def scenario(sid, rec):
    tags = {'cls': rec['cls'], 'order': rec.get('order', 1), 'family': rec.get('family', '')}
    return {'id': sid, 'recipe': rec, 'tags': tags, 'events': execute(rec)}


def model(ctx):
    """M: MC_C17.cfg (current decoder, full scope) must hold; MC_C17_oriented.cfg (the decoder before commit 2ed791f,
    kept as a regression model) must be refuted by TLC.  Returns the TLC-exported scenarios for R."""
    out = os.path.join(ctx.scratch, 'c17_export.json')
    env = {'OUT_FILE': out, 'TIER': ctx.tier}
    to = 1500 if ctx.tier == 'thorough' else 400
    ctx.model_must_hold('MC_C17', 'MC_C17.cfg', env=env, timeout=to, xmx='4g',
                        label='every facet subset x every flag assignment x sub-domain subsets, DecodeImpl (current code)')
    old = ctx.tlc_model('MC_C17', 'MC_C17_oriented.cfg', env={'OUT_FILE': '', 'TIER': ctx.tier}, timeout=to, xmx='4g',
                        label='regression model: decoder before 2ed791f (facets sorted, owner cells not permuted)')
    ctx.notes['old_decoder_refuted_by_tlc'] = bool(old['violated'])
    if not old['violated']:
        raise MachineryError('MC_C17_oriented.cfg: TLC no longer refutes the pre-repair decoder DecodeImplOld')
    recs = []
    if os.path.exists(out):
        docs = json.load(open(out))
        docs.sort(key=lambda d: json.dumps(d, sort_keys=True))
        rng = np.random.default_rng(ctx.seed + 1017)
        limit = 6000 if ctx.tier == 'thorough' else 700
        if len(docs) > limit:
            docs = [docs[j] for j in sorted(rng.choice(len(docs), limit, replace=False))]
        for n, d in enumerate(docs):
            fm = ['mem'] + ([ALL_FMTS[1 + n % 4]] if n % 3 == 0 else []) + (['npz', 'dict'] if n % 7 == 0 else [])
            recs.append({'driver': 'rt', 'cls': FIRST[d['kind']], 'order': 1, 'family': 'TLC-universe',
                         'p': np.array(d['p'], dtype=float).T.tolist(), 't': (np.array(d['t']).T - 1).tolist(),
                         'sub': {'s': [int(k) - 1 for k in d['sub']]},
                         'bndv': {'b': {'fv': [[int(v) - 1 for v in f] for f in d['fv']],
                                        'own': [int(k) - 1 for k in d['own']]}},
                         'keep_empty': 1, 'multi': int(d['multi']), 'fmts': fm})
    return recs


def _nontrivial(rec):
    if rec.get('order', 1) == 2:
        return True
    for b in list(rec.get('bnd', {}).values()):
        if len(b['f']) >= 2:
            return True
    for b in list(rec.get('bndv', {}).values()):
        if len(b['fv']) >= 2:
            return True
    return False


SUITE_FILES = ['tests/test_mesh.py', 'tests/test_examples.py', 'tests/test_assembly.py', 'tests/test_basis.py']


def from_suite(ctx):
    """thorough tier: the repository's own tests as drivers (harness/suite_io.py records every export / import they
    make on small meshes); the recorded events are judged by the same trace specification."""
    from .. import suite
    rec = suite.record(ctx, files=SUITE_FILES, plugins=['harness.suite_io'])
    evs = rec.get('c17', [])
    scs = [{'id': f'C17-suite-{k}', 'recipe': {'driver': 'suite', 'test': e.get('test', '')},
            'tags': {'family': 'suite'}, 'events': [e]} for k, e in enumerate(evs)]
    ctx.validate('TraceC17', scs, jvms=8)
    kinds = {}
    for e in evs:
        k = '%s:%s' % (e['a'], e['fmt'])
        kinds[k] = kinds.get(k, 0) + 1
    skipped = {}
    for d in rec.get('io_skipped', []):
        for k, v in d.items():
            if k.startswith('c17:'):
                skipped[k] = skipped.get(k, 0) + v
    ctx.notes['scenarios_from_repository_tests'] = len(scs)
    ctx.notes['suite_events_by_kind'] = kinds
    ctx.notes['suite_skipped'] = skipped


def _machinery_guard(ctx):
    """an event TraceC17 cannot read is a defect of the harness (exit 2), never a verdict on the library."""
    for f in ctx.failures:
        if f['clause'] == 'HarnessInputWellFormed':
            raise MachineryError('harness produced a malformed C17 event: %s position %s'
                                 % (f['scenario']['id'], f['pos']))


def run(ctx):
    _scratch[0] = ctx.scratch
    recs = model(ctx)
    n_tlc = len(recs)
    recs += generate(ctx.tier, ctx.seed)
    scs = [scenario(f'C17-{k}', r) for k, r in enumerate(recs)]
    ctx.validate('TraceC17', scs, jvms=8)
    if ctx.tier == 'thorough':
        from_suite(ctx)
    _machinery_guard(ctx)
    ctx.notes['history_events'] = sum(1 for s in scs for e in s['events'] if e.get('step') == 2)
    keys = {json.dumps([r['cls'], r.get('order', 1), r['p'], r['t'], r.get('bnd'), r.get('bndv'), r.get('sub')],
                       sort_keys=True) for r in recs if _nontrivial(r)}
    ctx.notes['distinct_nontrivial'] = len(keys)
    ctx.notes['scenarios_from_tlc_universe'] = n_tlc
    ctx.notes['model_drift'] = {'checked': ctx.clause_counts.pop('Drift_checked', 0),
                                'mismatch': ctx.clause_counts.pop('Drift_mismatch', 0)}
    fm = {}
    for s in scs:
        for e in s['events']:
            fm[e['fmt']] = fm.get(e['fmt'], 0) + 1
    ctx.notes['events_per_format'] = fm
    return ctx.finish(rule=RULE, assumptions=[
        'orientation flag 1 is only put on interior facets (flag 1 on a boundary facet has no owner cell)',
        'tag names are drawn from [A-Za-z0-9_.:-]; names with blanks are not explored '
        '(meshio refuses them for VTK)',
        'dictionary / JSON forms are exercised for first-order meshes only, as the statement says',
        'text formats with limited precision (ASCII .vtu) get dyadic coordinates and data only',
        'TLC 1.8.0, the CommunityModules Json module and meshio 5.3.5 are trusted'],
        exhaustive=False)


def replay(ctx, doc):
    _scratch[0] = ctx.scratch
    sc = doc['scenario']
    if sc.get('recipe', {}).get('driver') == 'model':
        ctx.model_must_hold('MC_C17', sc['recipe']['cfg'], env={'OUT_FILE': '', 'TIER': ctx.tier}, timeout=1500)
        return ctx.finish(rule=RULE)
    if sc.get('recipe', {}).get('driver') == 'suite':
        # recorded from the repository's tests: the recorded event is re-validated
        ctx.validate('TraceC17', [sc], jvms=8)
        _machinery_guard(ctx)
        return ctx.finish(rule=RULE)
    sc2 = scenario(sc['id'], sc['recipe'])
    ctx.validate('TraceC17', [sc2], jvms=8)
    _machinery_guard(ctx)
    return ctx.finish(rule=RULE)
