---------------------------- MODULE MC_Universe ----------------------------
(* The small mesh universes TLC enumerates exhaustively (DESIGN section 5).   *)
(* All coordinates are integers.  A mesh is [kind, nv, p, t].                  *)
EXTENDS Prelude

\* ---- code's reference tables (skfem/refdom.py), 1-based ----
CodeLF(kind) ==
  CASE kind = "line"  -> <<<<1>>, <<2>>>>
    [] kind = "tri"   -> <<<<1,2>>, <<2,3>>, <<1,3>>>>
    [] kind = "quad"  -> <<<<1,2>>, <<2,3>>, <<3,4>>, <<1,4>>>>
    [] kind = "tet"   -> <<<<1,2,3>>, <<1,2,4>>, <<1,3,4>>, <<2,3,4>>>>
    [] kind = "hex"   -> <<<<1,2,5,3>>, <<1,3,7,4>>, <<1,4,6,2>>, <<3,5,8,7>>, <<2,6,8,5>>, <<4,7,8,6>>>>
    [] kind = "wedge" -> <<<<1,2,5,4>>, <<2,3,6,5>>, <<1,3,6,4>>, <<1,2,3,1>>, <<4,5,6,4>>>>
CodeLE(kind) ==
  CASE kind = "tet"   -> <<<<1,2>>, <<2,3>>, <<1,3>>, <<1,4>>, <<2,4>>, <<3,4>>>>
    [] kind = "hex"   -> <<<<1,2>>, <<1,3>>, <<1,4>>, <<2,5>>, <<2,6>>, <<3,5>>, <<3,7>>, <<4,6>>, <<4,7>>, <<5,8>>, <<6,8>>, <<7,8>>>>
    [] kind = "wedge" -> <<<<1,2>>, <<2,3>>, <<1,3>>, <<4,5>>, <<5,6>>, <<4,6>>, <<1,4>>, <<2,5>>, <<3,6>>>>
    [] OTHER          -> <<>>
\* facets of the boundary element (tet -> triangle, hex -> quadrilateral)
CodeLFE(kind) ==
  CASE kind = "tet" -> <<<<1,2>>, <<2,3>>, <<1,3>>>>
    [] kind = "hex" -> <<<<1,2>>, <<2,3>>, <<3,4>>, <<1,4>>>>
    [] OTHER        -> <<>>

\* ---- sub-mesh with order-preserving compaction of the vertex numbers ----
SubMesh(kind, p, cells, S) ==
  LET ks   == SortedSeq(S)
      used == UNION {VSet(cells[k]) : k \in S}
      new(v) == Cardinality({u \in used : u <= v})
      us   == SortedSeq(used)
  IN [kind |-> kind, nv |-> Cardinality(used),
      p |-> [i \in 1..Len(us) |-> p[us[i]]],
      t |-> [i \in 1..Len(ks) |-> [j \in DOMAIN cells[ks[i]] |-> new(cells[ks[i]][j])]]]

Renumber(m, perm) ==          \* perm[old] = new
  [kind |-> m.kind, nv |-> m.nv,
   p |-> [v \in 1..m.nv |-> m.p[CHOOSE u \in 1..m.nv : perm[u] = v]],
   t |-> [k \in DOMAIN m.t |-> [j \in DOMAIN m.t[k] |-> perm[m.t[k][j]]]]]
ReversePerm(n)  == [v \in 1..n |-> n + 1 - v]
RotateBy(n, s) == [v \in 1..n |-> ((v - 1 + s) % n) + 1]
ReverseCells(m) == [m EXCEPT !.t = [k \in DOMAIN m.t |-> m.t[Len(m.t) + 1 - k]]]
\* MeshTri1.__post_init__ with sort_t = True
SortCells(m) == [m EXCEPT !.t = [k \in DOMAIN m.t |-> SortedSeq(VSet(m.t[k]))]]

NonEmptySubsets(S) == SUBSET S \ {{}}

\* ---- U1: segments over 0..4, any non-empty subset (gaps / several components) ----
LineP == [v \in 1..5 |-> <<v - 1>>]
LineCells == [k \in 1..4 |-> <<k, k + 1>>]
U1 == {SubMesh("line", LineP, LineCells, S) : S \in NonEmptySubsets(1..4)}

\* ---- U2t: 2x2 lattice squares, each split by either diagonal ----
LatP == [v \in 1..9 |-> <<(v - 1) % 3, (v - 1) \div 3>>]
SqCorner(sq) == ((sq - 1) \div 2) * 3 + ((sq - 1) % 2) + 1
TriCells(d) == FlattenSeq([sq \in 1..4 |->
   LET a == SqCorner(sq) b == a + 1 c == a + 4 dd == a + 3 IN
   IF d[sq] = 0 THEN <<<<a, b, c>>, <<a, c, dd>>>> ELSE <<<<a, b, dd>>, <<b, c, dd>>>>])
U2tOf(DiagSets, Subs) == {SubMesh("tri", LatP, TriCells(d), S) : d \in DiagSets, S \in Subs}

\* ---- U2q: 2x2 quadrilaterals, every subset, every cyclic shift pattern from a small set ----
QuadCells == [sq \in 1..4 |-> LET a == SqCorner(sq) IN <<a, a + 1, a + 4, a + 3>>]
ShiftCell(c, s) == [j \in 1..4 |-> c[((j - 1 + s) % 4) + 1]]
U2q == {SubMesh("quad", LatP, [sq \in 1..4 |-> ShiftCell(QuadCells[sq], sh[sq])], S) :
          sh \in {[sq \in 1..4 |-> 0], [sq \in 1..4 |-> sq - 1], [sq \in 1..4 |-> (3 * sq) % 4]},
          S \in NonEmptySubsets(1..4)}

\* ---- U3t: one unit cube, Kuhn split (6) or 5-split ----
CubeP == [v \in 1..8 |-> <<(v - 1) % 2, ((v - 1) \div 2) % 2, (v - 1) \div 4>>]
CubeV(x, y, z) == 1 + x + 2 * y + 4 * z
Kuhn == << <<CubeV(0,0,0), CubeV(1,0,0), CubeV(1,1,0), CubeV(1,1,1)>>,
           <<CubeV(0,0,0), CubeV(1,0,0), CubeV(1,0,1), CubeV(1,1,1)>>,
           <<CubeV(0,0,0), CubeV(0,1,0), CubeV(1,1,0), CubeV(1,1,1)>>,
           <<CubeV(0,0,0), CubeV(0,1,0), CubeV(0,1,1), CubeV(1,1,1)>>,
           <<CubeV(0,0,0), CubeV(0,0,1), CubeV(1,0,1), CubeV(1,1,1)>>,
           <<CubeV(0,0,0), CubeV(0,0,1), CubeV(0,1,1), CubeV(1,1,1)>> >>
Five == << <<CubeV(0,0,0), CubeV(1,0,0), CubeV(0,1,0), CubeV(0,0,1)>>,
           <<CubeV(1,1,0), CubeV(1,0,0), CubeV(0,1,0), CubeV(1,1,1)>>,
           <<CubeV(1,0,1), CubeV(1,0,0), CubeV(0,0,1), CubeV(1,1,1)>>,
           <<CubeV(0,1,1), CubeV(0,1,0), CubeV(0,0,1), CubeV(1,1,1)>>,
           <<CubeV(1,0,0), CubeV(0,1,0), CubeV(0,0,1), CubeV(1,1,1)>> >>
U3t == {SubMesh("tet", CubeP, Kuhn, S) : S \in NonEmptySubsets(1..6)}
       \cup {SubMesh("tet", CubeP, Five, S) : S \in NonEmptySubsets(1..5)}

\* ---- U3h: 2x2x1 hexahedra (code's local vertex order), every subset ----
HexP == [v \in 1..18 |-> <<(v - 1) % 3, ((v - 1) \div 3) % 3, (v - 1) \div 9>>]
HexV(x, y, z) == 1 + x + 3 * y + 9 * z
RefHexOff == << <<1,1,1>>, <<1,1,0>>, <<1,0,1>>, <<0,1,1>>, <<1,0,0>>, <<0,1,0>>, <<0,0,1>>, <<0,0,0>> >>
HexCell(i, j) == [n \in 1..8 |-> HexV(i + RefHexOff[n][1], j + RefHexOff[n][2], RefHexOff[n][3])]
HexCells == << HexCell(0,0), HexCell(1,0), HexCell(0,1), HexCell(1,1) >>
U3h == {SubMesh("hex", HexP, HexCells, S) : S \in NonEmptySubsets(1..4)}

WithNumberings(U) == U \cup {Renumber(m, ReversePerm(m.nv)) : m \in U}
                       \cup {ReverseCells(Renumber(m, RotateBy(m.nv, 2))) : m \in U}
==============================================================================
