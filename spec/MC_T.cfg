SPECIFICATION Spec2
INVARIANT ClausesHold
CHECK_DEADLOCK FALSE
