--------------------------------- MODULE BC ---------------------------------
(* Essential boundary conditions (property C05): condense, enforce, penalize, *)
(* expansion -- skfem/utils.py.                                                *)
(*                                                                             *)
(* A sparse matrix is the CSR triple the code holds:                           *)
(*    [n, m, ptr (0-based offsets, length n+1), idx (1-based columns), dat]    *)
(* so that rows with no stored entry, explicit zeros, unsorted and duplicate   *)
(* column indices are all representable.  Entries are integers (exact          *)
(* universe): products and sums of small integers are exact in float64.        *)
(*                                                                             *)
(* Layers: relational clauses (what C05 demands of the RETURNED objects) and   *)
(* the algorithmic transcription EnforceImpl / CondenseImpl / PenalizeImpl.    *)
EXTENDS Prelude

\* ---------------------------------------------------------------- matrices
MatWF(A) ==
  /\ A.n >= 0 /\ A.m >= 0
  /\ Len(A.ptr) = A.n + 1 /\ A.ptr[1] = 0
  /\ \A i \in 1..A.n : A.ptr[i] <= A.ptr[i + 1]
  /\ Len(A.idx) = A.ptr[A.n + 1] /\ Len(A.dat) = Len(A.idx)
  /\ \A k \in DOMAIN A.idx : A.idx[k] \in 1..A.m

RowSlots(A, i)  == (A.ptr[i] + 1)..A.ptr[i + 1]
Val(A, i, j)    == SumOver(A.dat, {k \in RowSlots(A, i) : A.idx[k] = j})     \* duplicates sum
Dense(A)        == [i \in 1..A.n |-> [j \in 1..A.m |-> Val(A, i, j)]]
Stored(A, i, j) == \E k \in RowSlots(A, i) : A.idx[k] = j
RowDot(row, y)  == SumOver([j \in DOMAIN row |-> row[j] * y[j]], DOMAIN row)

\* the complement in increasing order: np.setdiff1d(arange(n), S)
Complement(n, S) == SortedSeq((1..n) \ VSet(S))

\* ---------------------------------------------------------------- relational clauses
\* D : sequence of constrained indices (any order, no repetition), x : prescribed values (length n)

EnforceRowsExact(Ao, D, diag) ==
  LET d == Dense(Ao) IN \A i \in VSet(D) : \A j \in 1..Ao.m : d[i][j] = (IF i = j THEN diag ELSE 0)
EnforceOthersUntouched(A, Ao, D) ==
  LET a == Dense(A) o == Dense(Ao) IN
  /\ Ao.n = A.n /\ Ao.m = A.m
  /\ \A i \in (1..A.n) \ VSet(D) : o[i] = a[i]
EnforceRhsVector(b, bo, x, D) ==
  /\ Len(bo) = Len(b)
  /\ \A i \in DOMAIN b : bo[i] = (IF i \in VSet(D) THEN x[i] ELSE b[i])
\* matrix right-hand side (mass matrix of an eigen / initial value problem): constrained rows vanish
EnforceMassMatrix(B, Bo, D) ==
  LET a == Dense(B) o == Dense(Bo) IN
  /\ Bo.n = B.n /\ Bo.m = B.m
  /\ \A i \in 1..B.n : \A j \in 1..B.m : o[i][j] = (IF i \in VSet(D) THEN 0 ELSE a[i][j])

\* condense: I is the index sequence the code returned (or the complement if it returned none)
KeptIsComplement(n, I, D) == /\ IsInjectiveSeq(I) /\ VSet(I) = (1..n) \ VSet(D)
CondensedMatrixIsRestriction(A, AII, I) ==
  LET a == Dense(A) c == Dense(AII) IN
  /\ AII.n = Len(I) /\ AII.m = Len(I)
  /\ \A r, s \in DOMAIN I : c[r][s] = a[I[r]][I[s]]
\* b_I - A_ID x_D : entrywise equality is equivalent to "every solution z of the condensed system expands to a
\* vector satisfying the original equations on the kept rows" (both sides are affine in z)
CondensedRhs(A, b, x, bI, I, D) ==
  LET a == Dense(A) IN
  /\ Len(bI) = Len(I)
  /\ \A r \in DOMAIN I : bI[r] = b[I[r]] - SumOver([d \in VSet(D) |-> a[I[r]][d] * x[d]], VSet(D))
\* the same statement, in the words of the property, for ONE expanded vector y = Expand(z):
\*   y = x on D, and the original residual on the kept rows equals the condensed residual
ExpandedSatisfies(A, b, x, AII, bI, I, D, z, y) ==
  LET a == Dense(A) c == Dense(AII) IN
  /\ Len(y) = A.n
  /\ \A i \in VSet(D) : y[i] = x[i]
  /\ \A r \in DOMAIN I : y[I[r]] = z[r]
  /\ \A r \in DOMAIN I : RowDot(a[I[r]], y) - b[I[r]] = RowDot(c[r], z) - bI[r]

\* penalize with penalty 1/eps = ie (an integer power of two in the exact universe)
PenalizeKeptRowsUntouched(A, Ap, D) == EnforceOthersUntouched(A, Ap, D)
PenalizeRows(A, Ap, D, ie) ==
  LET a == Dense(A) p == Dense(Ap) IN
  \A i \in VSet(D) : \A j \in 1..A.m : p[i][j] = (IF i = j THEN ie ELSE a[i][j])
PenalizeRhs(b, bp, x, D, ie) ==
  /\ Len(bp) = Len(b)
  /\ \A i \in DOMAIN b : bp[i] = (IF i \in VSet(D) THEN x[i] * ie ELSE b[i])

\* ---------------------------------------------------------------- transcriptions
\* _init_bc (utils.py:292-320)
InitBcImpl(n, hasI, I, hasD, D, hasx, x, hasb, b) ==
  [ ok |-> (hasI # hasD),                                             \* exactly one of I, D
    I  |-> IF hasI THEN I ELSE Complement(n, D),
    D  |-> IF hasD THEN D ELSE Complement(n, I),
    x  |-> IF hasx THEN x ELSE [i \in 1..n |-> 0],
    b  |-> IF hasb THEN b ELSE [i \in 1..n |-> 0] ]

\* enforce (utils.py:373-399).  start/stop/count per constrained row, flat positions idx into A.data.
\*   idx = repeat(start - cumsum(count) + count, count) + arange(count.sum())
CumSum(c)  == [r \in DOMAIN c |-> SumOver(c, 1..r)]
RepeatSeq(v, c) == FlattenSeq([r \in DOMAIN c |-> [q \in 1..c[r] |-> v[r]]])
EnforceIdx(A, D) ==
  LET start == [r \in DOMAIN D |-> A.ptr[D[r]]]
      count == [r \in DOMAIN D |-> A.ptr[D[r] + 1] - A.ptr[D[r]]]
      cs    == CumSum(count)
      base  == RepeatSeq([r \in DOMAIN D |-> start[r] - cs[r] + count[r]], count)
  IN [q \in DOMAIN base |-> base[q] + (q - 1)]                       \* 0-based positions in A.data

\* the formula before the repair (fix: d626ae9), kept as a regression model: TLC refutes it
\*   idx = ones(count.sum()); idx[cumsum(count)[:-1]] -= count[:-1]; idx = repeat(start, count) + cumsum(idx) - 1
\* numpy semantics: fancy "-=" is buffered (for a repeated position the LAST assignment wins, each computed from
\* the original value); a position == len(idx) raises IndexError.
EnforceIdxOld(A, D) ==
  LET start == [r \in DOMAIN D |-> A.ptr[D[r]]]
      count == [r \in DOMAIN D |-> A.ptr[D[r] + 1] - A.ptr[D[r]]]
      tot   == SumOver(count, DOMAIN count)
      cs    == CumSum(count)
      nD    == Len(D)
      pos   == [r \in 1..(nD - 1) |-> cs[r]]                           \* 0-based positions cumsum(count)[:-1]
      raises == \E r \in DOMAIN pos : pos[r] >= tot
      ones  == [q \in 1..tot |->
                  IF \E r \in DOMAIN pos : pos[r] = q - 1
                  THEN 1 - count[MaxSet({r \in DOMAIN pos : pos[r] = q - 1})]
                  ELSE 1]
      csum  == CumSum(ones)
      rep   == RepeatSeq(start, count)
  IN IF nD = 0 THEN [raises |-> FALSE, idx |-> <<>>]
     ELSE IF raises THEN [raises |-> TRUE, idx |-> <<>>]
     ELSE [raises |-> FALSE, idx |-> [q \in 1..tot |-> rep[q] + csum[q] - 1]]

\* Aout.data[idx] = 0;  d = Aout.diagonal(); d[D] = diag; Aout.setdiag(d)
\* setdiag on CSR: stored diagonal entries are overwritten, missing ones are inserted (abstractly: appended to the row)
SetDiag(A, d) ==
  LET rows == [i \in 1..A.n |->
                 LET slots == [q \in 1..(A.ptr[i + 1] - A.ptr[i]) |-> A.ptr[i] + q]
                     has   == i <= A.m /\ \E q \in DOMAIN slots : A.idx[slots[q]] = i
                     first == IF has THEN MinSet({q \in DOMAIN slots : A.idx[slots[q]] = i}) ELSE 0
                     base  == [q \in DOMAIN slots |->
                                 <<A.idx[slots[q]],
                                   IF A.idx[slots[q]] = i
                                   THEN (IF q = first THEN d[i] ELSE 0)      \* duplicates: value set once
                                   ELSE A.dat[slots[q]]>>]
                 IN IF has \/ i > A.m THEN base ELSE Append(base, <<i, d[i]>>)]
      lens == [i \in 1..A.n |-> Len(rows[i])]
      flat == FlattenSeq(rows)
  IN [n |-> A.n, m |-> A.m,
      ptr |-> [i \in 1..(A.n + 1) |-> SumOver(lens, 1..(i - 1))],
      idx |-> [k \in DOMAIN flat |-> flat[k][1]],
      dat |-> [k \in DOMAIN flat |-> flat[k][2]]]
Diagonal(A) == [i \in 1..A.n |-> IF i <= A.m THEN Val(A, i, i) ELSE 0]

ZeroAt(A, idx0) == [A EXCEPT !.dat = [k \in DOMAIN A.dat |-> IF \E q \in DOMAIN idx0 : idx0[q] = k - 1 THEN 0 ELSE A.dat[k]]]

EnforceMatImplWith(A, D, diag, idx0) ==
  LET Z == ZeroAt(A, idx0)
      d == [i \in 1..A.n |-> IF i \in VSet(D) THEN diag ELSE Diagonal(Z)[i]]
  IN SetDiag(Z, d)
EnforceMatImpl(A, D, diag) == EnforceMatImplWith(A, D, diag, EnforceIdx(A, D))
EnforceVecImpl(b, x, D)    == [i \in DOMAIN b |-> IF i \in VSet(D) THEN x[i] ELSE b[i]]

\* condense (utils.py:590-611):  A[I][:, I],  b[I] - A[I][:, D] @ x[D]
RestrictImpl(A, R, C) ==
  LET a == Dense(A)
      rows == [r \in DOMAIN R |-> [s \in DOMAIN C |-> a[R[r]][C[s]]]]
  IN rows                                                                \* dense; the storage pattern is not judged
CondenseRhsImpl(A, b, x, I, D) ==
  LET aid == RestrictImpl(A, I, D) IN
  [r \in DOMAIN I |-> b[I[r]] - SumOver([s \in DOMAIN D |-> aid[r][s] * x[D[s]]], DOMAIN D)]
\* solve_linear (utils.py:231-237):  y = x.copy(); y[I] = z
ExpandImpl(x, I, z) == [i \in DOMAIN x |-> IF \E r \in DOMAIN I : I[r] = i
                                           THEN z[MaxSet({r \in DOMAIN I : I[r] = i})] ELSE x[i]]

\* penalize (utils.py:445-462) with explicit epsilon = 1/ie
PenalizeMatImpl(A, D, ie) ==
  SetDiag(A, [i \in 1..A.n |-> IF i \in VSet(D) THEN ie ELSE Diagonal(A)[i]])
PenalizeVecImpl(b, x, D, ie) == [i \in DOMAIN b |-> IF i \in VSet(D) THEN x[i] * ie ELSE b[i]]

\* dense -> CSR with every entry stored (used to compare a dense Impl result through the same clauses)
DenseToMat(rows, m) ==
  [n |-> Len(rows), m |-> m,
   ptr |-> [i \in 1..(Len(rows) + 1) |-> (i - 1) * m],
   idx |-> [k \in 1..(Len(rows) * m) |-> ((k - 1) % m) + 1],
   dat |-> [k \in 1..(Len(rows) * m) |-> rows[((k - 1) \div m) + 1][((k - 1) % m) + 1]]]
==============================================================================
