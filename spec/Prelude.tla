------------------------------ MODULE Prelude ------------------------------
(* Common operators of the scikit-fem specification: folds, orders, small     *)
(* integer arithmetic.  Everything is 32-bit safe on the universes used.       *)
EXTENDS Integers, Sequences, FiniteSets, TLC, SequencesExt, FiniteSetsExt, Functions, Json, IOUtils, TLCExt

Abs(x)  == IF x < 0 THEN -x ELSE x
Sgn(x)  == IF x < 0 THEN -1 ELSE IF x > 0 THEN 1 ELSE 0
Min2(a, b) == IF a <= b THEN a ELSE b
Max2(a, b) == IF a >= b THEN a ELSE b

\* folds of the CommunityModules are evaluated by Java overrides (no deep recursion on large sets)
SumSeq(s) == FoldLeft(LAMBDA acc, x : acc + x, 0, s)

\* sum of f[x] over x in S (f a function or sequence)
SumOver(f, S) == FoldSet(LAMBDA x, acc : f[x] + acc, 0, S)

MinSet(S) == CHOOSE x \in S : \A y \in S : x <= y
MaxSet(S) == CHOOSE x \in S : \A y \in S : x >= y

VSet(tup) == {tup[i] : i \in DOMAIN tup}
IsInjectiveSeq(s) == Cardinality({s[i] : i \in DOMAIN s}) = Len(s)      \* no repeated entry (n log n, not n^2)

\* sorted sequence of a finite set of integers
RECURSIVE SortedSeq(_)
SortedSeq(S) == IF S = {} THEN <<>> ELSE LET x == MinSet(S) IN <<x>> \o SortedSeq(S \ {x})

\* lexicographic comparison of equally long integer tuples
RECURSIVE LexLess(_, _)
LexLess(a, b) == IF a = <<>> THEN FALSE
                 ELSE IF Head(a) # Head(b) THEN Head(a) < Head(b)
                 ELSE LexLess(Tail(a), Tail(b))

Pow2(n) == 2 ^ n

\* position of the first occurrence of x in s (0 if absent)
FirstPos(s, x) == IF \E i \in DOMAIN s : s[i] = x
                  THEN MinSet({i \in DOMAIN s : s[i] = x}) ELSE 0
LastPos(s, x)  == IF \E i \in DOMAIN s : s[i] = x
                  THEN MaxSet({i \in DOMAIN s : s[i] = x}) ELSE 0

\* names of the clauses of a record r of BOOLEANs that are FALSE
Failed(r) == {c \in DOMAIN r : ~r[c]}
==============================================================================
