---- MODULE MC_T ----
EXTENDS MC_C01
Init2 == /\ \E s \in {[nbu |-> 2, nbv |-> 2, nel |-> 2, nq |-> 2, ncu |-> 1]} : \E eu \in Tables(2, 2, 3) : \E ev \in {<<<<1,2>>,<<2,3>>>>} : \E F \in BilTerms(1) : case = [s |-> s, eu |-> eu, ev |-> ev, F |-> F]
         /\ failed = {"pending"}
Spec2 == Init2 /\ [][Compute]_vars
====
