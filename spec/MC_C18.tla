------------------------------- MODULE MC_C18 -------------------------------
(* Design-level check of C18: the transcriptions of restrict /                 *)
(* remove_elements / + / remove_unused_nodes / remove_duplicate_nodes /        *)
(* to_meshtri (both styles) / to_meshtet (Surgery.tla, part 2) satisfy every   *)
(* relational clause SurgeryClauses, for small meshes (<= 6 cells) x every     *)
(* cell subset x tag subsets, and for compositions of two operations.          *)
(*                                                                             *)
(* Operands that store a point behind their highest used vertex and named     *)
(* boundaries that list a facet twice are ordinary inputs.                     *)
(*                                                                             *)
(* Regress = "none"   : MC_C18.cfg - the transcriptions of the current code:   *)
(*                      must hold                                              *)
(* REGRESSION MODELS that TLC must keep refuting (harness: *_refuted_by_tlc):  *)
(* Regress = "dup"    : MC_C18_dup.cfg    - remove_duplicate_nodes before      *)
(*                      0832543 (tag arrays kept verbatim)                     *)
(* Regress = "counts" : MC_C18_counts.cfg - to_meshtri(style='x') and tri*line *)
(*                      before e738c29 (new points numbered from the highest   *)
(*                      USED vertex + 1)                                       *)
(* Regress = "repeat" : MC_C18_repeat.cfg - to_meshtri's facet lookup before   *)
(*                      229e2bb (np.sort: a repeated facet id is looked up     *)
(*                      twice with one shared iterator)                        *)
EXTENDS Surgery

CONSTANT Regress
Tier == IF "TIER" \in DOMAIN IOEnv THEN IOEnv.TIER ELSE "quick"

Twice(p) == [v \in DOMAIN p |-> [i \in DOMAIN p[v] |-> 2 * p[v][i]]]
Strip(m) == [kind |-> m.kind, p |-> Twice(m.p), t |-> m.t]
FanP == << <<0,0>>, <<4,0>>, <<4,4>>, <<0,4>>, <<2,2>> >>
FanT == << <<1,2,5>>, <<2,3,5>>, <<3,4,5>>, <<4,1,5>> >>
WedgeP == << <<0,0,0>>, <<0,0,2>>, <<0,2,0>>, <<2,0,0>>, <<0,2,2>>, <<2,0,2>>, <<2,2,0>>, <<2,2,2>> >>
WedgeT == << <<1,3,4,2,5,6>>, <<3,4,7,5,6,8>> >>                  \* MeshWedge1() default
\* unsorted vertex numbering: remove_duplicate_nodes / + renumber in coordinate order
Scramble(m) == LET n == Len(m.p) perm == RotateBy(n, 2) IN          \* perm[old] = new
               [kind |-> m.kind, p |-> [v \in 1..n |-> m.p[CHOOSE u \in 1..n : perm[u] = v]],
                t |-> [k \in DOMAIN m.t |-> [j \in DOMAIN m.t[k] |-> perm[m.t[k][j]]]]]
MeshSeq ==
  << [kind |-> "tri", p |-> FanP, t |-> FanT],
     Strip(SubMesh("tri", LatP, TriCells([sq \in 1..4 |-> sq % 2]), {1, 2, 3, 4})),
     Strip(SubMesh("quad", LatP, [sq \in 1..4 |-> ShiftCell(QuadCells[sq], sq - 1)], {1, 2, 3, 4})),
     Strip(SubMesh("quad", LatP, QuadCells, {1, 2, 4})),
     Strip(SubMesh("tet", CubeP, Five, 1..5)),
     Strip(SubMesh("hex", HexP, HexCells, {1, 2})),
     [kind |-> "wedge", p |-> WedgeP, t |-> WedgeT],
     Scramble(Strip(SubMesh("quad", LatP, QuadCells, {1, 2, 3}))) >>
   \o (IF Tier = "thorough"
       THEN << Scramble(Strip(SubMesh("tri", LatP, TriCells([sq \in 1..4 |-> 0]), {1, 2, 3, 4, 5, 6}))),
               Strip(SubMesh("tet", CubeP, Kuhn, 1..6)), Strip(SubMesh("hex", HexP, HexCells, {1, 2, 3})),
               Strip(SubMesh("quad", LatP, [sq \in 1..4 |-> ShiftCell(QuadCells[sq], (3 * sq) % 4)], {1, 2, 3, 4})) >>
       ELSE <<>>)
NM == Len(MeshSeq)
ASSUME \A i \in 1..NM : ConnOfMesh(MeshSeq[i]) = ConnOfMeshSlow(MeshSeq[i])

NoPar == [elements |-> <<>>, ix |-> <<>>, skips |-> 0, skipb |-> 0, fnum |-> <<>>, fden |-> <<>>, d |-> <<>>,
          nrm |-> <<>>, p0 |-> <<>>, nn |-> 0, A |-> <<>>, b |-> <<>>, facets |-> <<>>, fv |-> <<>>, ret |-> <<>>, proj |-> <<>>,
          sign |-> <<>>, xmap |-> <<>>]
\* projection of a tagged mesh to the abstract mesh of Tags.tla (mirror of harness/tags_common.py: mesh_am)
ProjAM(tm, c) ==
  [ kind |-> tm.kind, cls |-> "M", p |-> tm.p, t |-> tm.t, nf |-> Len(c.facets),
    hass |-> IF tm.sub = <<>> THEN 0 ELSE 1, hasb |-> IF tm.bnd = <<>> THEN 0 ELSE 1,
    sub |-> tm.sub,
    bnd |-> [i \in DOMAIN tm.bnd |->
               LET b == tm.bnd[i] IN
               [name |-> b.name, ids |-> b.ids, ori |-> [j \in DOMAIN b.ids |-> 0],
                fv  |-> [j \in DOMAIN b.ids |-> IF b.ids[j] \in DOMAIN c.facets THEN c.facets[b.ids[j]] ELSE <<>>],
                own |-> [j \in DOMAIN b.ids |-> IF b.ids[j] \in DOMAIN c.f2t THEN c.f2t[b.ids[j]][1] ELSE 0]]] ]
Event(op, pres, posts, par) == [a |-> "Op", op |-> op, err |-> "", pre |-> pres, post |-> posts, par |-> par,
                                ck_pre |-> <<>>, ck_post |-> <<>>]

\* ---- tag universes: full = every cell subset with a derived facet subset + facet subsets (all of them up to 8
\* facets in the quick tier, 12 in the thorough tier; otherwise those with at most two facets, every second facet, everything) with a derived cell subset;
\* small = three of each (used below compositions)
CellsOf(m)  == 1..Len(m.t)
FacetSubsets(nf) == IF nf <= 8 \/ (Tier = "thorough" /\ nf <= 12) THEN SUBSET (1..nf)
                    ELSE {F \in SUBSET (1..nf) : Cardinality(F) <= 2} \cup {1..nf, {f \in 1..nf : f % 2 = 0}}
DerivedF(nf, S) == {f \in 1..nf : (f + Cardinality(S)) % 3 = 0}
DerivedS(m, F)  == {k \in CellsOf(m) : (k + Cardinality(F)) % 2 = 0}
TagPairs(m, nf, small) ==
  IF small THEN {<<{}, {}>>, <<{1}, 1..nf>>, <<CellsOf(m) \ {1}, {f \in 1..nf : f % 2 = 0}>>}
  ELSE {<<S, DerivedF(nf, S)>> : S \in SUBSET CellsOf(m)} \cup {<<DerivedS(m, F), F>> : F \in FacetSubsets(nf)}
\* rep: the boundary array lists its first facet a second time (at the end)
Tagged(m, SF, rep) ==
  m @@ [sub |-> << [name |-> "s", ids |-> SortedSeq(SF[1])] >>,
        bnd |-> << [name |-> "b", ids |-> SortedSeq(SF[2]) \o (IF rep /\ SF[2] # {} THEN <<MinSet(SF[2])>> ELSE <<>>)] >>]

VARIABLES tm, c, depth, deep, failed, last
vars == <<tm, c, depth, deep, failed, last>>

\* depth -1: the derived tables of the untagged mesh are computed once and live in the state (c)
Only == IF "ONLY" \in DOMAIN IOEnv /\ IOEnv.ONLY # "" THEN {CHOOSE i \in 1..NM : ToString(i) = IOEnv.ONLY} ELSE 1..NM
\* compositions of two operations: from every mesh in the thorough tier, from the 2-D meshes in the quick tier
Init == \E i \in Only : \E dp \in (IF Tier = "thorough" \/ Dim(MeshSeq[i].kind) = 2 THEN BOOLEAN ELSE {FALSE}) :
          /\ tm = MeshSeq[i] /\ c = ConnOfMesh(MeshSeq[i]) /\ depth = -1 /\ deep = dp /\ failed = {} /\ last = "init"
Tag  == /\ depth = -1
        /\ \E SF \in TagPairs(tm, Len(c.facets), deep) :
           \E rp \in (IF Regress = "repeat" THEN {TRUE} ELSE IF deep THEN BOOLEAN ELSE {FALSE}) : tm' = Tagged(tm, SF, rp)
        /\ depth' = 0 /\ last' = "tag" /\ UNCHANGED <<c, deep, failed>>

\* a second operand for +: the same cells shifted by the extent of the mesh along x (they touch along a side)
Width(m) == MaxSet({m.p[v][1] : v \in DOMAIN m.p}) - MinSet({m.p[v][1] : v \in DOMAIN m.p})
Shifted(m) == [kind |-> m.kind, t |-> m.t, sub |-> <<>>, bnd |-> <<>>,
               p |-> [v \in DOMAIN m.p |-> [i \in DOMAIN m.p[v] |-> IF i = 1 THEN m.p[v][i] + Width(m) ELSE m.p[v][i]]]]
\* a mesh with two vertices that no cell uses (input of remove_unused_nodes)
WithUnused(m) == [m EXCEPT !.p = <<[i \in DOMAIN m.p[1] |-> -1]>> \o m.p \o <<[i \in DOMAIN m.p[1] |-> -2]>>,
                           !.t = [k \in DOMAIN m.t |-> [i \in DOMAIN m.t[k] |-> m.t[k][i] + 1]]]

\* every non-empty cell subset up to 6 cells; bigger meshes (results of a first operation): a fixed family
Subsets(n) == IF n <= 6 THEN SUBSET (1..n) \ {{}}
              ELSE {{1}, {n}, {1, n}, {k \in 1..n : k % 2 = 0}, {k \in 1..n : k % 3 # 0}, 1..(n \div 2), 2..n}
Apply(op, post, cpost, ev) == /\ tm' = post /\ c' = cpost /\ depth' = depth + 1 /\ last' = op
                              /\ failed' = Failed(SurgeryClauses(ev)) /\ UNCHANGED deep
DoRestrict ==
  \E E \in Subsets(Len(tm.t)) : \E rev \in BOOLEAN :
     LET el == IF rev THEN Reverse(SortedSeq(E)) ELSE SortedSeq(E)
         r  == RestrictImpl(tm, c, el)
         c2 == ConnOfMesh(r.tm)
     IN /\ (rev => Cardinality(E) = 2)
        /\ Apply("restrict", r.tm, c2, Event("restrict", <<ProjAM(tm, c)>>, <<ProjAM(r.tm, c2)>>,
                                             [NoPar EXCEPT !.elements = el, !.ix = r.ix]))
DoRemove ==
  \E E \in Subsets(Len(tm.t)) \ {1..Len(tm.t)} :
     LET el == SortedSeq(E)
         r  == RemoveElementsImpl(tm, c, el)
         c2 == ConnOfMesh(r.tm)
     IN Apply("remove_elements", r.tm, c2, Event("remove_elements", <<ProjAM(tm, c)>>, <<ProjAM(r.tm, c2)>>,
                                                [NoPar EXCEPT !.elements = el]))
\* the same mesh storing one more point behind all others, used by no cell (the facet numbering is not affected)
WithTrailing(m) == [m EXCEPT !.p = m.p \o <<[i \in DOMAIN m.p[1] |-> -3]>>]
Operand(stray) == IF stray THEN WithTrailing(tm) ELSE tm
DoAdd ==
  \E stray \in BOOLEAN :
  LET m1 == Operand(stray)
      m2 == Shifted(tm)
      r  == AddImpl(m1, m2)
      c2 == ConnOfMesh(r)
  IN Apply("add", r, c2, Event("add", <<ProjAM(m1, c), ProjAM(m2, c)>>, <<ProjAM(r, c2)>>, NoPar))
DoUnused ==
  LET m1 == WithUnused(tm)
      c1 == ConnOfMesh(m1)
      r  == RemoveUnusedNodesImpl(m1)
      c2 == ConnOfMesh(r)
  IN Apply("remove_unused_nodes", r, c2, Event("remove_unused_nodes", <<ProjAM(m1, c1)>>, <<ProjAM(r, c2)>>, NoPar))
DoDup ==
  LET rr == IF Regress # "dup" THEN RemoveDuplicateNodesImpl(tm, c, ConnOfMesh)
            ELSE LET o == RemoveDuplicateNodesImplOld(tm) IN [tm |-> o, c |-> ConnOfMesh(o)]
  IN Apply("remove_duplicate_nodes", rr.tm, rr.c,
           Event("remove_duplicate_nodes", <<ProjAM(tm, c)>>, <<ProjAM(rr.tm, rr.c)>>, NoPar))
DoTri ==
  /\ tm.kind = "quad"
  /\ \E style \in {"", "x"} : \E stray \in BOOLEAN :
       LET m1 == Operand(stray)
           r  == ToMeshTriImplWith(m1, c, style, ConnOfMesh, IF Regress \in {"counts", "repeat"} THEN Regress ELSE "")
           op == IF style = "x" THEN "to_meshtri_x" ELSE "to_meshtri"
       IN Apply(op, r.tm, r.c, Event(op, <<ProjAM(m1, c)>>, <<ProjAM(r.tm, r.c)>>, NoPar))
DoTet ==
  /\ tm.kind \in {"hex", "wedge"}
  /\ \E stray \in BOOLEAN :
     LET m1 == Operand(stray)
         r  == ToMeshTetImpl(m1)
         c2 == ConnOfMesh(r)
     IN Apply("to_meshtet", r, c2, Event("to_meshtet", <<ProjAM(m1, c)>>, <<ProjAM(r, c2)>>, NoPar))
\* tri * line (mesh_tri_1.py:393-419) with a fixed two-cell line mesh; the prisms carry no tags
LineM  == [kind |-> "line", p |-> << <<0>>, <<2>>, <<4>> >>, t |-> << <<1, 2>>, <<2, 3>> >>, sub |-> <<>>, bnd |-> <<>>]
NoConn == [facets |-> <<>>, f2t |-> <<>>, t2f |-> <<>>]
DoExtrude ==
  /\ tm.kind = "tri" /\ Len(tm.t) <= 4
  /\ \E stray \in BOOLEAN :
     LET m1 == Operand(stray)
         cl == IF Regress = "counts" THEN ExtrudeTriLineCellsOld(m1, LineM) ELSE ExtrudeTriLineCells(m1, LineM)
         r  == [kind |-> "wedge", p |-> cl.p, t |-> cl.t, sub |-> <<>>, bnd |-> <<>>]
         c2 == ConnOfMesh(r)
     IN Apply("extrude", r, c2, Event("extrude", <<ProjAM(m1, c), ProjAM(LineM, NoConn)>>, <<ProjAM(r, c2)>>, NoPar))

Next == \/ Tag
        \/ /\ depth = 0 \/ (depth = 1 /\ deep)
           /\ DoRestrict \/ DoRemove \/ DoAdd \/ DoUnused \/ DoDup \/ DoTri \/ DoTet \/ DoExtrude
Spec == Init /\ [][Next]_vars

ClausesHold == failed = {}

\* ---- scenarios for replay on the real classes (spec -> code): every mesh x three tag sets x every cell subset for
\* restrict / remove_elements, and every other operation of the model once per tag set; facets as vertex tuples
ExportOne(i, SF, op, el) ==
  LET m == MeshSeq[i] cc == ConnOfMesh(m) fs == SortedSeq(SF[2]) IN
  [ kind |-> m.kind, p |-> m.p, t |-> m.t, sub |-> SortedSeq(SF[1]),
    fv |-> [j \in DOMAIN fs |-> cc.facets[fs[j]]], op |-> op, elements |-> el ]
ExportSet ==
  UNION {UNION {
      {ExportOne(i, SF, "restrict", SortedSeq(E)) : E \in Subsets(Len(MeshSeq[i].t))}
      \cup {ExportOne(i, SF, "remove_elements", SortedSeq(E)) : E \in Subsets(Len(MeshSeq[i].t)) \ {1..Len(MeshSeq[i].t)}}
      \cup {ExportOne(i, SF, op, <<>>) : op \in {"add", "remove_unused_nodes", "remove_duplicate_nodes"}
                                              \cup (IF MeshSeq[i].kind = "quad" THEN {"to_meshtri", "to_meshtri_x"} ELSE {})
                                              \cup (IF MeshSeq[i].kind \in {"hex", "wedge"} THEN {"to_meshtet"} ELSE {})}
      : SF \in TagPairs(MeshSeq[i], Len(ConnOfMesh(MeshSeq[i]).facets), TRUE)}
    : i \in 1..NM}
ASSUME \/ "OUT_FILE" \notin DOMAIN IOEnv \/ IOEnv.OUT_FILE = ""
       \/ JsonSerialize(IOEnv.OUT_FILE, SetToSeq(ExportSet))
==============================================================================
