"""Fork-based process pool for executing scenario recipes on the real library in parallel.

Determinism: results are returned in input order; each recipe is self-contained (carries its own seeds).
The pool must be created BEFORE any helper thread is started (fork and threads do not mix well)."""
import multiprocessing as mp
import os


class Pool:
    def __init__(self, procs=None):
        self.procs = procs or max(1, min(12, (os.cpu_count() or 4) - 2))
        self.pool = mp.get_context('fork').Pool(self.procs)

    def map(self, fn, items, chunksize=1):
        return self.pool.map(fn, list(items), chunksize)

    def close(self):
        self.pool.terminate()
        self.pool.join()
