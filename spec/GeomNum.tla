------------------------------- MODULE GeomNum -------------------------------
(* Exact integer geometry for the numeric layer (C02, C10): determinants,     *)
(* signed volumes, squared measures of embedded simplices, exact integer      *)
(* square roots, decomposition of every straight cell into simplices,         *)
(* shape conditions of the input universes.  Points are integer tuples        *)
(* (true coordinates times a stated power-of-two scale).                      *)
(* Vertex orders are those of skfem/refdom.py (1-based here).                 *)
EXTENDS Prelude

VSub(u, v) == [i \in DOMAIN u |-> u[i] - v[i]]
VAdd(u, v) == [i \in DOMAIN u |-> u[i] + v[i]]
VNeg(u)    == [i \in DOMAIN u |-> -u[i]]
VScale(k, u) == [i \in DOMAIN u |-> k * u[i]]
VDot(u, v) == SumSeq([i \in DOMAIN u |-> u[i] * v[i]])
VZero(n)   == [i \in 1..n |-> 0]
Det2(a, b) == a[1] * b[2] - a[2] * b[1]
Cross3(a, b) == <<a[2] * b[3] - a[3] * b[2], a[3] * b[1] - a[1] * b[3], a[1] * b[2] - a[2] * b[1]>>
Det3(a, b, c) == VDot(a, Cross3(b, c))

\* floor square root of 0 <= n < 2^31 by bisection
RECURSIVE IsqrtBis(_, _, _)
IsqrtBis(n, lo, hi) == IF lo >= hi THEN lo
                       ELSE LET mid == (lo + hi + 1) \div 2 IN
                            IF mid * mid <= n THEN IsqrtBis(n, mid, hi) ELSE IsqrtBis(n, lo, mid - 1)
Isqrt(n)    == IsqrtBis(n, 0, Min2(n, 46340))
IsSquare(n) == n >= 0 /\ Isqrt(n) * Isqrt(n) = n

\* k! * (signed volume) of a simplex with k+1 = Len(vs) vertices in dimension k
SimplexDet(vs) ==
  CASE Len(vs) = 1 -> 1
    [] Len(vs) = 2 -> vs[2][1] - vs[1][1]
    [] Len(vs) = 3 -> Det2(VSub(vs[2], vs[1]), VSub(vs[3], vs[1]))
    [] Len(vs) = 4 -> Det3(VSub(vs[2], vs[1]), VSub(vs[3], vs[1]), VSub(vs[4], vs[1]))
\* (k! * measure)^2 of a simplex with k+1 vertices embedded in dimension n >= k
SimplexJacSq(vs) ==
  LET n == Len(vs[1]) k == Len(vs) - 1 IN
  CASE k = 0 -> 1
    [] k = 1 -> VDot(VSub(vs[2], vs[1]), VSub(vs[2], vs[1]))
    [] k = 2 /\ n = 2 -> SimplexDet(vs) * SimplexDet(vs)
    [] k = 2 /\ n = 3 -> LET c == Cross3(VSub(vs[2], vs[1]), VSub(vs[3], vs[1])) IN VDot(c, c)
    [] k = 3 -> SimplexDet(vs) * SimplexDet(vs)
\* k! * measure, defined when the square is a perfect square (always for k = n)
SimplexJac(vs) == IF Len(vs) - 1 = Len(vs[1]) THEN Abs(SimplexDet(vs)) ELSE Isqrt(SimplexJacSq(vs))
SimplexJacExact(vs) == Len(vs) - 1 = Len(vs[1]) \/ IsSquare(SimplexJacSq(vs))

Pick(vs, idx) == [i \in DOMAIN idx |-> vs[idx[i]]]

\* ---------------------------------------------------------------------------
\* straight cells as unions of simplices (cell kinds of skfem; vs = the cell's vertices in local order)
\*   quad : cyclic order, split by the diagonal 1-3 (convex quadrilaterals)
\*   hex  : RefHex order 1:(1,1,1) 2:(1,1,0) 3:(1,0,1) 4:(0,1,1) 5:(1,0,0) 6:(0,1,0) 7:(0,0,1) 8:(0,0,0);
\*          six Kuhn tetrahedra along the diagonal 8-1 (parallelepipeds)
\*   wedge: 1..3 bottom triangle, 4..6 top triangle; three tetrahedra (affine prisms)
CellSimplexIdx(kind) ==
  CASE kind = "line"  -> << <<1, 2>> >>
    [] kind = "tri"   -> << <<1, 2, 3>> >>
    [] kind = "tet"   -> << <<1, 2, 3, 4>> >>
    [] kind = "quad"  -> << <<1, 2, 3>>, <<1, 3, 4>> >>
    [] kind = "hex"   -> << <<8, 5, 2, 1>>, <<8, 5, 3, 1>>, <<8, 6, 2, 1>>, <<8, 6, 4, 1>>, <<8, 7, 3, 1>>, <<8, 7, 4, 1>> >>
    [] kind = "wedge" -> << <<1, 2, 3, 4>>, <<2, 3, 4, 5>>, <<3, 4, 5, 6>> >>
CellSimplices(kind, vs) == [s \in DOMAIN CellSimplexIdx(kind) |-> Pick(vs, CellSimplexIdx(kind)[s])]
\* facets given by their vertices as stored by the mesh (segments, triangles, cyclic quadrilaterals, points)
FacetSimplexIdx(n) == CASE n = 1 -> << <<1>> >> [] n = 2 -> << <<1, 2>> >> [] n = 3 -> << <<1, 2, 3>> >>
                        [] n = 4 -> << <<1, 2, 3>>, <<1, 3, 4>> >>
FacetSimplices(vs) == [s \in DOMAIN FacetSimplexIdx(Len(vs)) |-> Pick(vs, FacetSimplexIdx(Len(vs))[s])]

\* shape conditions under which the decompositions above are valid
SameSign(S) == (\A x \in S : x > 0) \/ (\A x \in S : x < 0)
CellShapeOK(kind, vs) ==
  CASE kind \in {"line", "tri", "tet"} -> SimplexDet(vs) # 0
    [] kind = "quad" -> SameSign({SimplexDet(<<vs[1], vs[2], vs[3]>>), SimplexDet(<<vs[2], vs[3], vs[4]>>),
                                  SimplexDet(<<vs[3], vs[4], vs[1]>>), SimplexDet(<<vs[4], vs[1], vs[2]>>)})
    [] kind = "hex" -> LET o == vs[8] ex == VSub(vs[5], o) ey == VSub(vs[6], o) ez == VSub(vs[7], o) IN
                       /\ vs[2] = VAdd(o, VAdd(ex, ey)) /\ vs[3] = VAdd(o, VAdd(ex, ez))
                       /\ vs[4] = VAdd(o, VAdd(ey, ez)) /\ vs[1] = VAdd(o, VAdd(ex, VAdd(ey, ez)))
                       /\ Det3(ex, ey, ez) # 0
    [] kind = "wedge" -> LET h == VSub(vs[4], vs[1]) IN
                         /\ vs[5] = VAdd(vs[2], h) /\ vs[6] = VAdd(vs[3], h)
                         /\ Det3(VSub(vs[2], vs[1]), VSub(vs[3], vs[1]), h) # 0
\* a planar quadrilateral facet in cyclic order (or a simplex facet)
FacetShapeOK(vs) ==
  IF Len(vs) = 4 THEN vs[3] = VAdd(vs[2], VSub(vs[4], vs[1]))       \* parallelogram
  ELSE TRUE

\* a flat convex quadrilateral facet in cyclic order (3-D): the normals of the four corner triangles are parallel
\* and point the same way
FacetPlanarConvex(vs) ==
  IF Len(vs) # 4 \/ Len(vs[1]) # 3 THEN TRUE
  ELSE LET c(a, b, d) == Cross3(VSub(vs[b], vs[a]), VSub(vs[d], vs[a]))
           c1 == c(1, 2, 3) IN
       /\ \A cc \in {c(1, 3, 4), c(1, 2, 4), c(2, 3, 4)} : Cross3(c1, cc) = <<0, 0, 0>> /\ VDot(c1, cc) > 0
       /\ VDot(c1, c1) > 0
\* greatest common divisor, primitive direction of an integer vector
RECURSIVE IGcd(_, _)
IGcd(a, b) == IF b = 0 THEN Abs(a) ELSE IGcd(b, a % b)
VGcd(v) == LET RECURSIVE G(_) G(i) == IF i > Len(v) THEN 0 ELSE IGcd(Abs(v[i]), G(i + 1)) IN G(1)
\* the "Jacobian vector" of an embedded simplex whose length is k! * measure: edge (k = 1), cross product (k = 2, n = 3)
SimplexJacVec(vs) ==
  IF Len(vs) = 2 THEN VSub(vs[2], vs[1])
  ELSE IF Len(vs) = 3 /\ Len(vs[1]) = 3 THEN Cross3(VSub(vs[2], vs[1]), VSub(vs[3], vs[1]))
  ELSE <<SimplexDet(vs)>>

\* d! * |cell|  (integer), d! * signed measure (orientation) for affine cells
CellJacSum(kind, vs) == LET S == CellSimplices(kind, vs) IN SumSeq([s \in DOMAIN S |-> Abs(SimplexDet(S[s]))])
\* the affine cells' signed determinant as the library defines it (first simplex spanned by the local axes)
MaxAbsCoord(pts) == MaxSet({0} \cup {Abs(pts[v][c]) : v \in DOMAIN pts, c \in 1..Len(pts[1])})
==============================================================================
