#!/usr/bin/env python3
"""Regenerates the table of seeded changes in DESIGN.md (between the SEEDTABLE markers) from seeded/*/meta.json."""
import glob, json, os, re
HERE = os.path.dirname(os.path.dirname(os.path.abspath(__file__)))
rows = []
for f in sorted(glob.glob(os.path.join(HERE, 'seeded', '*', 'meta.json'))):
    sd = os.path.basename(os.path.dirname(f))
    m = json.load(open(f))
    c = m.get('confirmed', {})
    first = c.get('check_exit_first_version', c.get('check_exit_batch_run', c.get('check_exit')))
    final = c.get('check_exit_after_strengthening', c.get('check_exit_final', c.get('check_exit', first)))
    st = m.get('check_strengthened_after_first_miss')
    if st:
        verdict = f'missed at first; caught after strengthening: {st}'
    elif final == 1:
        verdict = 'caught'
    else:
        verdict = 'NOT caught'
    rep = str(c.get('check_first_report', ''))
    cl = re.search(r'clauses=([A-Za-z0-9_,:]+)', rep)
    clauses = cl.group(1).replace(',', ', ') if cl else ''
    def esc(s):
        return str(s).replace('|', '/').replace('\n', ' ')
    rb = str(m.get('rebased', ''))
    if rb.startswith('OBSOLETE'):
        verdict += ' [the code site was repaired later; on the repaired code this edit is property-preserving and kept as a benign change]'
    elif rb:
        verdict += ' [patch re-created by hand on top of a later fix]'
    rows.append(f"| {sd} | {esc(m.get('summary', ''))[:230]} | {esc(m.get('needs', ''))[:200]} | {esc(verdict)[:420]}{(' — ' + clauses) if clauses and not st else ''} |")
table = ("| seed | change | needs | verdict of the registered quick check |\n|------|--------|-------|----------------------------------------|\n"
         + "\n".join(rows) + f"\n\n{len(rows)} seeded changes; every one was confirmed on a scratch copy (demo passes without / fails with the "
         "patch; repository suite 536/536 with the patch).\n")
p = os.path.join(HERE, 'DESIGN.md')
s = open(p).read()
a, b = '<!-- SEEDTABLE BEGIN -->', '<!-- SEEDTABLE END -->'
if a in s:
    s = s[:s.index(a) + len(a)] + '\n' + table + s[s.index(b):]
else:
    raise SystemExit('markers not found')
open(p, 'w').write(s)
print(len(rows), 'rows')
