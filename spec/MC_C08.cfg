SPECIFICATION Spec
INVARIANT ClausesHold
INVARIANT Computed
CHECK_DEADLOCK FALSE
