#!/bin/bash
# tools/mutest.sh <patch.diff> <ID> [tier]  -- run a check against a scratch copy of /repo with a patch applied.
# The copy lives outside /repo and /verif and is removed afterwards; evidence/replays go to a scratch dir.
set -u
PATCH="$(readlink -f "$1")"; ID="$2"; TIER="${3:-quick}"
HERE="$(cd "$(dirname "${BASH_SOURCE[0]}")/.." && pwd)"
W="$(mktemp -d /var/tmp/skfem-mut.XXXXXX)"
trap 'rm -rf "$W"' EXIT
rsync -a --exclude .git --exclude '__pycache__' /repo/ "$W/repo/"
( cd "$W/repo" && patch -p1 -s < "$PATCH" ) || { echo "patch failed"; exit 3; }
SKFEM_REPO="$W/repo" VERIF_OUT_DIR="$W/out" "$HERE/check" "$ID" --tier "$TIER"
rc=$?
echo "mutest rc=$rc"
exit $rc
