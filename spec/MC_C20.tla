------------------------------- MODULE MC_C20 -------------------------------
(* Design-level check of C20 (Autodiff.tla), three parts (MC_PART):             *)
(*  "algebra":  the tensor definitions satisfy the textbook identities on all   *)
(*     2x2 integer tensors with entries in -2..2 (paired with a set of 25) and  *)
(*     on 12^3 3x3 tensors / all pairs of 3-vectors from a set of 12: det is    *)
(*     multiplicative and transposition invariant, A adj(A) = det(A) I,         *)
(*     ddot(A, B) = trace(A^T B), (AB)^T = B^T A^T, cross is antisymmetric and  *)
(*     orthogonal, det = triple product, ...  The enumerated tensors are        *)
(*     exported and replayed on the real helpers (both variants).               *)
(*  "deriv":    for every term of depth <= 2 over {u1, u2, v, 2, x} the forward *)
(*     mode rules (EvalDual) give the derivative: exact finite-difference       *)
(*     stencils of the polynomial t |-> R(u + t du).                            *)
(*  "assemble": the transcription of NonlinearForm._assemble on tiny abstract   *)
(*     bases satisfies JacobianIsDerivative, ResidualIsMinusF and               *)
(*     LinearReducesToAssembly, in residual and in hessian mode.                *)
EXTENDS Autodiff

Part  == IF "MC_PART" \in DOMAIN IOEnv THEN IOEnv.MC_PART ELSE "algebra"
Mut   == IF "MC_MUT" \in DOMAIN IOEnv THEN IOEnv.MC_MUT ELSE "none"
Quick == ~("MC_TIER" \in DOMAIN IOEnv /\ IOEnv.MC_TIER = "thorough")

\* ---------------------------------------------------------------------------
\* algebra
R5   == -2..2
Mat2 == {<<<<a, b>>, <<c, d>>>> : a \in R5, b \in R5, c \in R5, d \in R5}
Few2 == {<<<<a, b>>, <<c, d>>>> : a \in {-1, 2}, b \in {0, 1, -2}, c \in {1, -2}, d \in {2, -1}} \cup {<<<<1, 0>>, <<0, 1>>>>}
Vec3s == {<<1, 0, 0>>, <<0, 1, 0>>, <<0, 0, 1>>, <<1, 2, -1>>, <<-2, 1, 1>>, <<2, 2, 1>>, <<0, -1, 2>>, <<1, 1, 1>>,
          <<-1, 0, 2>>, <<2, -2, 0>>, <<0, 0, 0>>, <<1, -1, -2>>}
Vec2s == {<<a, b>> : a \in R5, b \in R5}
Adj2(A) == <<<<A[2][2], -A[1][2]>>, <<-A[2][1], A[1][1]>>>>
Adj3(A) == LET c(a, b) == LET r == <<<<2, 3>>, <<1, 3>>, <<1, 2>>>> IN
                          ((-1) ^ (a + b)) * (A[r[a][1]][r[b][1]] * A[r[a][2]][r[b][2]] - A[r[a][1]][r[b][2]] * A[r[a][2]][r[b][1]])
           IN [a \in 1..3 |-> [b \in 1..3 |-> c(b, a)]]

Alg2(A, C) ==
  [DetMultiplicative |-> TDet(TMulM(A, C)) = TDet(A) * TDet(C),
   DetTranspose      |-> TDet(TTranspose(A)) = TDet(A),
   Adjugate          |-> TMulM(A, Adj2(A)) = TEye(TDet(A), 2) /\ (TDet(A) \in {1, -1} => TIsInverse(A, TMulM(TEye(TDet(A), 2), Adj2(A)), 1)),
   DDotIsTrace       |-> TDDot(A, C) = TTrace(TMulM(TTranspose(A), C)),
   TransposeProduct  |-> TTranspose(TMulM(A, C)) = TMulM(TTranspose(C), TTranspose(A)) /\ TTranspose(TTranspose(A)) = A,
   TraceLinear       |-> TTrace(TTranspose(A)) = TTrace(A) /\ TTrace(TSymGrad2(A)) = 2 * TTrace(A) /\ TSymGrad2(A) = TTranspose(TSymGrad2(A)),
   MulVIsColumn      |-> \A x \in {C[1], C[2]} : TMulV(A, x) = [a \in 1..2 |-> TMulM(A, [b \in 1..2 |-> <<x[b]>>])[a][1]],
   ProdIsOuter       |-> TProd2(A[1], C[2]) = TMulM([a \in 1..2 |-> <<A[1][a]>>], <<C[2]>>) /\ TDDot(TProd2(A[1], A[2]), C) = TDot(A[1], TMulV(C, A[2])),
   Cross2IsDet       |-> TCross2(A[1], A[2]) = TDet(A) /\ TCurlVec2(A) = TCross2(<<1, 1>>, <<A[1][2], A[2][1]>>),
   EyeIsUnit         |-> TMulM(A, TEye(1, 2)) = A /\ TDot(A[1], C[1]) = TTrace(TProd2(A[1], C[1]))]
Alg3(a, b, c) ==
  LET A == <<a, b, c>> IN
  [Det3TripleProduct |-> TDet(A) = TDot(a, TCross3(b, c)),
   DetTranspose      |-> TDet(TTranspose(A)) = TDet(A),
   CrossAntisym      |-> TCross3(a, b) = [m \in 1..3 |-> -TCross3(b, a)[m]] /\ TDot(a, TCross3(a, b)) = 0 /\ TDot(b, TCross3(a, b)) = 0,
   Adjugate          |-> TMulM(A, Adj3(A)) = TEye(TDet(A), 3) /\ TMulM(Adj3(A), A) = TEye(TDet(A), 3),
   DetMultiplicative |-> TDet(TMulM(A, TTranspose(A))) = TDet(A) * TDet(A),
   Curl3IsAxial      |-> TCurl3(A) = <<A[3][2] - A[2][3], A[1][3] - A[3][1], A[2][1] - A[1][2]>> /\ TCurl3(TSymGrad2(A)) = <<0, 0, 0>>,
   DDDot             |-> TDDDot(TProd3(a, b, c), TProd3(a, b, c)) = TDot(a, a) * TDot(b, b) * TDot(c, c)]

\* exported for the replay on the real helpers
ASSUME Part # "algebra" \/ "OUT_FILE" \notin DOMAIN IOEnv \/ IOEnv.OUT_FILE = "" \/
       JsonSerialize(IOEnv.OUT_FILE, [mat2 |-> SetToSeq(Mat2), few2 |-> SetToSeq(Few2), vec3 |-> SetToSeq(Vec3s), vec2 |-> SetToSeq(Vec2s)])

\* ---------------------------------------------------------------------------
\* deriv
Leaves == {<<"u", 1>>, <<"u", 2>>, <<"v", 1>>, <<"k", 2>>, <<"f", "x", 1>>}
Terms1 == Leaves \cup {<<op, a, b>> : op \in {"*", "+"}, a \in Leaves, b \in Leaves}
RECURSIVE DegU(_)
DegU(t) == CASE t[1] = "u" -> 1 [] t[1] = "*" -> DegU(t[2]) + DegU(t[3]) [] t[1] = "+" -> Max2(DegU(t[2]), DegU(t[3])) [] OTHER -> 0
Tab(vals) == [c \in DOMAIN vals |-> <<<<vals[c]>>>>]               \* [c][1][1]
DerivEnv == [fld |-> [x |-> [nc |-> 1, s |-> 1, val |-> Tab(<<3>>)]], prm |-> <<>>]
DerivPoints == {[U |-> <<1, -2>>, A |-> <<2, 1>>, B |-> <<-1, 3>>, V |-> <<-3>>],
                [U |-> <<-2, 3>>, A |-> <<1, -1>>, B |-> <<2, 2>>, V |-> <<2>>]}
DerivClauses(t) ==
  LET n == NormT(t, 1, 1, DerivEnv).t
      g(p, s, r) == EvalDual(n, Tab([c \in 1..2 |-> p.U[c] + s * p.A[c] + r * p.B[c]]), Tab(p.A), Tab(p.B), Tab(p.V), DerivEnv, 1, 1)
  IN [ValueIsEvalN      |-> \A p \in DerivPoints : g(p, 0, 0)[1] = EvalN(n, Tab(p.U), Tab(p.V), DerivEnv, 1, 1),
      FirstDerivative   |-> \A p \in DerivPoints :              \* 5-point stencil, exact up to degree 4
                               /\ 12 * g(p, 0, 0)[2] = 8 * (g(p, 1, 0)[1] - g(p, -1, 0)[1]) - (g(p, 2, 0)[1] - g(p, -2, 0)[1])
                               /\ 12 * g(p, 0, 0)[3] = 8 * (g(p, 0, 1)[1] - g(p, 0, -1)[1]) - (g(p, 0, 2)[1] - g(p, 0, -2)[1]),
      SecondDerivative  |-> DegU(t) <= 3 =>
                            \A p \in DerivPoints :              \* central mixed difference, exact up to total degree 3
                               4 * g(p, 0, 0)[4] = g(p, 1, 1)[1] - g(p, 1, -1)[1] - g(p, -1, 1)[1] + g(p, -1, -1)[1],
      DerivativeOfDerivative |-> \A p \in DerivPoints :         \* d/db of the a-derivative is the mixed derivative
                               12 * g(p, 0, 0)[4] = 8 * (g(p, 0, 1)[2] - g(p, 0, -1)[2]) - (g(p, 0, 2)[2] - g(p, 0, -2)[2])]

\* ---------------------------------------------------------------------------
\* assemble
Code(i, k, q) == ((i - 1) * 2 + (k - 1)) * 2 + q
MkBasis(nb, nel, nq, N, ed) ==
  [nb |-> nb, nel |-> nel, nq |-> nq, N |-> N, nc |-> 2, edofs |-> ed, sphi |-> 1, sdx |-> 1,
   phi |-> [i \in 1..nb |-> [c \in 1..2 |-> [k \in 1..nel |-> [q \in 1..nq |->
              IF c = 1 THEN Code(i, k, q) ELSE 13 - 2 * Code(i, k, q)]]]],
   dx  |-> [k \in 1..nel |-> [q \in 1..nq |-> <<<<1, 2>>, <<3, 5>>>>[k][q]]]]
Canon(nb) == CASE nb = 1 -> {<<1>>} [] nb = 2 -> {<<1, 1>>, <<1, 2>>}
               [] nb = 3 -> {<<1, 1, 1>>, <<1, 1, 2>>, <<1, 2, 1>>, <<1, 2, 2>>, <<1, 2, 3>>}
Tables(nb, nel, N) ==
  IF nel = 1 THEN {[i \in 1..nb |-> <<f[i]>>] : f \in [1..nb -> 1..N]}
  ELSE {[i \in 1..nb |-> <<c1[i], c2[i]>>] : c1 \in Canon(nb), c2 \in [1..nb -> 1..N]}
Get(ed, i, k) == IF i \in DOMAIN ed /\ k \in DOMAIN ed[i] THEN ed[i][k] ELSE 0
AsmEnv(nel, nq) == [fld |-> [x |-> [nc |-> 1, s |-> 1, val |-> <<[k \in 1..nel |-> [q \in 1..nq |-> <<<<2, 3>>, <<5, 4>>>>[k][q]]]>>]],
                    prm |-> [alpha |-> 2]]
U1 == <<"u", 1>>   U2 == <<"u", 2>>   V1 == <<"v", 1>>   V2 == <<"v", 2>>   X1 == <<"f", "x", 1>>
\* residuals (linear in v), an energy (hessian mode), and a residual linear in u split into a(u, v) + l(v)
Residuals == {<<"+", <<"*", <<"*", U1, U1>>, V1>>, <<"*", <<"*", X1, U2>>, V2>>>>,
              <<"+", <<"*", <<"*", <<"*", U1, U2>>, U1>>, V2>>, <<"*", <<"p", "alpha">>, V1>>>>}
Energy    == <<"+", <<"*", <<"*", U1, U1>>, U2>>, <<"*", X1, <<"*", U2, U2>>>>>>
LinA      == <<"+", <<"*", <<"*", X1, U2>>, V1>>, <<"*", <<"k", 3>>, <<"*", U1, V2>>>>>>
LinL      == <<"*", <<"k", -2>>, <<"*", X1, V1>>>>
XVecs(N)  == {[d \in 1..N |-> <<1, -1, 2>>[d]], [d \in 1..N |-> <<0, 2, -1>>[d]]}

AsmClauses(c) ==
  LET B   == MkBasis(c.nb, c.nel, c.nq, 3, c.ed)
      env == AsmEnv(c.nel, c.nq)
      out == NonlinearAssembleImplM(c.R, B, c.x, env, c.mode, Mut)
      J   == ToCSRImpl(out.mat)
      rhs == ToVectorImpl(out.vec)
  IN IF ~(MatWF(J) /\ J.shape = <<B.N, B.N>>) THEN [WellFormed |-> FALSE] ELSE
     [WellFormed |-> TRUE,
      JacobianIsDerivative |-> JacobianIsDerivative(J, c.R, B, c.x, env, c.mode),
      ResidualIsMinusF     |-> ResidualIsMinusF(rhs, c.R, B, c.x, env, c.mode)]
     @@ (IF c.lin = 1
         THEN [LinearReducesToAssembly |->
                 LinearReducesToAssembly(J, rhs, ToCSRImpl(SerialAssembleImpl(LinA, B, B, env)),
                                         ToVectorImpl(LinearAssembleImpl(LinL, B, env)), c.x)]
         ELSE <<>>)

\* ---------------------------------------------------------------------------
VARIABLES case, failed
vars == <<case, failed>>

Init ==
  /\ failed = {"pending"}
  /\ CASE Part = "algebra" ->
            \/ \E A \in Mat2 : \E C \in Few2 : case = [kind |-> "alg2", A |-> A, C |-> C]
            \/ \E a \in Vec3s : \E b \in Vec3s : \E c \in Vec3s : case = [kind |-> "alg3", a |-> a, b |-> b, c |-> c]
       [] Part = "deriv" ->
            \/ \E t \in Terms1 : case = [kind |-> "deriv", t |-> t]
            \/ \E op \in {"*", "+"} : \E a \in Terms1 : \E b \in Terms1 :
                  /\ (Quick => (a[1] = "*" \/ b \in Leaves))
                  /\ case = [kind |-> "deriv", t |-> <<op, a, b>>]
       [] Part = "assemble" ->
            \E nb \in 1..3 : \E nel \in 1..2 : \E nq \in 1..2 : \E ed \in Tables(nb, nel, 3) : \E x \in XVecs(3) :
               /\ (Quick => (nq = 2 /\ (nel = 1 \/ nb <= 2 \/ Get(ed, 1, 2) # Get(ed, 2, 2))))
               /\ \/ \E R \in Residuals : case = [kind |-> "asm", nb |-> nb, nel |-> nel, nq |-> nq, ed |-> ed, x |-> x, R |-> R, mode |-> "residual", lin |-> 0]
                  \/ case = [kind |-> "asm", nb |-> nb, nel |-> nel, nq |-> nq, ed |-> ed, x |-> x, R |-> Energy, mode |-> "hessian", lin |-> 0]
                  \/ case = [kind |-> "asm", nb |-> nb, nel |-> nel, nq |-> nq, ed |-> ed, x |-> x, R |-> <<"+", LinA, LinL>>, mode |-> "residual", lin |-> 1]

ClausesOf(c) ==
  CASE c.kind = "alg2"  -> Alg2(c.A, c.C)
    [] c.kind = "alg3"  -> Alg3(c.a, c.b, c.c)
    [] c.kind = "deriv" -> DerivClauses(c.t)
    [] c.kind = "asm"   -> AsmClauses(c)
Compute == /\ failed = {"pending"}
           /\ failed' = Failed(ClausesOf(case))
           /\ UNCHANGED case
Spec == Init /\ [][Compute]_vars
ClausesHold == failed \subseteq {"pending"}
==============================================================================
