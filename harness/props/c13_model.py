"""Model-checking part of C13: the red-green-blue algorithm (spec/RGB.tla) over every marked subset."""
from ..core import MachineryError


def run_models(ctx):
    env = {'C13_LEVEL': ctx.tier}
    from concurrent.futures import ThreadPoolExecutor
    refuted = {}

    def main():
        ctx.model_must_hold('MC_C13', 'MC_C13.cfg', env=env, timeout=3000, workers=10,
                            label='RGB: clauses, least fix-point, termination')

    def dev(name):
        r = ctx.tlc_model('MC_C13', f'MC_C13_{name}.cfg', env={'C13_LEVEL': 'quick'}, timeout=1200, workers=3,
                          label=f'named deviation {name} (must be refuted)')
        refuted[name] = r['violated']
    with ThreadPoolExecutor(max_workers=3) as ex:
        futs = [ex.submit(main), ex.submit(dev, 'early'), ex.submit(dev, 'swap')]
        for f in futs:
            f.result()
    ctx.notes['named_deviations_refuted'] = refuted
    if not all(refuted.values()):
        raise MachineryError(f'the RGB model does not refute a named deviation: {refuted}')
