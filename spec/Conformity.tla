----------------------------- MODULE Conformity -----------------------------
(* Property C03: discrete functions are continuous in the sense of the        *)
(* element.                                                                    *)
(*                                                                             *)
(* Design layer (model checked by MC_C03):                                     *)
(*   NumberDofsImpl      transcription of skfem/assembly/dofs.py:264-334       *)
(*   Dir / GDir          ordered global vertex ids along a local facet slot    *)
(*   SignHdiv            element_hdiv.py:9-22  (+1 iff the cell is f2t[0][f])  *)
(*   SignHcurl           element_hcurl.py:9-29 (-1 iff t[a] > t[b])            *)
(*   SharedEntitySharedDof, DirConsistent, SignsOpposite, SignsEqual           *)
(* Observation layer (trace validation by TraceC03, mode L):                   *)
(*   ContinuityClass     what each element family must be continuous IN        *)
(*   JumpZero            the two one-sided traces of every global DOF agree    *)
EXTENDS MeshTopology, Fx

\* ===========================================================================
\* Design layer.  c is a connectivity record as computed by MeshTopology!ConnImpl (t, facets, t2f, f2t,
\* edges, t2e, lf, le); a layout L describes where a family attaches its DOFs:
\*   [nodal, edge, facet, interior : number of DOFs per entity,
\*    dirs : for every local facet slot the pair <<a, b>> of local vertices along which the facet functions
\*           are ordered / whose difference defines the facet normal,
\*    directed : TRUE iff the facet functions depend on that direction (several DOFs per facet, or a signed
\*               normal-derivative DOF), sign : "none" | "hdiv" | "hcurl",
\*    tdirs : (hcurl, 2-D) for every local facet slot the pair <<a, b>> of local vertices along which the
\*            tangent of the REFERENCE shape function points (read off lbasis)]

\* ---- dofs.py:264-334 (0-based numbers as in the code) ----
NumberDofsImpl(c, L) ==
  LET nv  == c.nv
      ne  == Len(c.edges)
      nf  == Len(c.facets)
      nt  == Len(c.t)
      three == Has3D(c.kind)
      offE == L.nodal * nv
      offF == offE + (IF three THEN L.edge * ne ELSE 0)
      offC == offF + L.facet * nf
      nodal(j, v)    == (v - 1) * L.nodal + (j - 1)                      \* reshape(arange, (nd, nv), order='F')
      edge(j, e)     == offE + (e - 1) * L.edge + (j - 1)
      facet(j, f)    == offF + (f - 1) * L.facet + (j - 1)
      interior(j, k) == offC + (k - 1) * L.interior + (j - 1)
  IN [k \in 1..nt |->
        FlattenSeq([s \in DOMAIN c.t[k] |-> [j \in 1..L.nodal |-> nodal(j, c.t[k][s])]])
        \o (IF three /\ L.edge > 0
            THEN FlattenSeq([s \in DOMAIN c.t2e[k] |-> [j \in 1..L.edge |-> edge(j, c.t2e[k][s])]]) ELSE <<>>)
        \o (IF L.facet > 0
            THEN FlattenSeq([s \in DOMAIN c.t2f[k] |-> [j \in 1..L.facet |-> facet(j, c.t2f[k][s])]]) ELSE <<>>)
        \o [j \in 1..L.interior |-> interior(j, k)]]

\* the entity (and index on it) a local DOF position is attached to, from the same loop structure
LocalAttach(c, L, k) ==
  LET three == Has3D(c.kind) IN
  FlattenSeq([s \in DOMAIN c.t[k] |-> [j \in 1..L.nodal |-> <<"v", c.t[k][s], j>>]])
  \o (IF three /\ L.edge > 0
      THEN FlattenSeq([s \in DOMAIN c.t2e[k] |-> [j \in 1..L.edge |-> <<"e", c.t2e[k][s], j>>]]) ELSE <<>>)
  \o (IF L.facet > 0
      THEN FlattenSeq([s \in DOMAIN c.t2f[k] |-> [j \in 1..L.facet |-> <<"f", c.t2f[k][s], j>>]]) ELSE <<>>)
  \o [j \in 1..L.interior |-> <<"c", k, j>>]

\* shared entity <=> shared global DOF number (and the j-th DOF of the entity on both sides)
SharedEntitySharedDof(c, L, D) ==
  \A k1, k2 \in DOMAIN c.t :
    LET a1 == LocalAttach(c, L, k1)  a2 == LocalAttach(c, L, k2) IN
    /\ Len(D[k1]) = Len(a1)
    /\ \A i1 \in DOMAIN a1 : \A i2 \in DOMAIN a2 : (D[k1][i1] = D[k2][i2]) <=> (a1[i1] = a2[i2])

InteriorFacets(c) == {f \in DOMAIN c.facets : c.f2t[f][2] # 0}
SlotOf(c, k, f) == CHOOSE s \in DOMAIN c.t2f[k] : c.t2f[k][s] = f

\* Dir(K, s): ordered tuple of global vertex ids along local facet slot s in the layout's direction
GDir(c, L, k, s) == <<c.t[k][L.dirs[s][1]], c.t[k][L.dirs[s][2]]>>
DirConsistent(c, L) ==
  L.directed =>
    \A f \in InteriorFacets(c) :
      LET k1 == c.f2t[f][1]  k2 == c.f2t[f][2] IN
      GDir(c, L, k1, SlotOf(c, k1, f)) = GDir(c, L, k2, SlotOf(c, k2, f))

SignHdiv(c, k, f) == IF c.f2t[f][1] = k THEN 1 ELSE -1
SignsOpposite(c, L) ==
  (L.sign = "hdiv") =>
    \A f \in InteriorFacets(c) :
      /\ c.f2t[f][1] # c.f2t[f][2]
      /\ SignHdiv(c, c.f2t[f][1], f) = -SignHdiv(c, c.f2t[f][2], f)

SignHcurl(c, k, a, b) == IF c.t[k][a] > c.t[k][b] THEN -1 ELSE 1
\* the global direction of the oriented tangent: local direction a -> b, reversed when the sign is -1
OrientedEdge(c, k, a, b) == IF SignHcurl(c, k, a, b) = 1 THEN <<c.t[k][a], c.t[k][b]>> ELSE <<c.t[k][b], c.t[k][a]>>
\* 2-D: global direction of the tangent of the facet function of slot s: the reference tangent runs along
\* tdirs[s]; the sign is computed from the facet's local vertex pair lf[s] (element_hcurl.py:22-28)
OrientedTangent(c, L, k, s) ==
  LET g == <<c.t[k][L.tdirs[s][1]], c.t[k][L.tdirs[s][2]]>> IN
  IF SignHcurl(c, k, c.lf[s][1], c.lf[s][2]) = 1 THEN g ELSE <<g[2], g[1]>>
SignsEqual(c, L) ==
  (L.sign = "hcurl") =>
    IF Has3D(c.kind)
    THEN \A k1, k2 \in DOMAIN c.t : \A s1 \in DOMAIN c.le : \A s2 \in DOMAIN c.le :
           (c.t2e[k1][s1] = c.t2e[k2][s2]) =>
              OrientedEdge(c, k1, c.le[s1][1], c.le[s1][2]) = OrientedEdge(c, k2, c.le[s2][1], c.le[s2][2])
    ELSE \A f \in InteriorFacets(c) :
           LET k1 == c.f2t[f][1]  k2 == c.f2t[f][2]
               s1 == SlotOf(c, k1, f)  s2 == SlotOf(c, k2, f) IN
           OrientedTangent(c, L, k1, s1) = OrientedTangent(c, L, k2, s2)

DesignClauses(c, L) ==
  LET D == NumberDofsImpl(c, L) IN
  [SharedEntitySharedDof |-> SharedEntitySharedDof(c, L, D),
   DirConsistent |-> DirConsistent(c, L),
   SignsOpposite |-> SignsOpposite(c, L),
   SignsEqual |-> SignsEqual(c, L)]

\* ===========================================================================
\* Observation layer.
\* What a family must be continuous in, from the element docstrings and the statement of C03.  A requirement
\* is [q : "value" | "grad", at : "all" | "mid" | "ends", proj : "full" | "normal" | "tangent"]:
\*   at = all  : every point of the facet (observed at a facet quadrature of degree >= maxdeg + 1)
\*   at = mid  : the facet midpoint / centroid;   at = ends : the vertices of the facet
\*   proj      : all components / the normal component / the tangential components
Req(q, at, proj) == [q |-> q, at |-> at, proj |-> proj]
ContinuityClass(cls) ==
  CASE cls = "H1"            -> {Req("value", "all", "full")}                        \* H1-conforming: values agree
    [] cls = "Hdiv"          -> {Req("value", "all", "normal")}                      \* normal components
    [] cls = "Hcurl"         -> {Req("value", "all", "tangent")}                     \* tangential components
    [] cls = "FacetMid"      -> {Req("value", "mid", "full")}                        \* Crouzeix-Raviart: facet midpoints
    [] cls = "Morley"        -> {Req("value", "ends", "full"), Req("grad", "mid", "normal")}
    [] cls = "C1"            -> {Req("value", "all", "full"), Req("grad", "all", "full")}
    [] cls = "VertexValGrad" -> {Req("value", "ends", "full"), Req("grad", "ends", "full")}      \* defining functionals only
    [] cls = "Plate15"       -> {Req("value", "ends", "full"), Req("grad", "ends", "full"),
                                 Req("value", "mid", "full"), Req("grad", "mid", "normal")}      \* defining functionals only
    [] OTHER                 -> {}

\* element class -> continuity class.  Families that are discontinuous by design (P0, DG, skeleton, HHJ) are
\* not in the table and are not driven.
ElemClass(elem) ==
  CASE elem \in {"ElementLineP1", "ElementLineP2", "ElementLinePp3", "ElementLinePp4", "ElementLineMini",
                 "ElementTriP1", "ElementTriP2", "ElementTriP3", "ElementTriP4", "ElementTriP1B", "ElementTriP2B",
                 "ElementTriP1G", "ElementTriP2G",
                 "ElementVector(TriP1)", "ElementVector(TriP2)",
                 "ElementQuad1", "ElementQuad2", "ElementQuadS2", "ElementQuadP2", "ElementQuadP3", "ElementQuadP4",
                 "ElementQuad2G", "ElementVector(Quad1)", "ElementVector(Quad2)",
                 "ElementTetP1", "ElementTetP2", "ElementTetMini", "ElementTetCCR",
                 "ElementVector(TetP1)", "ElementVector(TetP2)",
                 "ElementHex1", "ElementHex2", "ElementHexS2", "ElementVector(Hex1)", "ElementWedge1"} -> "H1"
    [] elem \in {"ElementTriRT1", "ElementTriRT2", "ElementTriBDM1", "ElementQuadRT1", "ElementTetRT1",
                 "ElementHexRT1"} -> "Hdiv"
    [] elem \in {"ElementTriN1", "ElementTriN2", "ElementTriN3", "ElementQuadN1", "ElementTetN1"} -> "Hcurl"
    [] elem \in {"ElementTriCR", "ElementTetCR"} -> "FacetMid"
    [] elem = "ElementTriMorley" -> "Morley"
    [] elem \in {"ElementTriArgyris", "ElementQuadBFS", "ElementHexC1", "ElementLineHermite"} -> "C1"
    [] elem = "ElementTriHermite" -> "VertexValGrad"
    [] elem = "ElementTri15ParamPlate" -> "Plate15"
    [] OTHER -> "none"

\* tolerances (per unit of magnitude of the compared traces).  Calibration (quick seeds 0..4, all mesh classes incl.
\* operation histories, element reuse, curved meshes):
\*   reference-mapped elements: worst 1.7e-14 straight (TriP4, Delaunay), 3.8e-14 curved (Hex2, Newton inverse)
\*                                                        -> TolGeom   = 2^-30 = 9.3e-10   (factor 2.5e4)
\*   ElementGlobal (inverted Vandermonde matrix in global coordinates, degree <= 5): worst 5.0e-10 (Argyris on a
\*   twice adaptively refined mesh)                       -> TolGlobal = 2^-17 = 7.6e-6    (factor 1.5e4)
\* (2^-36 / 2^-20 before: factors 4e2 / 1.9e3, too close to LAPACK / NumPy build differences).  A non-conforming
\* pair of traces differs by O(0.1 .. 1), so both tolerances remain decisive.
TolGeom   == FxTol(30)
TolGlobal == FxTol(17)
TolFor(tolclass) == IF tolclass = "global" THEN TolGlobal ELSE TolGeom

\* facet geometry from integer vertex coordinates: tangent vectors and (unnormalised) normal
FacetTangents(p, fv) ==
  IF Len(p[fv[1]]) = 2 THEN << [c \in 1..2 |-> p[fv[2]][c] - p[fv[1]][c]] >>
  ELSE << [c \in 1..3 |-> p[fv[2]][c] - p[fv[1]][c]], [c \in 1..3 |-> p[fv[3]][c] - p[fv[1]][c]] >>
FacetNormal(p, fv) ==
  LET T == FacetTangents(p, fv) IN
  IF Len(T) = 1 THEN <<T[1][2], -T[1][1]>>
  ELSE <<T[1][2] * T[2][3] - T[1][3] * T[2][2], T[1][3] * T[2][1] - T[1][1] * T[2][3], T[1][1] * T[2][2] - T[1][2] * T[2][1]>>

ISumC(s)  == FoldLeft(LAMBDA acc, x : acc + x, 0, s)
FxSumC(s) == FoldLeft(LAMBDA acc, x : FxAdd(acc, x), FxZero, s)
Norm1(v)  == ISumC([c \in DOMAIN v |-> Abs(v[c])])

\* an item is [d, f, a, b]: the traces of global DOF d on interior facet f from side 0 (a) and side 1 (b),
\* component-major: index (c-1)*nq + q.  mag = 1 + largest integer part of any entry.
ItemMag(it) == 1 + MaxSet({Abs(FxAbs(it.a[j])[1]) : j \in DOMAIN it.a} \cup {Abs(FxAbs(it.b[j])[1]) : j \in DOMAIN it.b})
ProjZero(it, ncomp, nq, w, tol) ==                \* | sum_c (a - b)[c, q] * w[c] | <= tol * mag * |w|_1  for every q
  \A q \in 1..nq :
    LET s == FxSumC([c \in 1..ncomp |-> FxMulSmall(FxSub(it.a[(c - 1) * nq + q], it.b[(c - 1) * nq + q]), w[c])])
    IN FxNear(s, FxZero, FxMulSmall(tol, Min2(ItemMag(it) * Max2(Norm1(w), 1), 16384)))

JumpZeroItem(it, g, p, fv, tol) ==
  CASE g.proj = "full"    -> \A j \in DOMAIN it.a : FxNear(it.a[j], it.b[j], FxMulSmall(tol, Min2(ItemMag(it), 16384)))
    [] g.proj = "normal"  -> ProjZero(it, g.ncomp, g.nq, FacetNormal(p, fv), tol)
    [] g.proj = "tangent" -> LET T == FacetTangents(p, fv) IN \A j \in DOMAIN T : ProjZero(it, g.ncomp, g.nq, T[j], tol)

ItemWF(it, g, nd, nfac) ==
  /\ it.d \in 1..nd /\ it.f \in 1..nfac
  /\ Len(it.a) = g.ncomp * g.nq /\ Len(it.b) = g.ncomp * g.nq
  /\ \A j \in DOMAIN it.a : FxWF(it.a[j]) /\ FxWF(it.b[j])
==============================================================================
