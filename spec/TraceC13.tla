------------------------------ MODULE TraceC13 ------------------------------
(* code -> spec: validates refinement steps recorded from the real Mesh        *)
(* classes (every step logs the abstract mesh before and after) against the     *)
(* clauses of Refinement.tla.  Both uniform and adaptive steps occur in the     *)
(* histories of C12 and C13; each is judged by its own clause set.              *)
EXTENDS RGBOps

Batch  == JsonDeserialize(IOEnv.TRACE_FILE)
Events == Batch.events
N      == Len(Events)

\* informational (never a verdict): on first-order triangle meshes the transcription RGBOps!AdaptiveImpl reproduces the
\* code's result exactly (same vertices, same cells in the same order, same sub-domain index lists)
Drift(e) == IF e.a = "Adapt" /\ e.err = "" /\ e.pre.cls = "MeshTri1" /\ MeshWF(e.pre)
            THEN LET mdl == AdaptiveImpl(e.pre, e.marked) IN
                 [Drift_RGBModelEqualsCode |-> mdl.p = e.post.p /\ mdl.t = e.post.t /\ mdl.sub = e.post.sub]
            ELSE <<>>
Clauses(e) == (IF e.a = "Refine" THEN RefineClauses(e) ELSE AdaptClauses(e)) @@ Drift(e)

VARIABLES i, bad, cnt
vars == <<i, bad, cnt>>
Bump(c, r) == [k \in DOMAIN c \cup DOMAIN r |->
                 (IF k \in DOMAIN c THEN c[k] ELSE 0) + (IF k \in DOMAIN r THEN 1 ELSE 0)]
Init == i = 1 /\ bad = <<>> /\ cnt = <<>>
Step == /\ i <= N
        /\ LET e == Events[i]
               r == Clauses(e)
               f == SetToSeq(Failed(r))
           IN /\ bad' = bad \o [k \in DOMAIN f |-> [sid |-> e.sid, pos |-> e.pos, clause |-> f[k]]]
              /\ cnt' = Bump(cnt, r)
        /\ i' = i + 1
Finish == /\ i = N + 1
          /\ JsonSerialize(IOEnv.OUT_FILE, [consumed |-> N, bad |-> bad, cnt |-> cnt])
          /\ i' = N + 2 /\ UNCHANGED <<bad, cnt>>
Next == Step \/ Finish
Spec == Init /\ [][Next]_vars
==============================================================================
