------------------------------- MODULE MC_C13 -------------------------------
(* Design-level check of C13 on the red-green-blue algorithm (RGB.tla): for    *)
(* EVERY marked subset of the lattice triangle meshes (all diagonal patterns    *)
(* of the 2x2 lattice, with sub-domain tags) the result satisfies the           *)
(* relational clauses of Refinement.tla, the closure loop terminates, and the   *)
(* closure is the least set closed under "a split facet forces the longest      *)
(* edge".  Deviations EARLYSTOP / SWAPBLUE must be refuted.                      *)
EXTENDS RGB

Double(m) == [m EXCEPT !.p = [v \in DOMAIN m.p |-> [i \in DOMAIN m.p[v] |-> 2 * m.p[v][i]]]]
Tagged(m) == [kind |-> "tri", cls |-> "MeshTri1", p |-> m.p, t |-> m.t,
              sub |-> <<<<"low", SortedSeq({k \in DOMAIN m.t : k % 2 = 1})>>, <<"one", <<1>>>>>>,
              bnd |-> <<>>, hassub |-> 1, hasbnd |-> 0]
DiagSets == IF IOEnv.C13_LEVEL = "thorough" THEN [1..4 -> {0, 1}]
            ELSE {[sq \in 1..4 |-> IF sq \in {2, 3} THEN 1 ELSE 0], [sq \in 1..4 |-> sq % 2]}
\* anisotropic variant: x stretched by 3 (other longest edges)
Stretch(m) == [m EXCEPT !.p = [v \in DOMAIN m.p |-> <<3 * m.p[v][1], m.p[v][2]>>]]
\* jiggled variant: lattice scaled by 8, centre vertex moved by (2, 4): all edge lengths distinct around the centre
Jiggle(m) == [m EXCEPT !.p = [v \in DOMAIN m.p |-> IF m.p[v] = <<1, 1>> THEN <<10, 12>> ELSE <<8 * m.p[v][1], 8 * m.p[v][2]>>]]
MCUniverse == {Tagged(Double(SortCells(mm))) : mm \in U2tOf(DiagSets, {1..8})}
              \cup {Tagged(Jiggle(SortCells(mm))) : mm \in U2tOf({[sq \in 1..4 |-> IF sq \in {2, 3} THEN 1 ELSE 0]}, {1..8})}
              \cup {Tagged(Double(Stretch(SortCells(mm)))) : mm \in U2tOf({[sq \in 1..4 |-> sq % 2]}, {1..8, {1, 2, 3, 4}})}

Event == [a |-> "Adapt", err |-> "", pre |-> Mesh0, post |-> post, marked |-> Marked, k |-> 0,
          warned_s |-> 0, warned_b |-> 0]
ClausesHold == pc = "Done" => Failed(AdaptClauses(Event)) = {}
\* the closure computed by the loop is the least fix-point (sanity of the transcription; not demanded of the code)
Closed(S) == \A k \in DOMAIN T : (T2F[k][1] \in S \/ T2F[k][2] \in S) => T2F[k][3] \in S
Seeds == {T2F[Marked[q]][s] : q \in DOMAIN Marked, s \in 1..3}
ClosureIsLeastFixpoint ==
  pc = "Split" => LET S == {f \in DOMAIN F : fm[f] = 1} IN
                  /\ Seeds \subseteq S /\ Closed(S)
                  /\ \A R \in SUBSET S : (Seeds \subseteq R /\ Closed(R)) => R = S
LoopBounded == iters <= Len(F) + 1
==============================================================================
