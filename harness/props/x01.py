"""X01 - periodic meshes (extended coverage beyond the listed properties; NOT registered in MANIFEST.json).

Every Mesh*1DG.init_tensor(grid, periodic=dims) for small integer grids and every non-empty set of periodic dimensions is
executed; the stored identification (_ix), the reordered mesh (_orig) and the periodic cell list are validated by
spec/TraceX01.tla against spec/Periodic.tla.  A grid with a single cell layer in a periodic dimension must be rejected
(duplicate index), everything else accepted.
"""
import itertools
import json

import numpy as np

from ..core import guarded

RULE = 'scenario = (DG mesh class, integer grid, set of periodic dimensions); distinct = distinct triples.'


def execute(rec):
    import skfem as fem
    cls = getattr(fem, rec['cls'])
    grids = [np.array(g, dtype=np.float64) for g in rec['grids']]
    per = rec['per']

    def call():
        return cls.init_tensor(*grids, periodic=list(per))
    m, err = guarded(call, 30)
    lo = [int(min(g)) for g in rec['grids']]
    hi = [int(max(g)) for g in rec['grids']]
    # a cell would contain a vertex twice iff some periodic dimension has a single layer of cells
    dup = int(any(len(rec['grids'][d]) == 2 for d in per))
    ev = {'a': 'Periodic', 'err': err, 'dup': dup, 'per': [d + 1 for d in per], 'lo': lo, 'hi': hi,
          'p': [], 't': [], 'tp': [], 'remap': []}
    if not err:
        orig = m._orig
        nvert = int(orig.t.max()) + 1
        ev['p'] = [[int(round(v)) for v in col] for col in orig.p[:, :nvert].T]
        nv = orig.t.shape[0]
        ev['t'] = [[int(v) + 1 for v in col] for col in orig.t.T]
        ev['tp'] = [[int(v) + 1 for v in col] for col in m.t[:nv].T]
        ev['remap'] = [int(v) + 1 for v in m._ix[:nvert]]
    return [ev]


def generate(tier):
    recs = []
    sizes = [2, 3, 4] if tier == 'quick' else [2, 3, 4, 5]
    for cls, dim in (('MeshLine1DG', 1), ('MeshTri1DG', 2), ('MeshQuad1DG', 2), ('MeshHex1DG', 3)):
        for shape in itertools.product(sizes, repeat=dim):
            if dim == 3 and (max(shape) > 3 and tier == 'quick'):
                continue
            grids = [list(range(0, 2 * n, 2)) for n in shape]            # n points -> n-1 cells
            for r in range(1, dim + 1):
                for per in itertools.combinations(range(dim), r):
                    recs.append({'driver': 'periodic', 'cls': cls, 'grids': grids, 'per': list(per)})
    return recs


def run(ctx):
    # the identification algorithm itself (collect, first pairing, chain resolution) as a state machine: every grid with 2..3
    # points per dimension, every numbering, three processing orders; the vectorised single pass must be refuted
    ctx.model_must_hold('PeriodicAlg', 'MC_X01.cfg', timeout=600, label='identification algorithm of MeshDG.init_tensor')
    dev = ctx.tlc_model('PeriodicAlg', 'MC_X01_singlepass.cfg', timeout=600, label='named deviation: single vectorised look-up')
    ctx.notes['singlepass_refuted_by_tlc'] = bool(dev['violated'])
    if not dev['violated']:
        from ..core import MachineryError
        raise MachineryError('PeriodicAlg does not refute the single-pass chain resolution')
    recs = generate(ctx.tier)
    scs = [{'id': f'X01-{k}', 'recipe': r, 'tags': {'cls': r['cls'], 'per': str(r['per'])}, 'events': execute(r)}
           for k, r in enumerate(recs)]
    ctx.validate('TraceX01', scs)
    ctx.notes['distinct_nontrivial'] = len({json.dumps(r) for r in recs})
    return ctx.finish(rule=RULE, assumptions=['extended coverage: not one of the listed properties'], exhaustive=True)


def replay(ctx, doc):
    sc = doc['scenario']
    ctx.validate('TraceX01', [{'id': sc['id'], 'recipe': sc['recipe'], 'tags': sc.get('tags', {}), 'events': execute(sc['recipe'])}])
    return ctx.finish(rule=RULE)
