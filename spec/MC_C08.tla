------------------------------- MODULE MC_C08 -------------------------------
(* Design-level check of C08.                                                  *)
(*  (a) The specification's own rules -- Gauss-Legendre with 2 and 3 nodes on  *)
(*      [0,1] (nodes from sqrt 3, sqrt 15 given as verified limb constants),   *)
(*      the Strang-Fix triangle rules of degree 2 and 3 -- pushed through the  *)
(*      transcription of the library's order->size arithmetic and of its       *)
(*      tensor-product constructions (quadrature.py:43-74, 2836-2841) satisfy  *)
(*      the very same clauses QuadClauses that judge the recorded rules.       *)
(*  (b) The closed forms RefMoment are cross-checked: against the reduced      *)
(*      rational closed form, against "unit square = two triangles" and        *)
(*      against "tetrahedron = triangle with z integrated out".                *)
EXTENDS Quadrature

\* ---------------------------------------------------------------------------
\* irrational constants as limb vectors, verified by squaring
Sqrt3  == <<1, 11993, 15080, 5651, 2727>>
Sqrt15 == <<3, 14302, 15714, 10151, 6966>>
ASSUME FxNear(FxSq(Sqrt3), FxInt(3), FxUlp(16))
ASSUME FxNear(FxSq(Sqrt15), FxInt(15), FxUlp(16))

Half == FxRat(1, 2)
\* numpy.polynomial.legendre.leggauss(m) mapped to [0,1]: x = X/2 + 1/2, w = W/2  (quadrature.py:2840-2841)
GaussLegendre(m) ==
  CASE m = 1 -> [x |-> <<Half>>, w |-> <<FxInt(1)>>]
    [] m = 2 -> [x |-> <<FxSub(Half, FxDivSmall(Sqrt3, 6)), FxAdd(Half, FxDivSmall(Sqrt3, 6))>>,
                 w |-> <<Half, Half>>]
    [] m = 3 -> [x |-> <<FxSub(Half, FxDivSmall(Sqrt15, 10)), Half, FxAdd(Half, FxDivSmall(Sqrt15, 10))>>,
                 w |-> <<FxRat(5, 18), FxRat(8, 18), FxRat(5, 18)>>]
\* get_quadrature_line: if norder <= 1: norder = 2;  m = ceil((norder + 1) / 2)
LineSize(n) == LET k == IF n <= 1 THEN 2 ELSE n IN (k + 2) \div 2
LineImpl(n) == LET g == GaussLegendre(LineSize(n)) IN
               [x |-> [i \in DOMAIN g.x |-> <<g.x[i]>>], w |-> g.w]

\* get_quadrature_tri: if norder <= 1: norder = 2;  tables 2 and 3 (Strang-Fix)
TriImpl(n) ==
  IF n <= 2
  THEN [x |-> << <<FxRat(1,6), FxRat(1,6)>>, <<FxRat(2,3), FxRat(1,6)>>, <<FxRat(1,6), FxRat(2,3)>> >>,
        w |-> << FxRat(1,6), FxRat(1,6), FxRat(1,6) >>]
  ELSE [x |-> << <<FxRat(1,3), FxRat(1,3)>>, <<FxRat(1,5), FxRat(1,5)>>, <<FxRat(3,5), FxRat(1,5)>>,
                 <<FxRat(1,5), FxRat(3,5)>> >>,
        w |-> << FxRat(-27, 96), FxRat(25, 96), FxRat(25, 96), FxRat(25, 96) >>]

\* ---------------------------------------------------------------------------
\* tensor-product constructions; node index k is 0-based as in numpy, returned 1-based
\* quadrilateral (quadrature.py:52-60): A, B = meshgrid(X, X): A[i,j] = X[j], B[i,j] = X[i];
\* flatten(order="F"): k = i + m*j ; weights A*B of meshgrid(W, W)
QuadImpl(n) ==
  LET r == LineImpl(n)  m == Len(r.w) IN
  [x  |-> [k \in 1..(m * m) |-> LET i == (k - 1) % m  j == (k - 1) \div m IN <<r.x[j + 1][1], r.x[i + 1][1]>>],
   w  |-> [k \in 1..(m * m) |-> LET i == (k - 1) % m  j == (k - 1) \div m IN FxMul(r.w[j + 1], r.w[i + 1])],
   ix |-> [k \in 1..(m * m) |-> LET i == (k - 1) % m  j == (k - 1) \div m IN <<j + 1, i + 1>>],
   f  |-> <<r, r>>]
\* hexahedron (quadrature.py:61-71): A[i,j,l] = X[j], B[i,j,l] = X[i], C[i,j,l] = X[l]; k = i + m*j + m*m*l
HexImpl(n) ==
  LET r == LineImpl(n)  m == Len(r.w)
      I(k) == (k - 1) % m   J(k) == ((k - 1) \div m) % m   L(k) == (k - 1) \div (m * m) IN
  [x  |-> [k \in 1..(m * m * m) |-> <<r.x[J(k) + 1][1], r.x[I(k) + 1][1], r.x[L(k) + 1][1]>>],
   w  |-> [k \in 1..(m * m * m) |-> FxMul(FxMul(r.w[J(k) + 1], r.w[I(k) + 1]), r.w[L(k) + 1])],
   ix |-> [k \in 1..(m * m * m) |-> <<J(k) + 1, I(k) + 1, L(k) + 1>>],
   f  |-> <<r, r, r>>]
\* prism (quadrature.py:43-51): Y = vstack(tile(X2, (1, m1)), repeat(X1, m2, axis=1)); W = outer(W1, W2).flatten()
\*   k = l*m2 + t   (l: segment node, t: triangle node)
WedgeImpl(n) ==
  LET r1 == LineImpl(n)  r2 == TriImpl(n)  m1 == Len(r1.w)  m2 == Len(r2.w)
      T(k) == (k - 1) % m2   L(k) == (k - 1) \div m2 IN
  [x  |-> [k \in 1..(m1 * m2) |-> <<r2.x[T(k) + 1][1], r2.x[T(k) + 1][2], r1.x[L(k) + 1][1]>>],
   w  |-> [k \in 1..(m1 * m2) |-> FxMul(r1.w[L(k) + 1], r2.w[T(k) + 1])],
   ix |-> [k \in 1..(m1 * m2) |-> <<T(k) + 1, L(k) + 1>>],
   f  |-> <<r2, r1>>]

RuleImpl(kind, n) ==
  CASE kind = "point" -> [x |-> << <<>> >>, w |-> <<FxInt(1)>>]
    [] kind = "line"  -> LineImpl(n)
    [] kind = "tri"   -> TriImpl(n)
    [] kind = "quad"  -> QuadImpl(n)
    [] kind = "hex"   -> HexImpl(n)
    [] kind = "wedge" -> WedgeImpl(n)

\* ---------------------------------------------------------------------------
\* the observation of a rule, in the format of the recorded events
RECURSIVE FxPow(_, _)
FxPow(x, k) == IF k = 0 THEN FxInt(1) ELSE FxMul(x, FxPow(x, k - 1))
RECURSIVE MonoAt(_, _, _)
MonoAt(pt, alpha, c) == IF c > Len(alpha) THEN FxInt(1) ELSE FxMul(FxPow(pt[c], alpha[c]), MonoAt(pt, alpha, c + 1))
RECURSIVE MomentRun(_, _, _, _)
MomentRun(acc, r, alpha, k) == IF ~Seen(acc) \/ k > Len(r.w) THEN acc
                               ELSE MomentRun(FxAdd(acc, FxMul(r.w[k], MonoAt(r.x[k], alpha, 1))), r, alpha, k + 1)
Moment(r, alpha) == MomentRun(FxZero, r, alpha, 1)

FxMinSet(S) == CHOOSE a \in S : \A b \in S : FxLeq(a, b)
Slacks(kind, pt) ==
  CASE kind = "point" -> {FxZero}
    [] kind \in {"line", "quad", "hex"} -> UNION {{pt[c], FxSub(FxInt(1), pt[c])} : c \in DOMAIN pt}
    [] kind \in {"tri", "tet"} -> {pt[c] : c \in DOMAIN pt} \cup {FxSub(FxInt(1), FxSumSeq(pt))}
    [] kind = "wedge" -> {pt[1], pt[2], FxSub(FxInt(1), FxAdd(pt[1], pt[2])), pt[3], FxSub(FxInt(1), pt[3])}

FactorEv(r) == [err |-> "", x |-> r.x, w |-> r.w]
EventOf(kind, n) ==
  LET r    == RuleImpl(kind, n)
      mons == SetToSeq(Monomials(kind, n))
  IN [a |-> "GetQuadrature", kind |-> kind, n |-> n, err |-> "", dim |-> CellDim(kind), npts |-> Len(r.w),
      sumw  |-> FxSumSeq(r.w),
      slack |-> FxMinSet(UNION {Slacks(kind, r.x[k]) : k \in DOMAIN r.x}),
      mom   |-> [j \in DOMAIN mons |-> mons[j] \o Moment(r, mons[j])],
      ts    |-> IF kind \in TensorKinds
                THEN [f |-> [j \in DOMAIN r.f |-> FactorEv(r.f[j])], ix |-> r.ix, X |-> r.x, W |-> r.w]
                ELSE [f |-> <<>>, ix |-> <<>>, X |-> <<>>, W |-> <<>>]]

\* ---------------------------------------------------------------------------
\* (b) cross-checks of the closed forms
SmallAlphas(kind) == CASE kind = "tri" -> {al \in Tuples(2, 6) : al[1] + al[2] <= 6}
                       [] kind = "tet" -> {al \in Tuples(3, 4) : al[1] + al[2] + al[3] <= 4}
                       [] kind = "wedge" -> {al \in Tuples(3, 4) : al[1] + al[2] <= 4}
                       [] kind = "line" -> Tuples(1, 22)
                       [] kind = "quad" -> Tuples(2, 22)
                       [] kind = "hex" -> Tuples(3, 12)
                       [] OTHER -> {<<>>}
\* limb closed form = rational closed form, whenever the latter has a short denominator
MomentMatchesRational ==
  \A kind \in CellKinds : \A al \in SmallAlphas(kind) :
     LET q == QRefMoment(kind, al) IN
     q[2] <= 65536 => FxNear(RefMoment(kind, al), FxOfQ(q), FxUlp(RefMomentUlps(kind, al)))
ASSUME MomentMatchesRational

\* unit square = reference triangle  U  its image under (x, y) -> (1 - x, 1 - y)
Sign(k) == IF k % 2 = 0 THEN 1 ELSE -1
Pairs(a, b) == SetToSeq((0..a) \X (0..b))
MirrorTri(a, b) ==
  LET ps == Pairs(a, b) IN
  FxSumAll([k \in DOMAIN ps |->
              FxMulSmall(SimplexMoment(<<ps[k][1], ps[k][2]>>),
                         Sign(ps[k][1] + ps[k][2]) * Binom(a, ps[k][1]) * Binom(b, ps[k][2]))])
SquareIsTwoTriangles ==
  \A a, b \in 0..6 : FxNear(BoxMoment(<<a, b>>), FxAdd(SimplexMoment(<<a, b>>), MirrorTri(a, b)), FxTol(36))
ASSUME SquareIsTwoTriangles
\* the same identity in exact rational arithmetic on a smaller range (no tolerance at all)
QMirrorTri(a, b) ==
  LET ps == Pairs(a, b) IN
  QSumAll([k \in DOMAIN ps |->
             QMul(QSimplexMoment(<<ps[k][1], ps[k][2]>>),
                  QInt(Sign(ps[k][1] + ps[k][2]) * Binom(a, ps[k][1]) * Binom(b, ps[k][2])))])
SquareIsTwoTrianglesExact ==
  \A a, b \in 0..3 : QBoxMoment(<<a, b>>) = QAdd(QSimplexMoment(<<a, b>>), QMirrorTri(a, b))
ASSUME SquareIsTwoTrianglesExact

\* tetrahedron: integrate z out,  (c+1) * T(a,b,c) = int_tri x^a y^b (1-x-y)^(c+1)
Multinom3(n, i, j) == Binom(n, i) * Binom(n - i, j)
TetByTriangle ==
  \A a, b \in 0..4 : \A c \in 0..3 :
    LET n == c + 1
        ps == SetToSeq({ij \in (0..n) \X (0..n) : ij[1] + ij[2] <= n})
        rhs == FxSumAll([k \in DOMAIN ps |->
                           FxMulSmall(SimplexMoment(<<a + ps[k][1], b + ps[k][2]>>),
                                      Sign(ps[k][1] + ps[k][2]) * Multinom3(n, ps[k][1], ps[k][2]))])
    IN FxNear(FxMulSmall(SimplexMoment(<<a, b, c>>), n), rhs, FxTol(40))
ASSUME TetByTriangle
\* FxMul against the rational product
ASSUME \A p, q \in {3, 7, 18, 96, 1000} : \A k \in {1, 5, -27} :
         FxNear(FxMul(FxRat(k, p), FxRat(25, q)), FxDivSmall(FxRat(25 * k, p), q), FxUlp(64))

\* ---------------------------------------------------------------------------
\* (a) every (cell, order) of the small universe
Universe == ({"line", "quad"} \X (-1..5)) \cup ({"hex", "tri", "wedge"} \X (-1..3)) \cup ({"point"} \X {0, 1})

VARIABLES job, ev, failed
vars == <<job, ev, failed>>
Init == job \in Universe /\ ev = <<>> /\ failed = {}
Compute == /\ ev = <<>>
           /\ ev' = EventOf(job[1], job[2])
           /\ failed' = Failed(QuadClauses(ev'))
           /\ UNCHANGED job
Spec == Init /\ [][Compute]_vars

ClausesHold == failed = {}
\* the order -> size arithmetic gives the smallest Gauss rule that is exact to the order
SizeMinimal == \A n \in 2..40 : 2 * LineSize(n) - 1 >= n /\ 2 * (LineSize(n) - 1) - 1 < n
Computed == ev # <<>> => ev.npts >= 1 /\ SizeMinimal
==============================================================================
