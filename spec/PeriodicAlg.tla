------------------------------ MODULE PeriodicAlg ------------------------------
(* The identification algorithm of MeshDG.init_tensor (skfem/mesh/mesh_dg.py:      *)
(* 8-31) as a state machine: collect the nodes of the min side (to eliminate) and   *)
(* of the max side (their images) per periodic dimension, keep the first pairing    *)
(* of every eliminated node (np.unique(..., return_index=True)), then RESOLVE       *)
(* CHAINS -- an image that is itself eliminated in another periodic dimension is     *)
(* replaced by that node's image -- one step per eliminated node:                    *)
(*        for k, idx in enumerate(ix): ix0[ix0 == idx] = ix0[k]                      *)
(* TLC explores every grid with 2..3 points per dimension in up to three            *)
(* dimensions, every non-empty set of periodic dimensions, every way of numbering    *)
(* the grid (which coordinate runs fastest) and three processing orders of the       *)
(* loop (the code's ascending one, descending, interleaved) and checks that the      *)
(* result is the quotient demanded by Periodic.tla: images are kept nodes, equal to   *)
(* their pre-image modulo the period, exactly the min-side nodes are eliminated.     *)
(* SINGLEPASS is the named deviation "one vectorised look-up instead of the loop"     *)
(* (seeded change C04-r2s2): TLC must refute it (three periodic dimensions).         *)
EXTENDS Prelude

CONSTANTS MAXDIM, SINGLEPASS

Dims(nd) == 1..nd
Perms(nd) == {f \in [Dims(nd) -> Dims(nd)] : {f[d] : d \in Dims(nd)} = Dims(nd)}

VARIABLES nd,      \* number of dimensions
          size,    \* points per dimension (coordinates 0 .. size[d]-1)
          per,     \* periodic dimensions
          radix,   \* numbering: dimension radix[1] runs fastest
          order,   \* processing order of the resolution loop
          ix, ix0, \* eliminated nodes (ids, ascending, unique) and their current images
          done,    \* positions of ix already processed
          pc
vars == <<nd, size, per, radix, order, ix, ix0, done, pc>>

Nodes(n, sz) == {x \in [Dims(n) -> 0..2] : \A d \in Dims(n) : x[d] < sz[d]}
\* id of a node: mixed radix number, dimension rdx[1] fastest (0-based ids)
RECURSIVE IdFrom(_, _, _, _)
IdFrom(x, sz, rdx, j) == IF j > Len(rdx) THEN 0 ELSE x[rdx[j]] + sz[rdx[j]] * IdFrom(x, sz, rdx, j + 1)
Id(x, sz, rdx) == IdFrom(x, sz, rdx, 1)
NodeOf(i, n, sz, rdx) == CHOOSE x \in Nodes(n, sz) : Id(x, sz, rdx) = i

\* nodes_satisfying returns ascending ids
SideIds(n, sz, rdx, d, val) == SortedSeq({Id(x, sz, rdx) : x \in {y \in Nodes(n, sz) : y[d] = val}})
RECURSIVE Collect(_, _, _, _, _)
Collect(n, sz, rdx, ds, minside) ==      \* concatenation over the periodic dimensions, in increasing dimension order
  IF ds = {} THEN <<>>
  ELSE LET d == MinSet(ds) IN SideIds(n, sz, rdx, d, IF minside THEN 0 ELSE sz[d] - 1) \o Collect(n, sz, rdx, ds \ {d}, minside)
\* np.unique(ix, return_index=True): ascending distinct values and the position of their FIRST occurrence
UniqueVals(s) == SortedSeq({s[i] : i \in DOMAIN s})
FirstIndex(s, v) == MinSet({i \in DOMAIN s : s[i] = v})

Init ==
  /\ nd \in 1..MAXDIM
  /\ size \in [Dims(nd) -> 2..3]
  /\ per \in (SUBSET Dims(nd)) \ {{}}
  /\ radix \in {[j \in 1..nd |-> f[j]] : f \in Perms(nd)}
  /\ order \in {"ascending", "descending", "interleaved"}
  /\ LET a == Collect(nd, size, radix, per, TRUE)
         b == Collect(nd, size, radix, per, FALSE)
         u == UniqueVals(a)
     IN /\ ix = u
        /\ ix0 = [k \in DOMAIN u |-> b[FirstIndex(a, u[k])]]
  /\ done = {}
  /\ pc = "resolve"

NextPos == LET todo == DOMAIN ix \ done IN
   CASE order = "ascending" -> MinSet(todo)
     [] order = "descending" -> MaxSet(todo)
     [] OTHER -> IF Cardinality(done) % 2 = 0 THEN MinSet(todo) ELSE MaxSet(todo)

Resolve ==
  /\ pc = "resolve"
  /\ IF SINGLEPASS
     THEN \* deviation: ix0 = lookup[ix0] once, with the look-up table taken before the pass
          /\ ix0' = [j \in DOMAIN ix0 |-> IF \E k \in DOMAIN ix : ix[k] = ix0[j]
                                         THEN ix0[CHOOSE k \in DOMAIN ix : ix[k] = ix0[j]] ELSE ix0[j]]
          /\ done' = DOMAIN ix /\ pc' = "done"
     ELSE IF done = DOMAIN ix THEN pc' = "done" /\ UNCHANGED <<ix0, done>>
     ELSE LET k == NextPos IN
          /\ ix0' = [j \in DOMAIN ix0 |-> IF ix0[j] = ix[k] THEN ix0[k] ELSE ix0[j]]     \* ix0[ix0 == idx] = ix0[k]
          /\ done' = done \cup {k} /\ pc' = "resolve"
  /\ UNCHANGED <<nd, size, per, radix, order, ix>>

Next == Resolve \/ (pc = "done" /\ UNCHANGED vars)
Spec == Init /\ [][Next]_vars /\ WF_vars(Resolve)

\* ---- what the result must be (the relational clauses of Periodic.tla on this representation)
Eliminated == {ix[k] : k \in DOMAIN ix}
ImageOf(i) == ix0[CHOOSE k \in DOMAIN ix : ix[k] = i]
OnMinSideNode(x) == \E d \in per : x[d] = 0
SameModPeriod(x, y) == \A d \in Dims(nd) : IF d \in per THEN x[d] = y[d] \/ {x[d], y[d]} = {0, size[d] - 1} ELSE x[d] = y[d]
\* a grid with a single cell layer in a periodic dimension is refused by the constructor (duplicate index): not judged
Regular == \A d \in per : size[d] >= 3

Post == (pc = "done" /\ Regular) =>
   /\ \A i \in Eliminated : ImageOf(i) \notin Eliminated                                            \* ImagesAreKept
   /\ \A i \in Eliminated : SameModPeriod(NodeOf(i, nd, size, radix), NodeOf(ImageOf(i), nd, size, radix))
   /\ Eliminated = {Id(x, size, radix) : x \in {y \in Nodes(nd, size) : OnMinSideNode(y)}}            \* MinSideEliminated
   \* the image of a node is the node with every periodic min coordinate moved to the max side
   /\ \A i \in Eliminated : LET x == NodeOf(i, nd, size, radix) IN
        NodeOf(ImageOf(i), nd, size, radix) = [d \in Dims(nd) |-> IF d \in per /\ x[d] = 0 THEN size[d] - 1 ELSE x[d]]
Terminates == <>(pc = "done")
==============================================================================
