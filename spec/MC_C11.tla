------------------------------- MODULE MC_C11 -------------------------------
(* Design-level check of C11: for every mesh of the lattice universes (with   *)
(* renumberings and cell permutations) the transcription ConnImpl of           *)
(* build_entities / build_inverse satisfies every relational C11 clause.       *)
(* The enumerated meshes are exported for replay on the real classes.          *)
EXTENDS MeshTopology, MC_Universe

AllDiags == [1..4 -> {0, 1}]
Universe ==
  WithNumberings(U1 \cup U2q \cup U3t \cup U3h
                 \cup {SortCells(m) : m \in U2tOf(AllDiags, {1..8, {1,2,3}, {1,4,5,8}, {2,3,6,7}, {1,2,3,4,5,6}, {3}, {1,8}})}
                 \cup {SortCells(m) : m \in U2tOf({[sq \in 1..4 |-> 0], [sq \in 1..4 |-> sq % 2]}, NonEmptySubsets(1..8))})

ASSUME IOEnv.OUT_FILE = "" \/ JsonSerialize(IOEnv.OUT_FILE, SetToSeq(Universe))

VARIABLES m, c, failed
vars == <<m, c, failed>>

Init == m \in Universe /\ c = <<>> /\ failed = {}
Compute == /\ c = <<>>
           /\ c' = ConnImpl(m.kind, m.nv, m.t, CodeLF(m.kind), CodeLE(m.kind), CodeLFE(m.kind))
           /\ failed' = Failed(ConnClauses(c'))
           /\ UNCHANGED m
Spec == Init /\ [][Compute]_vars

ClausesHold == failed = {}
\* the transcription reproduces the hexahedral facet cycle and sorted simplicial facets
TypeOK == c # <<>> => Len(c.t2f) = Len(m.t)
==============================================================================
