SPECIFICATION Spec
CONSTANT DupModel = "current"
INVARIANT ClausesHold
CHECK_DEADLOCK FALSE
