SPECIFICATION Spec
CONSTANT Scope = "full"
CONSTANT Decoder = "fixed"
INVARIANT RoundTripHolds
CHECK_DEADLOCK FALSE
