"""X06 - rcm and adaptive_theta (extended coverage beyond the listed properties; NOT registered in MANIFEST.json).

`rcm(A, b)` must return the SAME linear system reordered by a permutation; `adaptive_theta(est, theta, max)` must mark
exactly the cells whose indicator exceeds theta times the reference maximum.  Integer data (theta a dyadic rational),
verdicts by spec/TraceX06.tla against spec/UtilsMisc.tla.
"""
import json

import numpy as np

from ..core import guarded

RULE = 'scenario = (utility, integer data); distinct = distinct recipes.'


def execute(rec):
    import scipy.sparse as sp
    import skfem.utils as su
    if rec['u'] == 'rcm':
        A = np.array(rec['A'], dtype=np.float64)
        b = np.array(rec['b'], dtype=np.float64)
        fmt = rec.get('fmt', 'csr')
        out, err = guarded(lambda: su.rcm(getattr(sp, fmt + '_matrix')(A), b), 30)
        ev = {'a': 'Rcm', 'err': err, 'A': rec['A'], 'b': rec['b'], 'x': rec['x'], 'Ao': [], 'bo': [], 'p': []}
        if not err:
            Ao, bo, p = out
            ev['Ao'] = [[int(round(v)) for v in row] for row in np.asarray(Ao.todense())]
            ev['bo'] = [int(round(v)) for v in np.asarray(bo).ravel()]
            ev['p'] = [int(v) + 1 for v in np.asarray(p).ravel()]
        return [ev]
    est = np.array(rec['est'], dtype=np.float64)
    theta = rec['thn'] / rec['thd']
    kw = {'max': float(rec['max'])} if rec['hasmax'] else {}
    out, err = guarded(lambda: su.adaptive_theta(est, theta, **kw), 30)
    ev = {'a': 'Theta', 'err': err, 'est': rec['est'], 'thn': rec['thn'], 'thd': rec['thd'], 'hasmax': rec['hasmax'],
          'max': rec['max'], 'res': []}
    if not err:
        ev['res'] = [int(v) + 1 for v in np.asarray(out).ravel()]
    return [ev]


def generate(tier, seed):
    rng = np.random.default_rng(606 + seed)
    recs = []
    for k in range(60 if tier == 'quick' else 600):
        n = int(rng.integers(1, 8))
        A = rng.integers(-4, 5, size=(n, n)) * (rng.random((n, n)) < 0.45)
        if k % 2 == 0:
            A = A + A.T                                   # structurally symmetric half of the time
        recs.append({'driver': 'utils', 'u': 'rcm', 'A': A.astype(int).tolist(), 'b': [int(v) for v in rng.integers(-9, 10, n)],
                     'x': [int(v) for v in rng.integers(-5, 6, n)], 'fmt': ['csr', 'csc'][k % 3 == 2]})
    for k in range(80 if tier == 'quick' else 800):
        n = int(rng.integers(1, 10))
        est = [int(v) for v in rng.integers(0, 17, n)]
        thd = int(2 ** rng.integers(0, 5))
        thn = int(rng.integers(0, thd + 2))
        hasmax = int(rng.random() < 0.3)
        recs.append({'driver': 'utils', 'u': 'theta', 'est': est, 'thn': thn, 'thd': thd, 'hasmax': hasmax,
                     'max': int(rng.integers(1, 20))})
    return recs


def run(ctx):
    recs = generate(ctx.tier, ctx.seed)
    scs = [{'id': f'X06-{k}', 'recipe': r, 'tags': {'u': r['u']}, 'events': execute(r)} for k, r in enumerate(recs)]
    ctx.validate('TraceX06', scs)
    ctx.notes['distinct_nontrivial'] = len({json.dumps(r, sort_keys=True) for r in recs})
    return ctx.finish(rule=RULE, assumptions=['extended coverage: not one of the listed properties'], exhaustive=False)


def replay(ctx, doc):
    sc = doc['scenario']
    ctx.validate('TraceX06', [{'id': sc['id'], 'recipe': sc['recipe'], 'tags': sc.get('tags', {}), 'events': execute(sc['recipe'])}])
    return ctx.finish(rule=RULE)
