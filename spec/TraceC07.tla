------------------------------ MODULE TraceC07 ------------------------------
(* code -> spec: validates DOF queries recorded from real Basis objects        *)
(* against the C07 semantics of Dofs.tla.  The first event of a scenario       *)
(* (pos = 1, a = "Basis") carries the mesh connectivity, the element's DOF     *)
(* signature and names and the entity tables the code reports; the following   *)
(* events are queries on that basis:                                           *)
(*   a = "Query"      : get_dofs(...) in several selector forms + view op      *)
(*   a = "Complement" : complement_dofs(...)                                   *)
(*   a = "Support"    : recorded trace support on selected facets (law)        *)
EXTENDS Dofs

Batch  == JsonDeserialize(IOEnv.TRACE_FILE)
Events == Batch.events
NEv    == Len(Events)

VARIABLES i, st, bad, cnt
vars == <<i, st, bad, cnt>>

Clauses(e, b) ==
  IF e.a = "Basis" THEN [WellFormed |-> BasisWellFormed(e)]
                        @@ (IF BasisWellFormed(e) /\ HasComp(e) THEN [CompositeNames |-> CompositeNames(e)] ELSE <<>>)
  ELSE IF b = <<>> THEN [BasisAvailable |-> FALSE]
  ELSE IF e.a = "Query" THEN QueryClauses(b, e)
  ELSE IF e.a = "Complement" THEN ComplementClauses(b, e)
  ELSE IF e.a = "Support" THEN TraceSupportClauses(b, e)
  ELSE [UnknownEvent |-> FALSE]

Bump(c, r) == [k \in DOMAIN c \cup DOMAIN r |->
                 (IF k \in DOMAIN c THEN c[k] ELSE 0) + (IF k \in DOMAIN r THEN 1 ELSE 0)]

Init == i = 1 /\ st = <<>> /\ bad = <<>> /\ cnt = <<>>

Step == /\ i <= NEv
        /\ LET e == Events[i]
               r == Clauses(e, IF e.pos = 1 THEN <<>> ELSE st)
               f == SetToSeq(Failed(r))
           IN /\ bad' = bad \o [k \in 1..Len(f) |-> [sid |-> e.sid, pos |-> e.pos, clause |-> f[k]]]
              /\ cnt' = Bump(cnt, r)
              /\ st'  = IF e.pos = 1 THEN (IF e.a = "Basis" /\ r.WellFormed THEN e ELSE <<>>) ELSE st
        /\ i' = i + 1

Finish == /\ i = NEv + 1
          /\ JsonSerialize(IOEnv.OUT_FILE, [consumed |-> NEv, bad |-> bad, cnt |-> cnt])
          /\ i' = NEv + 2
          /\ UNCHANGED <<st, bad, cnt>>

Next == Step \/ Finish
Spec == Init /\ [][Next]_vars
==============================================================================
