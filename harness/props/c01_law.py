"""C01, law tier (mode L): outside the exact universe the three form types and Basis.interpolate are compared
with each other.  Recorded per scenario (all from arrays the code returned, in exact rational arithmetic):
    lhs = v^T A u                (A = BilinearForm(F).assemble(ubasis, vbasis))
    rhs = Functional(F(interpolate(u), interpolate(v))).assemble(ubasis)
    mag = |v|^T |A| |u| + Functional(|F(interpolate(u), interpolate(v))|) + the integrand evaluated on leaf
          magnitudes taken over all components of each field (fem.term_magnitude: single components of a mapped
          basis function can be pure round-off)                                  (group scale of the comparison)
and the analogous triple for LinearForm.  The three numbers are brought to a common power-of-two unit (mag in
[2^10, 2^11)) and written as Fx limbs; TraceC01.ConsistentLaw decides |lhs - rhs| <= TolSum * (floor(mag) + 1).
The integrands come from the same grammar as in the exact tier, over all components the element offers
(value, grad, div, curl, hess) and the default fields w.x, w.h, w.n -- always linear in u and in v.
"""
from fractions import Fraction

import numpy as np

from .. import fem
from .. import universe as U
from ..fem import guarded
from ..project import fx

ALL = ('value', 'grad', 'div', 'curl', 'hess')

LAW_ELEMS = {
    'line': [['e', 'P1'], ['e', 'P2'], ['e', 'Mini'], ['e', 'Hermite'], ['e', 'Pp3'], ['e', 'P0'], ['dg', ['e', 'P2']]],
    'tri': [['e', 'P1'], ['e', 'P2'], ['e', 'P3'], ['e', 'P4'], ['e', 'P1B'], ['e', 'P2B'], ['e', 'CR'], ['e', 'RT1'],
            ['e', 'RT2'], ['e', 'BDM1'], ['e', 'N1'], ['e', 'N2'], ['e', 'Morley'], ['e', 'Argyris'], ['e', 'Hermite'],
            ['e', 'HHJ0'], ['e', 'HHJ1'], ['e', 'P0'], ['dg', ['e', 'P2']], ['vec', ['e', 'P2']],
            ['comp', ['vec', ['e', 'P2']], ['e', 'P1']], ['comp', ['e', 'RT1'], ['e', 'P0']], ['e', 'P1G'], ['e', 'P2G']],
    'quad': [['e', 'P1'], ['e', 'P2'], ['e', 'S2'], ['e', 'BFS'], ['e', 'RT1'], ['e', 'N1'], ['e', 'P0'], ['e', 'Qp3'],
             ['vec', ['e', 'P1']], ['comp', ['vec', ['e', 'P2']], ['e', 'P1']], ['dg', ['e', 'P1']], ['e', 'P2G']],
    'tet': [['e', 'P1'], ['e', 'P2'], ['e', 'RT1'], ['e', 'N1'], ['e', 'Mini'], ['e', 'CR'], ['e', 'CCR'], ['e', 'P0'],
            ['vec', ['e', 'P1']]],
    'hex': [['e', 'P1'], ['e', 'P2'], ['e', 'S2'], ['e', 'RT1'], ['e', 'C1'], ['e', 'P0'], ['vec', ['e', 'P1']]],
}
# elements that only make sense on affine / axis-parallel cells are still fine here: the law is algebraic


def law_mesh(mr):
    """meshes outside the exact universe: refined unit meshes with jiggled interior vertices, float Delaunay meshes,
    curved second-order meshes"""
    import skfem
    fam, kind = mr['family'], mr['kind']
    rng = np.random.default_rng(mr['seed'])
    if fam == 'refined':
        cls = {'line': skfem.MeshLine, 'tri': skfem.MeshTri, 'quad': skfem.MeshQuad, 'tet': skfem.MeshTet,
               'hex': skfem.MeshHex}[kind]
        m = cls().refined(mr['nref'])
        if mr.get('jiggle'):
            p = m.p.copy()
            inner = m.interior_nodes()
            h = 0.5 ** mr['nref']
            p[:, inner] += (rng.random((p.shape[0], len(inner))) - 0.5) * 0.3 * h
            m = cls(p, m.t)
        return m
    if fam == 'delaunay':
        from scipy.spatial import Delaunay
        dim = 2 if kind == 'tri' else 3
        P = rng.random((mr['npts'], dim))
        T = Delaunay(P).simplices
        keep = [s for s in T if abs(np.linalg.det(P[s[1:]] - P[s[0]])) > 1e-3]
        p, t = U.submesh(P.T, np.array(keep).T, range(len(keep)))
        return (skfem.MeshTri if dim == 2 else skfem.MeshTet)(p, t)
    if fam == 'curved':
        if kind == 'tri':
            return skfem.MeshTri2.init_circle(mr.get('nref', 1))
        m = skfem.MeshQuad().refined(1)
        m2 = skfem.MeshQuad2.from_mesh(m)
        from dataclasses import replace
        d = m2.doflocs.copy()
        nv = m.p.shape[1]
        d[:, nv:] += (rng.random(d[:, nv:].shape) - 0.5) * 0.05
        return replace(m2, doflocs=d)
    raise ValueError(fam)


def _basis(mesh, kind, bs):
    return fem.make_basis(mesh, kind, bs)


def _norm(lhs, rhs, mag):
    """common power-of-two unit: mag in [2^10, 2^11)"""
    if mag == 0:
        return None
    sh = 0
    while mag * Fraction(2) ** (-sh) >= 2048:
        sh += 1
    while mag * Fraction(2) ** (-sh) < 1024:
        sh -= 1
    f = Fraction(2) ** (-sh)
    return lhs * f, rhs * f, mag * f


def exec_law(rec):
    from skfem import BilinearForm, LinearForm, Functional
    kind = rec['mesh']['kind']

    def run():
        mesh = law_mesh(rec['mesh'])
        bu = _basis(mesh, kind, rec['bu'])
        bv = _basis(mesh, kind, rec['bv']) if rec.get('bv') else bu
        acc_u, acc_v = fem.accessors(bu.basis[0], ALL), fem.accessors(bv.basis[0], ALL)
        defaults = bu.default_parameters()
        facc = {n: fem.accessors(defaults[n], ('value',)) for n in defaults}
        kw = {}
        if rec.get('cvec') is not None:
            kw['c'] = bu.interpolate(np.array(rec['cvec'], dtype=np.float64))
            facc['c'] = fem.accessors(kw['c'], ALL)
        accs = {'u': acc_u, 'v': acc_v, 'f': facc}
        prm = {'alpha': rec['alpha']}
        laws = []
        F = rec['bil']
        # the matrix gets the raw coefficient vector (interpolated by the code with the trial basis, form.py),
        # the functional the pre-interpolated field ubasis.interpolate(vector)
        kwA = {'c': np.array(rec['cvec'], dtype=np.float64)} if rec.get('cvec') is not None else {}
        A = BilinearForm(fem.bilinear_callable(F, accs, len(bu.basis[0]))).assemble(bu, bv, **kwA, **prm)
        fcall = fem.functional_callable(F, accs, 'uh', 'vh')
        fun = Functional(fcall)
        fabs = Functional(lambda w: np.abs(fcall(w)))
        Fm = {n: fem.field_magnitudes(defaults[n], ('value',)) for n in defaults}
        if 'c' in kw:
            Fm['c'] = fem.field_magnitudes(kw['c'], ALL)
        for (u, v) in rec['pairs']:
            u, v = np.array(u, dtype=np.float64), np.array(v, dtype=np.float64)
            uh, vh = bu.interpolate(u), bv.interpolate(v)
            s = fun.assemble(bu, uh=uh, vh=vh, **dict(kw), **prm)
            sa = fabs.assemble(bu, uh=uh, vh=vh, **dict(kw), **prm)
            lhs, m1 = fem.frac_pairing(A, v, u)
            floor = fem.term_magnitude(F, fem.leaf_magnitudes(bu, u, ALL), fem.leaf_magnitudes(bv, v, ALL), Fm, prm, accs, bu.dx)
            laws.append(('bil', lhs, Fraction(float(s)), m1 + abs(Fraction(float(sa))) + floor))
        Fl = rec['lin']
        dv = bv.default_parameters()
        faccv = {n: fem.accessors(dv[n], ('value',)) for n in dv}
        accl = {'v': acc_v, 'f': faccv}
        b = LinearForm(fem.linear_callable(Fl, accl)).assemble(bv, **prm)
        lcall = fem.functional_callable(Fl, accl, None, 'vh')
        Fmv = {n: fem.field_magnitudes(dv[n], ('value',)) for n in dv}
        for v in rec['lpairs']:
            v = np.array(v, dtype=np.float64)
            vh = bv.interpolate(v)
            s = Functional(lcall).assemble(bv, vh=vh, **prm)
            sa = Functional(lambda w: np.abs(lcall(w))).assemble(bv, vh=vh, **prm)
            lhs, m1 = fem.frac_dot(b, v)
            floor = fem.term_magnitude(Fl, None, fem.leaf_magnitudes(bv, v, ALL), Fmv, prm, accl, bv.dx)
            laws.append(('lin', lhs, Fraction(float(s)), m1 + abs(Fraction(float(sa))) + floor))
        return laws
    laws, err = guarded(run, 120)
    ev = {'a': 'Law', 'err': err, 'laws': []}
    if not err:
        for name, lhs, rhs, mag in laws:
            nm = _norm(lhs, rhs, mag)
            if nm is None:
                continue
            ev['laws'].append({'name': name, 'lhs': fx(nm[0]), 'rhs': fx(nm[1]), 'mag': fx(nm[2])})
    return [ev]


def gen_law(rng, tier):
    kind = str(rng.choice(['line', 'tri', 'tri', 'tri', 'quad', 'quad', 'tet', 'hex']))
    r = rng.integers(0, 10)
    if kind in ('tri', 'quad') and r == 0:
        mr = {'family': 'curved', 'kind': kind, 'seed': int(rng.integers(1, 10 ** 6)), 'nref': 1}
    elif kind in ('tri', 'tet') and r <= 3:
        mr = {'family': 'delaunay', 'kind': kind, 'seed': int(rng.integers(1, 10 ** 6)),
              'npts': int(rng.integers(5, 12)) if kind == 'tri' else int(rng.integers(5, 9))}
    else:
        nref = {'line': 2, 'tri': int(rng.integers(1, 3)), 'quad': int(rng.integers(1, 3)), 'tet': 1, 'hex': 1}[kind]
        mr = {'family': 'refined', 'kind': kind, 'nref': nref, 'jiggle': int(rng.integers(0, 2)),
              'seed': int(rng.integers(1, 10 ** 6))}
    try:
        mesh = law_mesh(mr)
    except Exception:
        return None
    elems = LAW_ELEMS[kind]
    eu = elems[int(rng.integers(0, len(elems)))]
    ev = elems[int(rng.integers(0, len(elems)))] if rng.integers(0, 2) else eu
    btype = str(rng.choice(['cell', 'cell', 'cell', 'cellsub', 'facet', 'ifacet'])) if kind != 'line' else \
        str(rng.choice(['cell', 'cellsub']))
    bs = {'intorder': int(rng.integers(2, 6))}
    nt = mesh.t.shape[1]
    if btype in ('cell', 'cellsub'):
        bs['type'] = 'cell'
        if btype == 'cellsub':
            bs['elements'] = sorted(int(x) for x in rng.permutation(nt)[:max(1, nt // 3)])
    elif btype == 'facet':
        bs['type'] = 'facet'
        if rng.integers(0, 2):
            bf = mesh.boundary_facets()
            bs['facets'] = [int(x) for x in bf[rng.permutation(len(bf))[:max(1, len(bf) // 2)]]]
    else:
        bs['type'] = 'ifacet'
    bu_s, bv_s = dict(bs, elem=eu), dict(bs, elem=ev)
    if bs['type'] == 'ifacet':
        bu_s['side'], bv_s['side'] = int(rng.integers(0, 2)), int(rng.integers(0, 2))
    same = bu_s == bv_s
    try:
        bu = _basis(mesh, kind, bu_s)
        bv = bu if same else _basis(mesh, kind, bv_s)
        ncu, ncv = len(fem.accessors(bu.basis[0], ALL)), len(fem.accessors(bv.basis[0], ALL))
        defaults = bu.default_parameters()
    except Exception:
        return None
    if bu.nelems == 0 or bu.N > 400 or bv.N > 400 or bu.Nbfun * bv.Nbfun > 500:
        return None
    avail = [(n, len(fem.accessors(defaults[n], ('value',)))) for n in sorted(defaults)]
    avail_v = list(avail)
    rec = {'driver': 'law', 'mesh': mr, 'bu': bu_s, 'bv': None if same else bv_s, 'alpha': int(rng.choice([-2, 2, 3]))}
    if rng.integers(0, 2):
        rec['cvec'] = [int(x) for x in rng.integers(-2, 3, size=bu.N)]
        avail = avail + [('c', ncu)]
    rec['bil'] = fem.gen_bilinear(rng, ncu, ncv, avail, ['alpha'])
    rec['lin'] = fem.gen_linear(rng, ncv, avail_v, ['alpha'])

    def unit(n, j):
        e = [0] * n
        e[j] = 1
        return e
    # unit vectors addressing the largest and the least-shared DOF, and random integer vectors
    cnt_u = np.bincount(np.asarray(bu.element_dofs).ravel(), minlength=bu.N)
    cnt_v = np.bincount(np.asarray(bv.element_dofs).ravel(), minlength=bv.N)
    rv = lambda n: [int(x) for x in rng.integers(-3, 4, size=n)]
    rec['pairs'] = [[rv(bu.N), rv(bv.N)],
                    [unit(bu.N, bu.N - 1), rv(bv.N)],
                    [rv(bu.N), unit(bv.N, int(np.argmin(np.where(cnt_v > 0, cnt_v, 10 ** 6))))],
                    [unit(bu.N, int(np.argmax(cnt_u))), unit(bv.N, int(np.argmax(cnt_v)))]]
    rec['lpairs'] = [rv(bv.N), unit(bv.N, bv.N - 1)]
    tags = {'kind': kind, 'btype': btype, 'eu': fem.elem_name(eu), 'ev': fem.elem_name(ev), 'tier': 'law',
            'family': mr['family'], 'rect': int(eu != ev)}
    return rec, tags


def generate(ctx):
    n = 4000 if ctx.tier == 'thorough' else 190
    rng = np.random.default_rng(ctx.seed + 103)
    out, k, tries = [], 0, 0
    while k < n and tries < 4 * n:
        tries += 1
        g = gen_law(rng, ctx.tier)
        if g is None:
            continue
        out.append((f'C01-law-{k}', g[0], g[1]))
        k += 1
    return out


def _fxval(a):
    return sum(Fraction(int(x), 2 ** (14 * j)) for j, x in enumerate(a))


def calibration(scs):
    """largest observed |lhs - rhs| in units of the tolerance (evidence only; the verdict is TLC's)"""
    worst, n = Fraction(0), 0
    for s in scs:
        for e in s['events']:
            if e.get('a') != 'Law' or e.get('err'):
                continue
            for l in e['laws']:
                tol = Fraction(1, 2 ** 40) * (l['mag'][0] + 1)
                worst = max(worst, abs(_fxval(l['lhs']) - _fxval(l['rhs'])) / tol)
                n += 1
    return {'laws_evaluated': n, 'max_observed_difference_in_units_of_tolerance': float(worst),
            'margin_factor': float(1 / worst) if worst else None}
