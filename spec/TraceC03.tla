------------------------------ MODULE TraceC03 ------------------------------
(* code -> spec for C03: validates the one-sided traces recorded from          *)
(* InteriorFacetBasis(side=0) / (side=1) of the real classes.                  *)
(* Events of a scenario (same sid):                                            *)
(*   pos 1  "Setup"  elem, tolclass, kind, p (integer vertex coordinates, <<>>  *)
(*                   for curved meshes), fv (vertex ids of every interior      *)
(*                   facet), ndofs, groups (what the driver recorded)          *)
(*   then   "Group"  q ("value"|"grad"), at ("all"|"mid"|"ends"), ncomp, nq,   *)
(*                   items [d, f, a, b] = traces of global DOF d on interior   *)
(*                   facet f from side 0 / side 1 (component-major Fx limbs)   *)
EXTENDS Conformity

Batch  == JsonDeserialize(IOEnv.TRACE_FILE)
Events == Batch.events
NEv    == Len(Events)

VARIABLES i, st, bad, cnt
vars == <<i, st, bad, cnt>>

NoState == [ok |-> FALSE]

SetupWF(e) ==
  /\ e.err = ""
  /\ Len(e.fv) >= 1
  /\ e.ndofs >= 1
  /\ (e.p # <<>>) => \A f \in DOMAIN e.fv : \A j \in DOMAIN e.fv[f] : e.fv[f][j] \in DOMAIN e.p
  /\ Len(e.t) >= 2

Reqs(s, e) == {r \in ContinuityClass(ElemClass(s.elem)) : r.q = e.q /\ r.at = e.at}

\* geometry is needed for the projected requirements
GeometryAvailable(s, rs) == (\E r \in rs : r.proj # "full") => s.p # <<>>

Eval(e, s) ==
  CASE e.a = "Setup" ->
         IF e.err = "NoInteriorFacet" THEN [cl |-> <<>>, info |-> {"Info_NoInteriorFacet"}, st |-> NoState]
         ELSE IF ~SetupWF(e) THEN [cl |-> [SetupWellFormed |-> FALSE], info |-> {}, st |-> NoState]
         ELSE IF ElemClass(e.elem) = "none" THEN [cl |-> [SetupWellFormed |-> TRUE], info |-> {"Info_NotDriven"}, st |-> NoState]
         ELSE [cl |-> [SetupWellFormed |-> TRUE,
                       \* everything the specification requires for this family is recorded by the driver
                       ObservationsComplete |-> \A r \in ContinuityClass(ElemClass(e.elem)) :
                                                   \E j \in DOMAIN e.groups : e.groups[j].q = r.q /\ e.groups[j].at = r.at],
               info |-> {"Info_class_" \o ElemClass(e.elem)} \cup (IF e.curved = 1 THEN {"Info_CurvedMesh"} ELSE {}),
               st |-> [ok |-> TRUE, elem |-> e.elem, tol |-> TolFor(e.tolclass), p |-> e.p, fv |-> e.fv, t |-> e.t, ndofs |-> e.ndofs]]
    [] e.a = "Group" ->
         IF ~s.ok THEN [cl |-> <<>>, info |-> {"Info_Skipped"}, st |-> s]
         ELSE IF e.err # "" THEN [cl |-> [NoUnexpectedError |-> FALSE], info |-> {}, st |-> s]
         ELSE LET rs == Reqs(s, e) IN
           IF rs = {} THEN [cl |-> <<>>, info |-> {"Info_GroupNotRequired"}, st |-> s]
           ELSE IF ~(GeometryAvailable(s, rs) /\ e.ncomp >= 1 /\ e.nq >= 1
                     /\ \A j \in DOMAIN e.items : ItemWF(e.items[j], e, s.ndofs, Len(s.fv)))
                THEN [cl |-> [GroupWellFormed |-> FALSE], info |-> {}, st |-> s]
           ELSE [cl |-> [GroupWellFormed |-> TRUE, NoUnexpectedError |-> TRUE,
                         \* the two one-sided bases live on the two different cells that own the facet
                         SidesAreTheTwoNeighbours |->
                            /\ Len(e.tind0) = Len(s.fv) /\ Len(e.tind1) = Len(s.fv)
                            /\ \A f \in DOMAIN s.fv :
                                  /\ e.tind0[f] \in DOMAIN s.t /\ e.tind1[f] \in DOMAIN s.t
                                  /\ e.tind0[f] # e.tind1[f]
                                  /\ VSet(s.fv[f]) \subseteq VSet(s.t[e.tind0[f]])
                                  /\ VSet(s.fv[f]) \subseteq VSet(s.t[e.tind1[f]]),
                         JumpZero |-> \A j \in DOMAIN e.items : \A r \in rs :
                                         JumpZeroItem(e.items[j], [proj |-> r.proj, ncomp |-> e.ncomp, nq |-> e.nq],
                                                      s.p, s.fv[e.items[j].f], s.tol)],
                 info |-> {"Info_" \o e.q \o "_" \o e.at} \cup {"Info_proj_" \o r.proj : r \in rs}
                          \cup (IF e.items = <<>> THEN {"Info_NoItems"} ELSE {}),
                 st |-> s]
    [] OTHER -> [cl |-> [KnownEvent |-> FALSE], info |-> {}, st |-> s]

Bump(c, names) == [k \in DOMAIN c \cup names |->
                     (IF k \in DOMAIN c THEN c[k] ELSE 0) + (IF k \in names THEN 1 ELSE 0)]

Init == i = 1 /\ st = NoState /\ bad = <<>> /\ cnt = <<>>

Step == /\ i <= NEv
        /\ LET e == Events[i]
               r == Eval(e, IF e.pos = 1 THEN NoState ELSE st)
               f == SetToSeq(Failed(r.cl))
           IN /\ bad' = bad \o [k \in 1..Len(f) |-> [sid |-> e.sid, pos |-> e.pos, clause |-> f[k]]]
              /\ cnt' = Bump(cnt, DOMAIN r.cl \cup r.info)
              /\ st'  = r.st
        /\ i' = i + 1

Finish == /\ i = NEv + 1
          /\ JsonSerialize(IOEnv.OUT_FILE, [consumed |-> NEv, bad |-> bad, cnt |-> cnt])
          /\ i' = NEv + 2
          /\ UNCHANGED <<st, bad, cnt>>

Next == Step \/ Finish
Spec == Init /\ [][Next]_vars
==============================================================================
