"""C12 - uniform refinement preserves domain, conformity and named regions.

V : every uniform refinement step executed on the real Mesh classes (first- and second-order) for tagged universe
    meshes, k <= 2, and the histories Refine o Restrict, Refine o Refine, Refine o Adapt is validated by
    spec/TraceC12.tla against the relational clauses of spec/Refinement.tla (exact integer geometry).
M : spec/MC_C12.cfg - TLC checks the transcriptions (spec/RefineImpl.tla) of the segment / triangle / quadrilateral
    uniform refinement incl. facet maps and the generic sub-domain propagation against the same clauses.
"""
import itertools
import json
import os

import numpy as np

from .. import universe as U
from ..core import MachineryError
from ..refine_common import execute, tagged

RULE = ('scenario = tagged initial mesh (integer coordinates; random sub-domain and boundary tags incl. interior facets) '
        '+ operation sequence; one event per refinement step with the abstract mesh before/after. Non-trivial = mesh '
        'with >= 2 cells and at least one tag; distinct = distinct (class, p, t, tags, ops).')


def initial_meshes(rng, tier):
    thorough = tier == 'thorough'
    out = []
    # segments (several components allowed)
    for pts, cells in (([0, 1, 2, 3], None), ([0, 2, 3, 7], None), ([0, 1, 2, 4, 5], [0, 1, 3])):
        p, t = U.line_points(pts)
        if cells is not None:
            p, t = U.submesh(p, t, cells)
        out.append(('line', 'MeshLine1', p, t))
    # triangles
    diags = [(0, 0, 0, 0), (0, 1, 1, 0), (1, 0, 1, 1)] + ([(1, 1, 1, 1), (0, 1, 0, 1)] if thorough else [])
    for dg in diags:
        p, t = U.tri_lattice(2, 2, dg)
        subs = [tuple(range(8)), (0, 1, 2), (0, 3, 4, 7), (1, 2, 5, 6), (2,)]
        for s in subs:
            ps, ts = U.submesh(p, t, s)
            out.append(('tri', 'MeshTri1', ps, ts))
    p, t = U.tri_lattice(2, 2, (0, 1, 1, 0), jiggle=[(4, 0.25, 0.5)])
    out.append(('tri', 'MeshTri1', p * 4, t))
    for j in range(6 if thorough else 2):
        p, t = U.delaunay_int(2, int(rng.integers(5, 9)), 5, rng)
        if t.shape[1] >= 2 and conforming_2d(p, t):
            out.append(('tri', 'MeshTri1', p, t))
    # quadrilaterals (incl. non-parallelogram cells and cyclic shifts)
    for (nx, ny, jig) in ((2, 2, None), (2, 2, [(4, 0.5, 0.25)]), (2, 1, None), (1, 1, None)):
        p, t = U.quad_grid(nx, ny, jiggle=jig)
        if jig:
            p = p * 4
        out.append(('quad', 'MeshQuad1', p, t))
        t2 = U.apply_local_orders('quad', t, rng)
        out.append(('quad', 'MeshQuad1', p, t2))
    p, t = U.quad_grid(2, 2)
    ps, ts = U.submesh(p, t, (0, 1, 3))
    out.append(('quad', 'MeshQuad1', ps, ts))
    # tetrahedra
    for (n, split) in ((1, 6), (1, 5)) + (((2, 6),) if thorough else ()):
        p, t = U.tet_cubes(n, split)
        out.append(('tet', 'MeshTet1', p, t))
        ps, ts = U.submesh(p, t, (0, 1, 2))
        out.append(('tet', 'MeshTet1', ps, ts))
    # hexahedra
    for dims in ((1, 1, 1), (2, 1, 1)):
        p, t = U.hex_grid(*dims)
        out.append(('hex', 'MeshHex1', p, t))
    # strongly tapered hexahedra with planar faces (frustum): centre = mean of the eight corners, not a diagonal midpoint
    P = np.array([[0, 0, 0], [16, 0, 0], [16, 16, 0], [0, 16, 0], [7, 7, 8], [9, 7, 8], [9, 9, 8], [7, 9, 8]], dtype=float)
    ref = U.REF_HEX        # local order of the code: corner (a, b, c) of the unit cube
    def frustum_cell(P0):
        idx = {(0, 0, 0): 0, (1, 0, 0): 1, (1, 1, 0): 2, (0, 1, 0): 3, (0, 0, 1): 4, (1, 0, 1): 5, (1, 1, 1): 6, (0, 1, 1): 7}
        return [idx[tuple(int(v) for v in c)] for c in ref]
    out.append(('hex', 'MeshHex1', P.T, np.array([frustum_cell(P)]).T))
    P2 = np.vstack((P, np.array([[7, 7, 16], [9, 7, 16], [9, 9, 16], [7, 9, 16]], dtype=float)))     # a prism on top
    c0 = frustum_cell(P)
    c1 = [{0: 4, 1: 5, 2: 6, 3: 7, 4: 8, 5: 9, 6: 10, 7: 11}[v] for v in c0]
    out.append(('hex', 'MeshHex1', P2.T, np.array([c0, c1]).T))
    # trailing vertices used by no cell (stray nodes of a mesh file): legal for the constructors
    for kind_, cls_, (p_, t_) in (('quad', 'MeshQuad1', U.quad_grid(2, 1)), ('tri', 'MeshTri1', U.tri_lattice(1, 1, (0,))),
                                  ('line', 'MeshLine1', U.line_points([0, 1, 2])), ('tet', 'MeshTet1', U.tet_cubes(1, 5)),
                                  ('hex', 'MeshHex1', U.hex_grid(1, 1, 1))):
        extra = np.full((p_.shape[0], 2), 7.0)
        extra[0, 1] = 9.0
        out.append((kind_, cls_, np.hstack((p_, extra)), t_))
    # second-order classes with straight facets
    p, t = U.tri_lattice(2, 1, (0, 1))
    out.append(('tri', 'MeshTri2', p, t))
    p, t = U.quad_grid(2, 1)
    out.append(('quad', 'MeshQuad2', p, t))
    p, t = U.tet_cubes(1, 6)
    out.append(('tet', 'MeshTet2', p, t))
    p, t = U.hex_grid(2, 1, 1)
    out.append(('hex', 'MeshHex2', p, t))
    return out


def conforming_2d(p, t):
    """Input filter (not an oracle): reject Delaunay outputs with a vertex on another triangle's edge."""
    P = p.T
    for c in range(t.shape[1]):
        for a, b in ((0, 1), (1, 2), (0, 2)):
            A, B = P[t[a, c]], P[t[b, c]]
            for v in range(P.shape[0]):
                if v in (t[a, c], t[b, c]):
                    continue
                X = P[v]
                cr = (B[0] - A[0]) * (X[1] - A[1]) - (B[1] - A[1]) * (X[0] - A[0])
                if cr == 0 and min(A[0], B[0]) <= X[0] <= max(A[0], B[0]) and min(A[1], B[1]) <= X[1] <= max(A[1], B[1]):
                    return False
    return True


def extra_meshes(rng):
    """Thorough tier only: larger lattices, more local orders, random 3-D triangulations."""
    out = []
    p, t = U.tri_lattice(3, 2, [int(v) for v in rng.integers(0, 2, 6)])
    out.append(('tri', 'MeshTri1', p, t))
    p, t = U.quad_grid(3, 2)
    out.append(('quad', 'MeshQuad1', p, U.apply_local_orders('quad', t, rng)))
    p, t = U.quad_grid(2, 2, jiggle=[(4, 0.25, 0.25)])
    out.append(('quad', 'MeshQuad1', p * 4, U.apply_local_orders('quad', t, rng)))
    for dims in ((1, 1, 1), (2, 1, 1), (1, 2, 1)):
        p, t = U.hex_grid(*dims)
        out.append(('hex', 'MeshHex1', p, U.apply_local_orders('hex', t, rng)))
    p, t = U.tet_cubes(2, 5)
    out.append(('tet', 'MeshTet1', p, t))
    for _ in range(2):
        p, t = U.delaunay_int(3, int(rng.integers(5, 8)), 3, rng)
        if 2 <= t.shape[1] <= 12:
            out.append(('tet', 'MeshTet1', p, t))
    p, t = U.line_points([0, 1, 2, 3, 5, 8])
    perm = rng.permutation(p.shape[1])
    p, t = U.renumber(p, t, perm)
    out.append(('line', 'MeshLine1', p, t))
    return out


def generate(tier, seed):
    rng = np.random.default_rng(seed + 12)
    recs = generate_round(tier, rng, initial_meshes(rng, tier))
    if tier == 'thorough':
        # more draws of tags / marked sets / kept cells on the same meshes, plus larger meshes
        for _ in range(9):
            recs += generate_round(tier, rng, initial_meshes(rng, tier))
        for _ in range(3):
            recs += generate_round(tier, rng, extra_meshes(rng))
    return recs


def generate_round(tier, rng, meshes):
    recs = []
    for kind, cls, p, t in meshes:
        nt = t.shape[1]
        three = kind in ('tet', 'hex')
        second = cls.endswith('2')
        base = tagged(kind, cls, p, t, rng)
        seqs = [[['refine', 1]]]
        if not three and not second:
            seqs.append([['refine', 2]])
            seqs.append([['refine', 1], ['refine', 1]])
        if three and tier == 'thorough' and nt <= 3 and not second:
            seqs.append([['refine', 2]])
        if nt >= 2 and not second:
            keep = sorted(int(v) for v in rng.choice(nt, size=max(1, nt - 1), replace=False))
            seqs.append([['restrict', keep], ['refine', 1]])
        if kind in ('line', 'tri') or (kind == 'tet' and nt <= 6):
            if not second:
                mk = sorted(int(v) for v in rng.choice(nt, size=int(rng.integers(1, nt + 1)), replace=False))
                seqs.append([['adapt', mk], ['refine', 1]])
        # the same object used twice: an earlier operation (result discarded) must not influence the refinement
        if kind in ('line', 'tri', 'tet') and not second and nt <= 8:
            mk = sorted(int(v) for v in rng.choice(nt, size=int(rng.integers(1, nt + 1)), replace=False))
            seqs.append([['side', ['facets', 0]], ['side', ['adapt', mk]], ['refine', 1]])
        if not second and nt <= 8 and not three:
            seqs.append([['side', ['facets', 0]], ['side', ['refine', 1]], ['refine', 1]])
        if kind in ('tri', 'tet') and not second:
            seqs.append([['oriented', 0], ['refine', 1]] + ([['refine', 1]] if kind == 'tri' else []))
            seqs.append([['side', ['facets', 0]], ['side', ['oriented', 0]], ['refine', 1]])
        for ops in seqs:
            r = dict(base)
            r['ops'] = ops
            recs.append(r)
        # triangle meshes whose connectivity is NOT ascending (sort_t=False, as produced by oriented() / adaptive
        # refinement): boundary tags must still follow the facets
        if kind == 'tri' and not second:
            t2 = U.apply_local_orders('tri', np.asarray(t), rng)
            b2 = tagged(kind, cls, p, t2, rng)
            b2['sort_t'] = False
            for ops in ([['refine', 1]], [['refine', 2]]):
                r = dict(b2)
                r['ops'] = ops
                recs.append(r)
    return recs


def scenario(sid, rec):
    return {'id': sid, 'recipe': rec,
            'tags': {'cls': rec['cls'], 'kind': rec['kind'], 'ops': '+'.join(o[0] for o in rec['ops']),
                     'sort_t': str(rec.get('sort_t', True))},
            'events': execute(rec)}


def add_event_tags(scs):
    for sc in scs:
        for ev in sc['events']:
            ev['tags'] = {'step': ev['op'], 'pre_cls': ev['pre']['cls']}


def _check_harness(ctx):
    for f in ctx.failures:
        if f['clause'] == 'HarnessInputWellFormed':
            raise MachineryError('harness produced a malformed refinement event: ' + f['scenario']['id'])


def run(ctx):
    ctx.model_must_hold('MC_C12', 'MC_C12.cfg', timeout=1500, label='uniform refinement transcriptions satisfy the clauses')
    old = ctx.tlc_model('MC_C12', 'MC_C12_old.cfg', timeout=900,
                        label='regression model: generic sub-domain propagation on segments (before fix b43803f)')
    ctx.notes['old_generic_propagation_on_segments_refuted_by_tlc'] = bool(old['violated'])
    if not old['violated']:
        raise MachineryError('MC_C12 does not refute the pre-repair segment propagation')
    recs = generate(ctx.tier, ctx.seed)
    scs = [scenario(f'C12-{k}', r) for k, r in enumerate(recs)]
    add_event_tags(scs)
    if ctx.tier == 'thorough':
        # refinement calls made by the repository's own tests (recorded under wrappers), judged by the same clauses
        from .. import suite
        ev = suite.record(ctx)
        for j, e in enumerate(ev['refine']):
            if e['a'] != 'Refine':
                continue
            e['tags'] = {'step': e['op'], 'pre_cls': e['pre']['cls']}
            scs.append({'id': f'C12-suite-{j}', 'recipe': {'driver': 'suite', 'test': e.pop('test', '')},
                        'tags': {'cls': e['pre']['cls'], 'kind': e['pre']['kind'], 'ops': 'suite'}, 'events': [e]})
    ctx.validate('TraceC12', scs)
    _check_harness(ctx)
    ctx.notes['distinct_nontrivial'] = len({json.dumps(r, sort_keys=True) for r in recs if len(r['t'][0]) >= 2})
    return ctx.finish(rule=RULE, assumptions=[
        'initial meshes are valid, conforming, straight-sided, with integer coordinates; every midpoint created is '
        'integral after scaling by a power of two (exact geometry)',
        'hexahedral cells have planar faces (box-like); quadrilateral cells are convex'], exhaustive=False)


def replay(ctx, doc):
    sc = doc['scenario']
    scs = [scenario(sc['id'], sc['recipe'])]
    add_event_tags(scs)
    ctx.validate('TraceC12', scs)
    _check_harness(ctx)
    return ctx.finish(rule=RULE)
