SPECIFICATION Spec
CONSTANTS
  MeshUniverse <- MCUniverse
  EARLYSTOP = FALSE
  SWAPBLUE = FALSE
INVARIANT ClausesHold
INVARIANT LoopBounded
INVARIANT ClosureIsLeastFixpoint
PROPERTY Termination
CHECK_DEADLOCK FALSE
