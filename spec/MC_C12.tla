------------------------------- MODULE MC_C12 -------------------------------
(* Design-level check of C12: the transcriptions of uniform refinement of      *)
(* segments, triangles and quadrilaterals (UniformOps.tla) satisfy the          *)
(* relational clauses of Refinement.tla for every mesh of the lattice           *)
(* universes, with EVERY single facet (boundary and interior) and every single  *)
(* cell tagged, applied once and twice.  OLDGEN = the generic sub-domain         *)
(* propagation on segments (before fix b43803f) is refuted.                      *)
EXTENDS UniformOps

CONSTANT OLDGEN

Scale(m, c) == [m EXCEPT !.p = [v \in DOMAIN m.p |-> [i \in DOMAIN m.p[v] |-> c * m.p[v][i]]]]
FacetSeqs(m) == LET lf == CodeLF(m.kind)
                    keys == SetToSeq({LKey(m.t[k], lf[s]) : k \in DOMAIN m.t, s \in DOMAIN lf})
                IN [q \in DOMAIN keys |-> SortedSeq(keys[q])]
Tagged(m, cls) ==
  LET fs == FacetSeqs(m) IN
  [kind |-> m.kind, cls |-> cls, p |-> m.p, t |-> m.t,
   sub |-> [k \in DOMAIN m.t |-> <<ToString(k), <<k>>>>] \o <<<<"odd", SortedSeq({k \in DOMAIN m.t : k % 2 = 1})>>>>,
   bnd |-> [q \in DOMAIN fs |-> <<ToString(q), <<fs[q]>>>>] \o <<<<"all", fs>>>>,
   hassub |-> 1, hasbnd |-> 1]
TriSubs  == {{1}, {1, 2}, {1, 2, 3}, {2, 3, 6, 7}, {1, 4, 5, 8}, {3, 4}}
Universe ==
     {Tagged(Scale(m, 4), "MeshLine1") : m \in U1}
  \cup {Tagged(Scale(SortCells(m), 4), "MeshTri1") :
          m \in U2tOf({[sq \in 1..4 |-> 0], [sq \in 1..4 |-> IF sq \in {2, 3} THEN 1 ELSE 0]}, TriSubs)}
  \cup {Tagged(Scale(m, 16), "MeshQuad1") : m \in {q \in U2q : Len(q.t) <= 3}}

VARIABLES m, step, failed
vars == <<m, step, failed>>
Init == m \in Universe /\ step = 0 /\ failed = {}
Ev(pre, post) == [a |-> "Refine", err |-> "", pre |-> pre, post |-> post, k |-> 1, marked |-> <<>>,
                  warned_s |-> 0, warned_b |-> 0]
Refine == /\ step < (IF m.kind = "line" THEN 2 ELSE 1)          \* segments twice (coordinates scaled by 4)
          /\ LET post == UniformImpl(m, OLDGEN) IN
             /\ failed' = Failed(RefineClauses(Ev(m, post)))
             /\ m' = post
          /\ step' = step + 1
Spec == Init /\ [][Refine]_vars
ClausesHold == failed = {}
==============================================================================
