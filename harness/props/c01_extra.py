"""C01, two further input classes.

"list"   : every form type assembled through skfem.asm over LISTS of bases - partitions of the cells, several
           boundary parts, both sides of interior facets as a product of lists with w.idx - against the single
           assemblies (TraceC01.ListAssemblySums) and mutually consistent on the SUMS (ConsistentOnSums:
           v^T A u and b^T v of the summed tensors equal the summed functionals).  Exact universe.
"normal" : the default parameter w.n of FacetBasis / InteriorFacetBasis (side 0 and 1) on non-affine cells
           (non-parallelogram quadrilaterals, hexahedra with displaced vertices, curved second-order cells) against an
           independent reference: the integer geometry of the facet (NormalOrthogonal, NormalOutward, NormalUnit), the
           basis of the other side on the same facets (SideNormalsAgree) and, in forms, the explicitly passed normal
           field of side 0 (law on pairings).  Vertex coordinates are integers, normals are logged as Fx numbers.
"""
import itertools
from fractions import Fraction

import numpy as np

from .. import fem
from .. import universe as U
from ..fem import guarded
from ..project import fx
from . import c01_law

BOUND = 2 ** 24


def _ints(a, s):
    return fem.to_ints(a, s, BOUND)


def _mat(A, S):
    trip, ok = fem.csr_trip(A, S)
    return {'shape': [int(x) for x in A.shape], 'trip': trip}, ok


class Skip(Exception):
    pass


# ------------------------------------------------------------------------------------------ asm over lists

def _exec_product(rec):
    """asm(form, [ub_0, ...], [vb_0, ...]) with two lists (possibly of different length) and an integrand that uses the
    block index w.idx = (trial position, test position) ASYMMETRICALLY: coefficient tables cu[idx[0]] * cv[idx[1]] and
    the jump of the trial function only.  Reference: the block-wise assemblies form.assemble(ub_i, vb_j, idx=(i, j))."""
    from skfem import BilinearForm, Functional, asm
    from skfem.helpers import jump
    kind = rec['mesh']['kind']

    def run():
        mesh = fem.make_mesh(rec['mesh'])
        ul = [fem.make_basis(mesh, kind, b) for b in rec['ulist']]
        vl = [fem.make_basis(mesh, kind, b) for b in rec['vlist']]
        accu, accv = fem.accessors(ul[0].basis[0]), fem.accessors(vl[0].basis[0])
        pis = [fem.basis_pi(b, accu) for b in ul] + [fem.basis_pi(b, accv) for b in vl]
        if any(p is None for p in pis):
            raise Skip()
        su = max(p['sphi'] for p in pis[:len(ul)])
        sv = max(p['sphi'] for p in pis[len(ul):])
        sdx = max(p['sdx'] for p in pis)
        cu, cv, usejump = rec['cu'], rec['cv'], rec['usejump']
        a, b = rec['comps']

        def integrand(U, V, w):
            uu = fem.comp(U, accu[a])
            if usejump:
                uu = jump(w, uu)                      # jump of the trial function only: (-1) ** idx[0]
            return cu[w.idx[0]] * cv[w.idx[1]] * uu * fem.comp(V, accv[b])
        nfu = len(ul[0].basis[0])
        fb = BilinearForm(lambda *args: integrand(args[:nfu], args[nfu:-1], args[-1]))
        fp = Functional(lambda w: integrand(w['uh'], w['vh'], w))
        u = np.array(rec['u'], dtype=np.float64)
        v = np.array(rec['v'], dtype=np.float64)
        S2 = su * sv * sdx
        A_L = asm(fb, ul, vl)
        ok = True
        parts, pparts = [], []
        for i, j in itertools.product(range(len(ul)), range(len(vl))):
            M, o = _mat(fb.assemble(ul[i], vl[j], idx=(i, j)), S2)
            ok &= o
            parts.append(M)
            p = fp.assemble(ul[i], uh=ul[i].interpolate(u), vh=vl[j].interpolate(v), idx=(i, j))
            pi = _ints(p, S2) if np.ndim(p) == 0 else None
            ok &= pi is not None
            pparts.append(int(pi or 0))
        AL, o = _mat(A_L, S2)
        ok &= o
        ev = {'a': 'List', 'err': '', 'u': [int(t) for t in rec['u']], 'v': [int(t) for t in rec['v']], 'hasp': 2,
              'A': AL, 'Aparts': parts, 'b': [], 'bparts': [[]], 's': 0, 'sparts': [0], 'p': 0, 'pparts': pparts,
              'q': 0, 'qparts': [0], 'haswhole': 0, 'wA': {'shape': [0, 0], 'trip': []}, 'wb': [], 'ws': 0}
        fem.guard_sum([t[2] for t in AL['trip']], max(map(abs, rec['u']), default=0) * max(map(abs, rec['v']), default=0))
        ev['exact'] = 1 if ok else 0
        return ev
    ev, err = guarded(run, 90)
    if err in ('Skip', 'TooLarge'):
        return []
    if err:
        ev = {'a': 'List', 'err': err}
    return [ev]


def exec_list(rec):
    from skfem import BilinearForm, LinearForm, Functional, asm
    from skfem.helpers import jump
    if rec['mode'] == 'product':
        return _exec_product(rec)
    kind = rec['mesh']['kind']

    def run():
        mesh = fem.make_mesh(rec['mesh'])
        u = np.array(rec['u'], dtype=np.float64)
        v = np.array(rec['v'], dtype=np.float64)
        prm = {'alpha': rec['alpha']}
        sides = rec['mode'] == 'sides'
        if sides:
            bases = [fem.make_basis(mesh, kind, dict(rec['bs'], side=s)) for s in (0, 1)]
        else:
            key = 'elements' if rec['bs']['type'] == 'cell' else 'facets'
            bases = [fem.make_basis(mesh, kind, dict(rec['bs'], **{key: p})) for p in rec['parts']]
        acc = fem.accessors(bases[0].basis[0])
        pis = [fem.basis_pi(b, acc) for b in bases]
        if any(p is None for p in pis):
            raise Skip()
        sphi, sdx = max(p['sphi'] for p in pis), max(p['sdx'] for p in pis)
        if sides:
            c = rec['coef']

            def bil(u_, v_, w):
                ju, jv = jump(w, u_, v_)
                return c * ju * jv

            def lin(v_, w):
                return c * jump(w, v_)

            def fun(w):
                return c * jump(w, w['vh'])          # vh: raw coefficient vector, interpolated by every basis of the list
            S2, S1, S0 = sphi * sphi * sdx, sphi * sdx, sphi * sdx
            fb, fl, ff = BilinearForm(bil), LinearForm(lin), Functional(fun)
            A_L = asm(fb, bases, bases)
            A_parts = [fb.assemble(bases[i], bases[j], idx=(i, j)) for i, j in itertools.product(range(2), range(2))]
            b_L = asm(fl, bases)
            b_parts = [fl.assemble(bases[i], idx=(i,)) for i in range(2)]
            q_L = asm(ff, bases, vh=v)
            q_parts = [ff.assemble(bases[i], idx=(i,), vh=v) for i in range(2)]
            s_L, s_parts, p_L, p_parts, hasp = q_L, q_parts, 0.0, [], 0
            whole = None
        else:
            x0 = bases[0].default_parameters()['x']
            sx = fem.pow2_scale([np.asarray(b.default_parameters()['x']) for b in bases], 10)
            if sx is None:
                raise Skip()
            accs = {'u': acc, 'v': acc, 'f': {'x': fem.accessors(x0, ('value',))}}
            fs = {'x': sx}
            nf = len(bases[0].basis[0])
            Fb, Fl, Ff = rec['bil'], rec['lin'], rec['fun']
            S2 = fem.term_scale(Fb, sphi, sphi, fs) * sdx
            S1 = fem.term_scale(Fl, 1, sphi, fs) * sdx
            S0 = fem.term_scale(Ff, 1, 1, fs) * sdx
            fb = BilinearForm(fem.bilinear_callable(Fb, accs, nf))
            fl = LinearForm(fem.linear_callable(Fl, accs))
            ff = Functional(fem.functional_callable(Ff, accs))
            fp = Functional(fem.functional_callable(Fb, accs, 'uh', 'vh'))     # the bilinear integrand on u_h, v_h
            fq = Functional(fem.functional_callable(Fl, accs, None, 'vh'))     # the linear integrand on v_h
            A_L, b_L, s_L = asm(fb, bases, **prm), asm(fl, bases, **prm), asm(ff, bases, **prm)
            p_L, q_L = asm(fp, bases, uh=u, vh=v, **prm), asm(fq, bases, vh=v, **prm)
            A_parts = [fb.assemble(b, **prm) for b in bases]
            b_parts = [fl.assemble(b, **prm) for b in bases]
            s_parts = [ff.assemble(b, **prm) for b in bases]
            p_parts = [fp.assemble(b, uh=u, vh=v, **prm) for b in bases]
            q_parts = [fq.assemble(b, vh=v, **prm) for b in bases]
            hasp = 1
            whole = None
            if rec.get('whole') is not None:
                wb = fem.make_basis(mesh, kind, rec['whole'])
                whole = (fb.assemble(wb, **prm), fl.assemble(wb, **prm), ff.assemble(wb, **prm))
        ok = True

        def sc(x, S):
            nonlocal ok
            if np.ndim(x) != 0:
                ok = False
                return 0
            r = _ints(x, S)
            ok &= r is not None
            return int(r or 0)

        def vec(x, S):
            nonlocal ok
            r = _ints(np.asarray(x), S) if np.ndim(x) == 1 else None
            ok &= r is not None
            return r or []

        def mat(A, S):
            nonlocal ok
            M, o = _mat(A, S)
            ok &= o
            return M
        ev = {'a': 'List', 'err': '', 'u': [int(t) for t in rec['u']], 'v': [int(t) for t in rec['v']], 'hasp': hasp,
              'A': mat(A_L, S2), 'Aparts': [mat(A, S2) for A in A_parts],
              'b': vec(b_L, S1), 'bparts': [vec(b, S1) for b in b_parts],
              's': sc(s_L, S0), 'sparts': [sc(s, S0) for s in s_parts],
              'p': sc(p_L, S2) if hasp else 0, 'pparts': [sc(p, S2) for p in p_parts],
              'q': sc(q_L, S1), 'qparts': [sc(q, S1) for q in q_parts],
              'haswhole': 0, 'wA': {'shape': [0, 0], 'trip': []}, 'wb': [], 'ws': 0}
        if whole is not None:
            ev.update(haswhole=1, wA=mat(whole[0], S2), wb=vec(whole[1], S1), ws=sc(whole[2], S0))
        fem.guard_sum([t[2] for t in ev['A']['trip']], max(map(abs, rec['u']), default=0) * max(map(abs, rec['v']), default=0))
        fem.guard_sum(ev['b'], max(map(abs, rec['v']), default=0))
        ev['exact'] = 1 if ok else 0
        return ev
    ev, err = guarded(run, 90)
    if err in ('Skip', 'TooLarge'):
        return []
    if err:
        ev = {'a': 'List', 'err': err}
    return [ev]


LIST_ELEMS = {
    'line': [['e', 'P0'], ['e', 'P1'], ['e', 'P2'], ['comp', ['e', 'P1'], ['e', 'P0']]],
    'tri': [['e', 'P0'], ['e', 'P1'], ['e', 'P2'], ['e', 'CR'], ['dg', ['e', 'P1']], ['vec', ['e', 'P1']],
            ['comp', ['e', 'P2'], ['e', 'P1']]],
    'quad': [['e', 'P0'], ['e', 'P1'], ['e', 'P2'], ['dg', ['e', 'P1']], ['vec', ['e', 'P1']]],
    'tet': [['e', 'P0'], ['e', 'P1'], ['e', 'P2'], ['comp', ['e', 'P1'], ['e', 'P0']]],
    'hex': [['e', 'P0'], ['e', 'P1']],
}


def _ivec(rng, n, lo=-1, hi=2):
    return [int(x) for x in rng.integers(lo, hi + 1, size=n)]


def _split_parts(rng, items, nparts):
    lab = rng.integers(0, nparts, size=len(items))
    lab[:nparts] = np.arange(nparts)
    lab = rng.permutation(lab)
    return [[int(items[k]) for k in np.nonzero(lab == p)[0]] for p in range(nparts)]


def _gen_product(rng, kind):
    mrec = fem.lattice_mesh(kind, rng, shear=False)
    mesh = fem.make_mesh(mrec)
    interior = bool(rng.integers(0, 4))
    fac = fem.axis_parallel_facets(mesh, 'interior' if interior else 'boundary')
    if not fac:
        return None
    k = int(rng.integers(1, min(len(fac), 3) + 1))
    facets = [int(fac[j]) for j in rng.permutation(len(fac))[:k]]
    quad = fem.dyadic_quadrature(fem.FACET_REF[kind], int(rng.integers(1, 4)), rng)
    es = LIST_ELEMS[kind]
    eu = es[int(rng.integers(0, len(es)))]
    ev_ = es[int(rng.integers(0, len(es)))] if rng.integers(0, 2) else eu
    nu, nv = int(rng.integers(2, 4)), int(rng.integers(2, 4))          # lists of different lengths as well (2 x 3, 3 x 2)

    def blist(spec, n):
        return [{'type': 'ifacet' if interior else 'facet', 'elem': spec, 'facets': facets, 'quad': quad,
                 'side': int(j % 2) if interior else 0} for j in range(n)]
    rec = {'driver': 'list', 'mode': 'product', 'mesh': mrec, 'ulist': blist(eu, nu), 'vlist': blist(ev_, nv),
           'cu': [int(x) for x in rng.permutation([2, -1, 3])[:nu]], 'cv': [int(x) for x in rng.permutation([1, 5, -2])[:nv]],
           'usejump': int(rng.integers(0, 2))}
    try:
        bu, bv = fem.make_basis(mesh, kind, rec['ulist'][0]), fem.make_basis(mesh, kind, rec['vlist'][0])
    except Exception:
        return None
    if bu.Nbfun * bv.Nbfun * bu.nelems > 600 or max(bu.N, bv.N) > 60:
        return None
    rec['comps'] = [int(rng.integers(0, len(fem.accessors(bu.basis[0])))), int(rng.integers(0, len(fem.accessors(bv.basis[0]))))]
    rec['u'], rec['v'] = _ivec(rng, bu.N), _ivec(rng, bv.N)
    return rec, {'kind': kind, 'btype': f'list-product-{nu}x{nv}', 'eu': fem.elem_name(eu), 'ev': fem.elem_name(ev_), 'tier': 'exact'}


def gen_list(rng):
    kind = str(rng.choice(['line', 'tri', 'tri', 'quad', 'quad', 'tet', 'hex']))
    mode = str(rng.choice(['partition', 'partition', 'bparts', 'sides', 'product', 'product'])) if kind != 'line' else 'partition'
    if mode == 'product':
        return _gen_product(rng, kind)
    mrec = fem.lattice_mesh(kind, rng, shear=(mode == 'partition'))
    mesh = fem.make_mesh(mrec)
    es = LIST_ELEMS[kind]
    spec = es[int(rng.integers(0, len(es)))]
    nq = int(rng.integers(1, 4))
    rec = {'driver': 'list', 'mode': mode, 'mesh': mrec, 'alpha': int(rng.choice([-2, 2, 3]))}
    if mode == 'partition':
        nt = mesh.t.shape[1]
        if nt < 2:
            return None
        bs = {'type': 'cell', 'elem': spec, 'quad': fem.dyadic_quadrature(kind, nq, rng)}
        cells = list(range(nt))
        sub = rng.integers(0, 3) == 0 and nt >= 3           # partition of a proper subset
        if sub:
            cells = [int(c) for c in rng.permutation(nt)[:nt - 1]]
        rec['parts'] = _split_parts(rng, cells, int(rng.integers(2, min(len(cells), 3) + 1)))
        rec['whole'] = dict(bs, elements=None if not sub else sorted(cells))
    elif mode == 'bparts':
        fac = fem.axis_parallel_facets(mesh, 'boundary')
        if len(fac) < 2:
            return None
        bs = {'type': 'facet', 'elem': spec, 'quad': fem.dyadic_quadrature(fem.FACET_REF[kind], nq, rng)}
        k = int(rng.integers(2, min(len(fac), 6) + 1))
        chosen = [int(fac[j]) for j in rng.permutation(len(fac))[:k]]
        rec['parts'] = _split_parts(rng, chosen, int(rng.integers(2, min(k, 3) + 1)))
        rec['whole'] = dict(bs, facets=sorted(chosen))
    else:
        fac = fem.axis_parallel_facets(mesh, 'interior')
        if not fac:
            return None
        k = int(rng.integers(1, min(len(fac), 4) + 1))
        bs = {'type': 'ifacet', 'elem': spec, 'facets': [int(fac[j]) for j in rng.permutation(len(fac))[:k]],
              'quad': fem.dyadic_quadrature(fem.FACET_REF[kind], nq, rng)}
        if len(fem.accessors(fem.make_basis(mesh, kind, bs).basis[0])) != 1:
            return None                                      # the jump forms are written for scalar fields
        rec['coef'] = int(rng.choice([1, 2, -3]))
    rec['bs'] = bs
    try:
        basis = fem.make_basis(mesh, kind, dict(bs, **({'elements': rec['parts'][0]} if mode == 'partition' else
                                                      {'facets': rec['parts'][0]} if mode == 'bparts' else {})))
    except Exception:
        return None
    if basis.Nbfun ** 2 * mesh.t.shape[1] * nq > 3000 or basis.N > 60:
        return None
    nc = len(fem.accessors(basis.basis[0]))
    avail = [('x', mesh.dim())]
    if mode != 'sides':
        rec['bil'] = fem.gen_bilinear(rng, nc, nc, avail, ['alpha'])
        rec['lin'] = fem.gen_linear(rng, nc, avail, ['alpha'])
        rec['fun'] = fem.gen_functional(rng, avail, ['alpha'])
    rec['u'], rec['v'] = _ivec(rng, basis.N), _ivec(rng, basis.N)
    return rec, {'kind': kind, 'btype': 'list-' + mode, 'eu': fem.elem_name(spec), 'ev': fem.elem_name(spec), 'tier': 'exact'}


# ------------------------------------------------------------------------------------------ default normals

def normal_mesh(mr):
    """meshes with INTEGER vertex coordinates and non-affine cells: lattice quadrilaterals / hexahedra (side 8) with
    displaced vertices, simplices, and second-order quadrilaterals / triangles with displaced mid-side nodes"""
    import skfem
    from dataclasses import replace
    rng = np.random.default_rng(mr['seed'])
    kind = mr['kind']
    if kind == 'quad':
        p, t = U.quad_grid(mr['nx'], mr['ny'])
    elif kind == 'tri':
        p, t = U.tri_lattice(mr['nx'], mr['ny'], [int(rng.integers(0, 2)) for _ in range(mr['nx'] * mr['ny'])])
    elif kind == 'hex':
        p, t = U.hex_grid(mr['nx'], 1, 1)
    else:
        p, t = U.tet_cubes(1, 6)
    p = np.array(p, dtype=float) * 8
    if not mr.get('order2'):
        p += rng.integers(-2, 3, size=p.shape)             # every vertex displaced: cells stay convex (|d| <= 2 of 8)
    # (curved cells keep their vertices and get mildly displaced mid-side nodes: the convergence of the library's Newton
    #  inversion on strongly distorted curved cells is not a subject of C01, DESIGN section 6)
    if mr.get('order2'):
        p = p / 8.0        # unit-size cells: the Newton inversion of curved cells uses an absolute tolerance
    m = U.make(kind, p, t)
    if mr.get('order2'):
        cls = {'tri': skfem.MeshTri2, 'quad': skfem.MeshQuad2}[kind]
        m2 = cls.from_mesh(m)
        d = m2.doflocs.copy()
        nv = m.p.shape[1]
        d[:, nv:] += rng.integers(-2, 3, size=d[:, nv:].shape) / 64.0
        m = replace(m2, doflocs=d)
    return m


def exec_normal(rec):
    import skfem
    from skfem import BilinearForm
    from skfem.element import DiscreteField
    kind = rec['mesh']['kind']
    ename = {'quad': skfem.ElementQuad1, 'tri': skfem.ElementTriP1, 'hex': skfem.ElementHex1, 'tet': skfem.ElementTetP1}[kind]

    def run():
        mesh = normal_mesh(rec['mesh'])
        facets = np.array(rec['facets'], dtype=np.int64)
        cls = skfem.InteriorFacetBasis if rec['interior'] else skfem.FacetBasis
        kw = dict(facets=facets, intorder=rec['intorder'])
        bs = cls(mesh, ename(), side=rec['side'], **kw)
        b0 = bs if rec['side'] == 0 else cls(mesh, ename(), side=0, **kw)
        n = np.asarray(bs.default_parameters()['n'])           # (dim, nfacets, nq)
        n0 = np.asarray(b0.default_parameters()['n'])
        dim = mesh.dim()
        P = np.asarray(mesh.p)
        tv = np.asarray(mesh.t)
        nvc = {'quad': 4, 'tri': 3, 'hex': 8, 'tet': 4}[kind]
        planar = int(rec['planar'])
        out = {'a': 'Normal', 'err': '', 'dim': dim, 'planar': planar, 'side': int(rec['side']), 'interior': int(rec['interior']), 'fac': []}
        for k, f in enumerate(facets):
            fv = np.asarray(mesh.facets)[:, f]
            pts = np.rint(P[:, fv]).astype(int)                 # integer vertex coordinates of the facet
            owner = int(mesh.f2t[0, f])
            cv = np.rint(P[:, tv[:nvc, owner]]).astype(int)
            tang = [[int(x) for x in (pts[:, j] - pts[:, 0])] for j in range(1, pts.shape[1])]
            # (facet midpoint - centroid of the owner cell) * (#facet vertices * #cell vertices): integers
            outv = [int(x) for x in (pts.sum(axis=1) * nvc - cv.sum(axis=1) * pts.shape[1])]
            nq = n.shape[2]
            rowsn = [[fx(float(n[c, k, q])) for c in range(dim)] for q in range(nq)]
            rows0 = [[fx(float(n0[c, k, q])) for c in range(dim)] for q in range(nq)]
            nn = [fx(sum(Fraction(float(n[c, k, q])) ** 2 for c in range(dim))) for q in range(nq)]
            out['fac'].append({'t': tang, 'out': outv, 'n': rowsn, 'n0': rows0, 'nn': nn})
        events = [out]
        # forms: the same integrand with w.n and with the normal field of the side-0 basis passed explicitly
        rng = np.random.default_rng(rec['wseed'])
        a, b = rec['comps']
        A1 = BilinearForm(lambda u, v, w: w.n[a] * w.n[b] * u * v).assemble(bs)
        A2 = BilinearForm(lambda u, v, w: w['g'][a] * w['g'][b] * u * v).assemble(bs, g=DiscreteField(n0.copy()))
        laws = []
        for _ in range(2):
            uu = rng.integers(-3, 4, size=bs.N)
            vv = rng.integers(-3, 4, size=bs.N)
            s1, m1 = fem.frac_pairing(A1, vv, uu)
            s2, m2 = fem.frac_pairing(A2, vv, uu)
            A3 = abs(A1) + abs(A2)
            floor = Fraction(float((np.abs(vv) @ (A3 @ np.abs(uu)))))
            nm = c01_law._norm(s1, s2, m1 + m2 + floor)
            if nm is not None:
                laws.append({'name': 'normal', 'lhs': fx(nm[0]), 'rhs': fx(nm[1]), 'mag': fx(nm[2])})
        events.append({'a': 'Law', 'err': '', 'laws': laws})
        return events
    evs, err = guarded(run, 90)
    if err:
        return [{'a': 'Normal', 'err': err}]
    return evs


def gen_normal(rng):
    kind = str(rng.choice(['quad', 'quad', 'quad', 'hex', 'hex', 'tri', 'tet']))
    order2 = int(kind in ('quad', 'tri') and rng.integers(0, 4) == 0)
    mr = {'kind': kind, 'nx': int(rng.integers(2, 4)) if kind in ('quad', 'tri') else int(rng.integers(2, 3)),
          'ny': int(rng.integers(1, 3)), 'seed': int(rng.integers(1, 10 ** 6)), 'order2': order2}
    try:
        mesh = normal_mesh(mr)
    except Exception:
        return None
    interior = int(rng.integers(0, 4) != 0)
    sel = np.nonzero(mesh.f2t[1] != -1)[0] if interior else np.nonzero(mesh.f2t[1] == -1)[0]
    if len(sel) == 0:
        return None
    k = int(rng.integers(1, min(len(sel), 4) + 1))
    facets = sorted(int(sel[j]) for j in rng.permutation(len(sel))[:k])
    side = int(rng.integers(0, 3) != 0) if interior else 0       # side 1 twice as often: it is the one computed indirectly
    dim = mesh.dim()
    planar = int(not order2 and kind != 'hex')                    # hexahedral faces with displaced vertices are not planar
    rec = {'driver': 'normal', 'mesh': mr, 'facets': facets, 'interior': interior, 'side': side,
           'intorder': int(rng.integers(1, 4)), 'planar': planar, 'comps': [int(rng.integers(0, dim)), int(rng.integers(0, dim))],
           'wseed': int(rng.integers(1, 10 ** 6))}
    return rec, {'kind': kind, 'btype': 'normal-ifacet' if interior else 'normal-facet', 'side': side, 'order2': order2,
                 'eu': 'P1', 'ev': 'P1', 'tier': 'normal'}
