------------------------------ MODULE TraceC14 ------------------------------
(* code -> spec for C14: validates element-finder results and probing         *)
(* matrices / interpolators / point sources recorded from the real classes.   *)
(* Events of a scenario (same sid):                                            *)
(*   pos 1   "Mesh"   kind, p (integer coordinates, common scale), t          *)
(*   [pos 2  "Basis"  elem, family, tolclass, ncomp, ndofs, edofs, y, y2, vdof] *)
(*   then    "Find"   pts, res, err [, model = 1: compare with FindImpl]       *)
(*           "FindBig" pts, res, err, hint (witness cell per point, 0 = far    *)
(*                    outside), rank (1: report the centroid rank of pts[1])   *)
(*           "Probe"  op, pts, cells, rows, vals, phis, ref, ferr (finder), err [, pscols, psvals] *)
EXTENDS Locate

Batch  == JsonDeserialize(IOEnv.TRACE_FILE)
Events == Batch.events
NEv    == Len(Events)

VARIABLES i, st, bad, cnt, drift
vars == <<i, st, bad, cnt, drift>>

NoState == [m |-> <<>>, ok |-> FALSE, b |-> <<>>, seen |-> {}, bb |-> <<>>]

MeshWF(e) ==
  /\ e.err = ""
  /\ e.kind \in {"line", "tri", "quad", "tet", "hex", "wedge"}
  /\ Len(e.t) >= 1 /\ Len(e.p) >= 2
  /\ \A v \in DOMAIN e.p : Len(e.p[v]) = Dim(e.kind)
  /\ \A k \in DOMAIN e.t : Len(e.t[k]) = NNodes(e.kind) /\ \A j \in DOMAIN e.t[k] : e.t[k][j] \in DOMAIN e.p

BasisWF(m, e) ==
  /\ e.err = ""
  /\ Len(e.edofs) = Len(m.t)
  /\ \A k \in DOMAIN e.edofs : Len(e.edofs[k]) = Len(e.edofs[1]) /\ \A j \in DOMAIN e.edofs[k] : e.edofs[k][j] \in 1..e.ndofs
  /\ Len(e.y) = e.ndofs /\ Len(e.y2) = e.ndofs
  /\ e.ncomp >= 1
  /\ (e.family = "P1") => (Len(e.vdof) = Len(m.p) /\ \A v \in DOMAIN e.vdof : e.vdof[v] \in 1..e.ndofs)

\* result: [cl |-> record of truth values (the clauses), info |-> set of counters, st |-> next scenario state]
Eval(e, s) ==
  CASE e.a = "Mesh" ->
         IF ~MeshWF(e) THEN [cl |-> [MeshWellFormed |-> FALSE], info |-> {}, st |-> NoState]
         ELSE LET m == [kind |-> e.kind, p |-> e.p, t |-> e.t]
                  ins == MeshInScope(m)
              IN [cl |-> [MeshWellFormed |-> TRUE],
                  info |-> IF ins THEN {"Info_MeshInScope"} ELSE {"Info_MeshOutOfScope"},
                  st |-> [m |-> m, ok |-> ins, b |-> <<>>, seen |-> {}, bb |-> IF e.big = 1 THEN BBox(m) ELSE <<>>]]
    [] e.a = "Basis" ->
         IF ~s.ok THEN [cl |-> <<>>, info |-> {"Info_Skipped"}, st |-> s]
         ELSE IF ~BasisWF(s.m, e) THEN [cl |-> [BasisWellFormed |-> FALSE], info |-> {}, st |-> [s EXCEPT !.ok = FALSE]]
         ELSE [cl |-> [BasisWellFormed |-> TRUE], info |-> {}, st |-> [s EXCEPT !.b = e, !.seen = {}]]
    [] e.a = "Find" ->
         IF ~s.ok THEN [cl |-> <<>>, info |-> {"Info_Skipped"}, st |-> s]
         ELSE IF ~FindWellFormed(s.m, e.pts, e.res, e.err)
              THEN [cl |-> [FindWellFormed |-> FALSE], info |-> {}, st |-> s]
         ELSE LET ct == ContainingAll(s.m, e.pts)
                  imp == IF e.model = 1 THEN FindImpl(s.m, e.pts) ELSE <<>>
              IN [cl |-> [FindWellFormed |-> TRUE,
                          FoundCellContainsPoint |-> FoundCellContainsPoint(s.m, e.pts, e.res, e.err, ct),
                          PointsOfTheDomainAreFound |-> PointsOfTheDomainAreFound(s.m, e.pts, e.err, ct),
                          BoundaryPointsAreFound |-> BoundaryPointsAreFound(s.m, e.pts, e.err, ct),
                          RaisesOutside |-> RaisesOutside(s.m, e.pts, e.err, ct)],
                  info |-> (IF e.err = "" THEN {"Info_Found"} ELSE {"Info_Raised"})
                           \cup (IF \E n \in DOMAIN ct : Cardinality(ct[n]) >= 2 THEN {"Info_PointOnSharedFacet"} ELSE {})
                           \cup (IF \E n \in DOMAIN ct : ct[n] = {} /\ ~FarOutside(s.m, e.pts[n], ct[n])
                                 THEN {"Info_NearOutsidePoint"} ELSE {})
                           \cup (IF e.err # "" /\ (\A n \in DOMAIN ct : ct[n] # {})
                                    /\ BoundaryPointsAreFound(s.m, e.pts, e.err, ct)
                                 THEN {"Info_RaiseOnIllConditionedBoundaryPoint"} ELSE {})
                           \cup (IF e.model = 1
                                 THEN (IF imp.res = e.res /\ ((imp.err = "") <=> (e.err = ""))
                                       THEN {"Info_ModelAgrees"} ELSE {"Info_ModelDrift"})
                                      \cup (IF imp.fallback THEN {"Info_ModelFallbackPath"} ELSE {})
                                      \cup (IF imp.fallback /\ imp.err = "" THEN {"Info_ModelFoundByFallback"} ELSE {})
                                 ELSE {}),
                  st |-> s]
    [] e.a = "FindBig" ->            \* large mesh: witness-based clauses (Locate: "Large meshes")
         IF ~s.ok \/ s.bb = <<>> THEN [cl |-> <<>>, info |-> {"Info_Skipped"}, st |-> s]
         ELSE IF ~BigWellFormed(s.m, e.pts, e.res, e.err, e.hint)
              THEN [cl |-> [FindWellFormed |-> FALSE], info |-> {}, st |-> s]
         ELSE IF ~WitnessContainsPoint(s.m, s.bb, e.pts, e.hint)
              THEN [cl |-> [FindWellFormed |-> TRUE, WitnessContainsPoint |-> FALSE], info |-> {}, st |-> s]
         ELSE LET rk == IF e.rank = 1 /\ e.hint[1] # 0 THEN WitnessRank(s.m, e.pts[1], e.hint[1]) ELSE -1
                  kk == IF Dim(s.m.kind) = 2 THEN 5 ELSE 10
              IN [cl |-> [FindWellFormed |-> TRUE, WitnessContainsPoint |-> TRUE,
                          FoundCellContainsPoint |-> FoundCellContainsPointW(s.m, e.pts, e.res, e.err),
                          PointsOfTheDomainAreFound |-> PointsOfTheDomainAreFoundW(s.m, e.pts, e.err, e.hint),
                          BoundaryPointsAreFound |-> BoundaryPointsAreFoundW(e.err, e.hint),
                          RaisesOutside |-> RaisesOutsideW(e.err, e.hint)],
                  info |-> {"Info_LargeMesh"} \cup (IF e.err = "" THEN {"Info_Found"} ELSE {"Info_Raised"})
                           \cup (IF rk >= kk THEN {"Info_WitnessBeyondCandidates"} ELSE {})
                           \cup (IF rk >= 100 THEN {"Info_WitnessBeyond100Nearest"} ELSE {}),
                  st |-> s]
    [] e.a = "SuiteFind" ->          \* recorded from a repository test: witness-based clauses on Fx data
         IF ~SuiteFindWF(e) THEN [cl |-> [SuiteWellFormed |-> FALSE], info |-> {}, st |-> s]
         ELSE [cl |-> [SuiteWellFormed |-> TRUE,
                       FoundCellContainsPoint |-> SuiteFoundCellContainsPoint(e),
                       BoundaryPointsAreFound |-> SuiteBoundaryPointsAreFound(e)]
                      @@ (IF e.lamall # <<>> THEN [RaisesOutside |-> SuiteRaisesOutside(e)] ELSE <<>>),
               info |-> {"Info_SuiteFind_" \o e.kind} \cup (IF e.err = "" THEN {"Info_Found"} ELSE {"Info_Raised"}),
               st |-> s]
    [] e.a = "SuiteProbe" ->
         IF ~SuiteProbeWF(e) THEN [cl |-> [SuiteWellFormed |-> FALSE], info |-> {}, st |-> s]
         ELSE [cl |-> [SuiteWellFormed |-> TRUE,
                       FoundCellContainsPoint |-> \A n \in DOMAIN e.lam : CellInsideFx(e.lam[n]),
                       ProbeRows |-> SuiteProbeRows(e),
                       LocalExpansion |-> SuiteLocalExpansion(e)]
                      @@ (IF e.out # <<>> THEN [InterpolatorIsProbesTimesY |-> SuiteInterpolatorIsProbesTimesY(e)] ELSE <<>>),
               info |-> {"Info_SuiteProbe_" \o e.op},
               st |-> s]
    [] e.a = "PointSourceVec" ->     \* point_source of a vector / tensor valued basis
         IF ~s.ok \/ s.b = <<>> THEN [cl |-> <<>>, info |-> {"Info_Skipped"}, st |-> s]
         ELSE LET ct == ContainingAll(s.m, e.pts)
                  bb == IF e.ypart = "im" THEN [s.b EXCEPT !.y = s.b.y2] ELSE s.b IN
           IF e.ferr # "" THEN [cl |-> [PointsOfTheDomainAreFound |-> PointsOfTheDomainAreFound(s.m, e.pts, e.ferr, ct),
                                        BoundaryPointsAreFound |-> BoundaryPointsAreFound(s.m, e.pts, e.ferr, ct)],
                                info |-> {"Info_ProbeFinderRaised"}, st |-> s]
           ELSE IF e.err # "" THEN [cl |-> [NoUnexpectedError |-> FALSE], info |-> {}, st |-> s]
           ELSE IF ~PointSourceVecWF(s.m, bb, e) THEN [cl |-> [ProbeWellFormed |-> FALSE], info |-> {}, st |-> s]
           ELSE [cl |-> [ProbeWellFormed |-> TRUE, NoUnexpectedError |-> TRUE,
                         FoundCellContainsPoint |-> FoundCellContainsPoint(s.m, e.pts, e.cells, "", ct),
                         PointSourceIsOneRowOfProbes |-> PointSourceIsOneRowOfProbes(s.m, bb, e)],
                 info |-> {"Info_op_point_source_vector", "Info_coef_" \o e.coef \o "_" \o e.ypart}, st |-> s]
    [] e.a = "Probe" ->
         IF ~s.ok \/ s.b = <<>> THEN [cl |-> <<>>, info |-> {"Info_Skipped"}, st |-> s]
         ELSE LET ct == ContainingAll(s.m, e.pts) IN
           IF e.ferr # ""
           THEN \* the element finder raised: probing raises for the same reason; judged like a Find event
                [cl |-> [PointsOfTheDomainAreFound |-> PointsOfTheDomainAreFound(s.m, e.pts, e.ferr, ct),
                         BoundaryPointsAreFound |-> BoundaryPointsAreFound(s.m, e.pts, e.ferr, ct)],
                 info |-> {"Info_ProbeFinderRaised"}, st |-> s]
           ELSE IF e.err # ""
           THEN \* all points were located: probing must not raise
                [cl |-> [NoUnexpectedError |-> FALSE], info |-> {"Info_ProbeRaised"}, st |-> s]
           ELSE IF ~ProbeWellFormed(s.m, s.b, e) THEN [cl |-> [ProbeWellFormed |-> FALSE], info |-> {}, st |-> s]
           ELSE LET \* complex coefficient vectors y + i y2 are validated part by part: an event with ypart = "im"
                    \* carries the imaginary parts of the returned values and is judged against y2
                    im == e.ypart = "im"
                    bb == IF im THEN [s.b EXCEPT !.y = s.b.y2] ELSE s.b
                    pv0 == PointValues(s.m, bb, e, ct)
                    pv == IF im THEN {<<a[1], a[2] + 1000, a[3], a[4]>> : a \in pv0} ELSE pv0
                IN
                [cl |-> [ProbeWellFormed |-> TRUE, NoUnexpectedError |-> TRUE,
                         FoundCellContainsPoint |-> FoundCellContainsPoint(s.m, e.pts, e.cells, "", ct),
                         ProbeRows |-> ProbeRows(s.m, bb, e, ct),
                         LocalExpansion |-> LocalExpansion(s.m, bb, e),
                         SamePointSameValue |-> SamePointSameValue(bb, pv, s.seen)]
                        @@ (IF P1Applicable(s.m, bb) THEN [P1Exact |-> P1Exact(s.m, bb, e, ct)] ELSE <<>>)
                        @@ (IF e.ref # <<>> THEN [AgreesWithInterpolate |-> AgreesWithInterpolate(s.m, bb, e)] ELSE <<>>)
                        @@ (IF e.op = "point_source" THEN [PointSourceOK |-> PointSourceOK(s.m, bb, e, ct)] ELSE <<>>),
                 info |-> {"Info_op_" \o e.op, "Info_coef_" \o e.coef \o "_" \o e.ypart}
                          \cup (IF \E a \in pv : \E q \in s.seen : q[1] = a[1] THEN {"Info_PointSeenBefore"} ELSE {})
                          \cup (IF Len(e.pts) = 1 THEN {"Info_SinglePoint"} ELSE {})
                          \cup (IF e.gscale # 0 THEN {"Info_GeometryScaled"} ELSE {})
                          \cup (IF e.exactref = 1 THEN {"Info_ReferencePointKnownExactly"} ELSE {})
                          \cup (IF \E n1, n2 \in DOMAIN e.pts : n1 # n2 /\ e.pts[n1] = e.pts[n2] THEN {"Info_RepeatedPoint"} ELSE {}),
                 st |-> [s EXCEPT !.seen = s.seen \cup pv]]
    [] OTHER -> [cl |-> [KnownEvent |-> FALSE], info |-> {}, st |-> s]

Bump(c, names) == [k \in DOMAIN c \cup names |->
                     (IF k \in DOMAIN c THEN c[k] ELSE 0) + (IF k \in names THEN 1 ELSE 0)]

Init == i = 1 /\ st = NoState /\ bad = <<>> /\ cnt = <<>> /\ drift = <<>>

Step == /\ i <= NEv
        /\ LET e == Events[i]
               r == Eval(e, IF e.pos = 1 THEN NoState ELSE st)
               f == SetToSeq(Failed(r.cl))
           IN /\ bad' = bad \o [k \in 1..Len(f) |-> [sid |-> e.sid, pos |-> e.pos, clause |-> f[k]]]
              /\ cnt' = Bump(cnt, DOMAIN r.cl \cup r.info)
              /\ st'  = r.st
              /\ drift' = IF "Info_ModelDrift" \in r.info /\ Len(drift) < 20
                          THEN Append(drift, [sid |-> e.sid, pos |-> e.pos, imp |-> FindImpl(st.m, e.pts)]) ELSE drift
        /\ i' = i + 1

Finish == /\ i = NEv + 1
          /\ JsonSerialize(IOEnv.OUT_FILE, [consumed |-> NEv, bad |-> bad, cnt |-> cnt, drift |-> drift])
          /\ i' = NEv + 2
          /\ UNCHANGED <<st, bad, cnt, drift>>

Next == Step \/ Finish
Spec == Init /\ [][Next]_vars
==============================================================================
