SPECIFICATION Spec
CONSTANT OLDGEN = TRUE
INVARIANT ClausesHold
CHECK_DEADLOCK FALSE
