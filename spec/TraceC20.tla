------------------------------ MODULE TraceC20 ------------------------------
(* code -> spec for C20: observations of the real NonlinearForm.assemble and   *)
(* of the integrand helpers (NumPy variant skfem/helpers.py, JAX variant       *)
(* skfem/autodiff/helpers.py) validated against Autodiff.tla.                  *)
EXTENDS Autodiff

Batch  == JsonDeserialize(IOEnv.TRACE_FILE)
Events == Batch.events
NEv    == Len(Events)

VARIABLES i, bad, cnt
vars == <<i, bad, cnt>>

NLClauses(e) ==
  IF e.err # "" THEN [NoUnexpectedError |-> FALSE]
  ELSE IF ~(/\ BasisWF(e.B) /\ EnvWF(e.env, e.B.nel, e.B.nq) /\ Len(e.x) = e.B.N /\ MatWF(e.J)
            /\ e.mode \in {"residual", "hessian"}
            /\ TermWF(e.R, e.B.nc, IF e.mode = "hessian" THEN 0 ELSE e.B.nc, e.env)
            /\ (e.lin = 1 => MatWF(e.A)))
       THEN [WellFormed |-> FALSE]
  ELSE [NoUnexpectedError |-> TRUE, WellFormed |-> TRUE,
        EntriesIntegral      |-> e.exact = 1 /\ e.S = NLScale(e.R, e.B, e.env),
        JacobianIsDerivative |-> JacobianIsDerivative(e.J, e.R, e.B, e.x, e.env, e.mode),
        ResidualIsMinusF     |-> ResidualIsMinusF(e.rhs, e.R, e.B, e.x, e.env, e.mode)]
       @@ (IF e.lin = 1 THEN [LinearReducesToAssembly |-> LinearReducesToAssembly(e.J, e.rhs, e.A, e.b, e.x)] ELSE <<>>)

\* ---- helpers: args[a][p] = argument a at point p; out_np[p] / out_jax[p] = what the variant returned at p (times s)
Rank(name) ==
  CASE name \in {"dot", "ddot", "dddot", "trace", "div", "det", "curl_v2", "cross2"} -> 0
    [] name \in {"mulv", "curl_s2", "curl_3", "cross3"} -> 1
    [] name \in {"prod2", "mulm", "transpose", "eye", "identity", "sym_grad", "inv", "grad"} -> 2
    [] name = "prod3" -> 3
RECURSIVE Dims(_, _)
Dims(x, r) == IF r = 0 THEN <<>> ELSE <<Len(x)>> \o Dims(x[1], r - 1)
ArgsAt(e, p) == [a \in DOMAIN e.args |-> e.args[a][p]]
ExpectedDims(e) == IF e.name = "inv" THEN Dims(e.args[1][1], 2) ELSE Dims(HelperDef(e.name, ArgsAt(e, 1), e.n), Rank(e.name))
HelperClauses(e) ==
  IF ~KnownHelper(e.name) \/ e.npts < 1 \/ \E a \in DOMAIN e.args : Len(e.args[a]) # e.npts THEN [WellFormed |-> FALSE]
  ELSE LET okshape(v) == (v.err = "" /\ v.dims = ExpectedDims(e) /\ Len(v.out) = e.npts)
           holds(v)   == okshape(v) /\ \A p \in 1..e.npts : HelperOK(e.name, ArgsAt(e, p), e.n, v.out[p], e.s)
       IN [WellFormed |-> TRUE]
          @@ (IF e.has_np = 1 THEN [HelperEqualsDefinition_numpy |-> holds(e.np)] ELSE <<>>)
          @@ (IF e.has_jax = 1 THEN [HelperEqualsDefinition_jax |-> holds(e.jax)] ELSE <<>>)
          @@ (IF e.has_np = 1 /\ e.has_jax = 1
              THEN [VariantsAgree |-> e.np.err = "" /\ e.jax.err = "" /\ e.np.dims = e.jax.dims /\ e.np.out = e.jax.out] ELSE <<>>)
          @@ [EntriesIntegral |-> e.exact = 1]

Clauses(e) ==
  CASE e.a = "NL"     -> NLClauses(e)
    [] e.a = "Helper" -> HelperClauses(e)

Bump(c, r) == [k \in DOMAIN c \cup DOMAIN r |->
                 (IF k \in DOMAIN c THEN c[k] ELSE 0) + (IF k \in DOMAIN r THEN 1 ELSE 0)]
Init == i = 1 /\ bad = <<>> /\ cnt = <<>>
Step == /\ i <= NEv
        /\ LET e == Events[i]
               r == Clauses(e)
           IN /\ bad' = bad \o [k \in 1..Cardinality(Failed(r)) |->
                                  [sid |-> e.sid, pos |-> e.pos, clause |-> SetToSeq(Failed(r))[k]]]
              /\ cnt' = Bump(cnt, r)
        /\ i' = i + 1
Finish == /\ i = NEv + 1
          /\ JsonSerialize(IOEnv.OUT_FILE, [consumed |-> NEv, bad |-> bad, cnt |-> cnt])
          /\ i' = NEv + 2
          /\ UNCHANGED <<bad, cnt>>
Next == Step \/ Finish
Spec == Init /\ [][Next]_vars
==============================================================================
