------------------------------ MODULE UniformOps ------------------------------
(* Transcriptions of uniform refinement (property C12):                         *)
(*   MeshLine1._uniform   skfem/mesh/mesh_line_1.py:40-66                        *)
(*   MeshTri1._uniform    skfem/mesh/mesh_tri_1.py:201-248 (incl. old->new facet map) *)
(*   MeshQuad1._uniform   skfem/mesh/mesh_quad_1.py:36-89  (incl. old->new facet map) *)
(*   generic sub-domain propagation of Mesh.refined()  skfem/mesh/mesh.py:889-902 *)
(* Meshes are records as in Refinement.tla; coordinates must be multiples of 2    *)
(* (segments, triangles) resp. 4 (quadrilaterals) so that new vertices are        *)
(* integral.                                                                      *)
EXTENDS Refinement, MeshTopology

MidPt(a, b)  == [i \in DOMAIN a |-> (a[i] + b[i]) \div 2]
Centroid4(a, b, c, d) == [i \in DOMAIN a |-> (a[i] + b[i] + c[i] + d[i]) \div 4]
UTriLF  == <<<<1, 2>>, <<2, 3>>, <<1, 3>>>>
UQuadLF == <<<<1, 2>>, <<2, 3>>, <<3, 4>>, <<1, 4>>>>

\* Mesh.refined(): children of cell k are k, k + nt, k + 2 nt, ...  (N blocks)
GenericSub(sub, nt, N) ==
  [q \in DOMAIN sub |-> <<sub[q][1], SortedSeq({k + b * nt : k \in VSet(sub[q][2]), b \in 0..(N - 1)})>>]

\* ---- segments: children of k are 2k-1, 2k (interleaved); OLDGEN = the generic propagation used before fix b43803f
LineUniformImpl(m, oldgen) ==
  LET nv == Len(m.p) nt == Len(m.t)
      newp == m.p \o [k \in 1..nt |-> MidPt(m.p[m.t[k][1]], m.p[m.t[k][2]])]
      newt == [j \in 1..(2 * nt) |->
                 LET k == (j + 1) \div 2 IN
                 IF j % 2 = 1 THEN <<m.t[k][1], nv + k>> ELSE <<nv + k, m.t[k][2]>>]
      sub  == IF oldgen THEN GenericSub(m.sub, nt, 2)
              ELSE [q \in DOMAIN m.sub |-> <<m.sub[q][1], SortedSeq(UNION {{2 * k - 1, 2 * k} : k \in VSet(m.sub[q][2])})>>]
  IN [m EXCEPT !.p = newp, !.t = newt, !.sub = sub]                   \* boundaries: vertex ids are kept

\* ---- triangles
TriUniformImpl(m) ==
  LET sz == Len(m.p) nt == Len(m.t)
      be == BuildEntitiesImpl(m.t, UTriLF, TRUE)
      F  == be.ents
      e(k, s) == be.mapping[k][s] + sz
      newp == m.p \o [f \in DOMAIN F |-> MidPt(m.p[F[f][1]], m.p[F[f][2]])]
      raw  == [k \in 1..nt |-> <<m.t[k][1], e(k, 1), e(k, 3)>>] \o [k \in 1..nt |-> <<m.t[k][2], e(k, 1), e(k, 2)>>]
           \o [k \in 1..nt |-> <<m.t[k][3], e(k, 3), e(k, 2)>>] \o [k \in 1..nt |-> <<e(k, 1), e(k, 2), e(k, 3)>>]
      newt == [j \in DOMAIN raw |-> SortedSeq(VSet(raw[j]))]            \* replace(): sort_t = True
      nb   == BuildEntitiesImpl(newt, UTriLF, TRUE)                     \* m.facets / m.t2f of the NEW mesh
      \* new_facets[r, f]: the two halves of old facet f, looked up through child cells and slots
      \*   [0, t2f[2]] = m.t2f[2, ix0]; [0, t2f[1]] = m.t2f[2, ix1]; [0, t2f[0]] = m.t2f[0, ix0]
      \*   [1, t2f[2]] = m.t2f[0, ix2]; [1, t2f[1]] = m.t2f[2, ix2]; [1, t2f[0]] = m.t2f[0, ix1]
      \* (later assignments win where a facet is seen from two cells; both give the same value)
      Half(r, f) ==
        LET k == MaxSet({c \in 1..nt : \E s \in 1..3 : be.mapping[c][s] = f})
            s == CHOOSE s \in 1..3 : be.mapping[k][s] = f
        IN IF r = 0 THEN (CASE s = 3 -> nb.mapping[k][3] [] s = 2 -> nb.mapping[k + nt][3] [] s = 1 -> nb.mapping[k][1])
           ELSE (CASE s = 3 -> nb.mapping[k + 2 * nt][1] [] s = 2 -> nb.mapping[k + 2 * nt][3] [] s = 1 -> nb.mapping[k + nt][1])
      OldIndex(fv) == CHOOSE f \in DOMAIN F : VSet(F[f]) = VSet(fv)
      bnd  == [q \in DOMAIN m.bnd |->
                 <<m.bnd[q][1],
                   [x \in DOMAIN SortedSeq(UNION {{Half(0, OldIndex(fv)), Half(1, OldIndex(fv))} : fv \in VSet(m.bnd[q][2])}) |->
                      nb.ents[SortedSeq(UNION {{Half(0, OldIndex(fv)), Half(1, OldIndex(fv))} : fv \in VSet(m.bnd[q][2])})[x]]]>>]
  IN [m EXCEPT !.p = newp, !.t = newt, !.sub = GenericSub(m.sub, nt, 4), !.bnd = bnd]

\* ---- quadrilaterals (coordinates multiples of 4)
QuadUniformImpl(m) ==
  LET sz == Len(m.p) nt == Len(m.t)
      be == BuildEntitiesImpl(m.t, UQuadLF, TRUE)
      F  == be.ents
      nf == Len(F)
      e(k, s) == be.mapping[k][s] + sz
      mid(k)  == sz + nf + k                                            \* arange(nt) + max(t2f) + sz + 1
      newp == m.p \o [f \in DOMAIN F |-> MidPt(m.p[F[f][1]], m.p[F[f][2]])]
                  \o [k \in 1..nt |-> Centroid4(m.p[m.t[k][1]], m.p[m.t[k][2]], m.p[m.t[k][3]], m.p[m.t[k][4]])]
      newt == [k \in 1..nt |-> <<m.t[k][1], e(k, 1), mid(k), e(k, 4)>>] \o [k \in 1..nt |-> <<e(k, 1), m.t[k][2], e(k, 2), mid(k)>>]
           \o [k \in 1..nt |-> <<mid(k), e(k, 2), m.t[k][3], e(k, 3)>>] \o [k \in 1..nt |-> <<e(k, 4), mid(k), e(k, 3), m.t[k][4]>>]
      nb   == BuildEntitiesImpl(newt, UQuadLF, TRUE)
      \*   [0, t2f[0]] = m.t2f[0, ix0]; [1, t2f[0]] = m.t2f[0, ix1]; [0, t2f[1]] = m.t2f[1, ix1]; [1, t2f[1]] = m.t2f[1, ix2]
      \*   [0, t2f[2]] = m.t2f[2, ix2]; [1, t2f[2]] = m.t2f[2, ix3]; [0, t2f[3]] = m.t2f[3, ix3]; [1, t2f[3]] = m.t2f[3, ix0]
      Half(r, f) ==
        LET k == MaxSet({c \in 1..nt : \E s \in 1..4 : be.mapping[c][s] = f})
            s == CHOOSE s \in 1..4 : be.mapping[k][s] = f
            blk == IF r = 0 THEN s - 1 ELSE s % 4                        \* child block holding that half
        IN nb.mapping[k + blk * nt][s]
      OldIndex(fv) == CHOOSE f \in DOMAIN F : VSet(F[f]) = VSet(fv)
      NewIds(q) == SortedSeq(UNION {{Half(0, OldIndex(fv)), Half(1, OldIndex(fv))} : fv \in VSet(m.bnd[q][2])})
      bnd  == [q \in DOMAIN m.bnd |-> <<m.bnd[q][1], [x \in DOMAIN NewIds(q) |-> nb.ents[NewIds(q)[x]]]>>]
  IN [m EXCEPT !.p = newp, !.t = newt, !.sub = GenericSub(m.sub, nt, 4), !.bnd = bnd]

UniformImpl(m, oldgen) ==
  CASE m.kind = "line" -> LineUniformImpl(m, oldgen)
    [] m.kind = "tri"  -> TriUniformImpl(m)
    [] m.kind = "quad" -> QuadUniformImpl(m)
==============================================================================
