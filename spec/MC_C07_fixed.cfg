SPECIFICATION Spec
CONSTANT Sigs <- SigsNamed
CONSTANT RowsInUse <- RowsFixed
CONSTANT OffsetInUse <- OffsetFixed
INVARIANT NameRowsHold
INVARIANT ClausesHold
CHECK_DEADLOCK FALSE
