"""Projection pi: concrete scikit-fem objects -> abstract state (ints / strings / lists only).

pi changes representation and nothing else: no comparison against expected values, no tolerances.
Ids become 1-based (the code's -1 becomes 0).  Coordinates are scaled to integers and the scaling
must be exact, otherwise `None` is returned and the caller skips the geometric clauses (counted).
"""
from fractions import Fraction

import numpy as np

KIND = {'MeshLine1': 'line', 'MeshTri1': 'tri', 'MeshQuad1': 'quad', 'MeshTet1': 'tet', 'MeshHex1': 'hex',
        'MeshWedge1': 'wedge', 'MeshTri2': 'tri', 'MeshQuad2': 'quad', 'MeshTet2': 'tet', 'MeshHex2': 'hex',
        'MeshLine1DG': 'line', 'MeshTri1DG': 'tri', 'MeshQuad1DG': 'quad', 'MeshHex1DG': 'hex'}
NVERT = {'line': 2, 'tri': 3, 'quad': 4, 'tet': 4, 'hex': 8, 'wedge': 6}


def kind_of(mesh):
    return KIND.get(type(mesh).__name__, type(mesh).__name__)


def ids(a):
    """1-based nested lists of an integer array given with entities along the LAST axis:
    shape (n_per_entity, n_entities) -> list over entities of lists."""
    a = np.asarray(a)
    if a.ndim == 1:
        return [int(x) + 1 for x in a]
    return [[int(x) + 1 for x in col] for col in a.T]


def int_coords(p, scale):
    """Exact integer coordinates p*scale as list of tuples, or None if not exact / too large."""
    q = np.asarray(p, dtype=np.float64) * scale
    r = np.rint(q)
    if not np.array_equal(q, r) or (np.abs(r) >= 2**20).any():
        return None
    return [[int(x) for x in col] for col in r.T]


def find_scale(p, maxpow=12):
    """Smallest power of two that makes all coordinates integral (None if none up to 2^maxpow)."""
    p = np.asarray(p, dtype=np.float64)
    for k in range(maxpow + 1):
        q = p * 2**k
        if np.array_equal(q, np.rint(q)):
            return 2**k
    return None


def rows_of_csc(M):
    """Per row sorted list of 1-based column ids with nonzero stored value; flag all-ones."""
    M = M.tocsr()
    M.sum_duplicates()
    out = []
    ones = 1
    for r in range(M.shape[0]):
        sl = slice(M.indptr[r], M.indptr[r + 1])
        cols, vals = M.indices[sl], M.data[sl]
        if len(vals) and not (vals == 1).all():
            ones = 0
        out.append(sorted(int(c) + 1 for c, v in zip(cols, vals) if v != 0))
    return out, ones


def local_tables(mesh):
    rd = mesh.elem.refdom
    lf = [[int(i) + 1 for i in f] for f in (rd.facets or [])]
    le = [[int(i) + 1 for i in f] for f in (rd.edges or [])]
    lfe = []
    if rd.dim() == 3 and mesh.bndelem is not None:
        lfe = [[int(i) + 1 for i in f] for f in mesh.bndelem.refdom.facets]
    return lf, le, lfe


def conn_event(mesh, with_coords=True, scale=None):
    """Everything C11 talks about, as reported by the code for `mesh`.  A secondary table whose computation
    raises is logged as missing (name in `errs`) and judged by the clause that owns it."""
    kind = kind_of(mesh)
    nv = NVERT[kind]
    three = kind in ('tet', 'hex', 'wedge')
    lf, le, lfe = local_tables(mesh)
    ev = {'a': 'Conn', 'kind': kind, 'err': '', 'nv': int(mesh.p.shape[1]),
          't': ids(mesh.t[:nv]), 'lf': lf, 'le': le, 'lfe': lfe}
    ev['facets'] = ids(mesh.facets)
    ev['t2f'] = ids(mesh.t2f)
    ev['f2t'] = ids(mesh.f2t)
    errs = []

    def opt(name, fn, default):
        try:
            ev[name] = fn()
        except Exception as exc:  # judged by the owning clause
            ev[name] = default
            errs.append(name)

    opt('bfacets', lambda: ids(mesh.boundary_facets()), [])
    opt('bnodes', lambda: ids(mesh.boundary_nodes()), [])
    opt('inodes', lambda: ids(mesh.interior_nodes()), [])
    opt('p2f', lambda: rows_of_csc(mesh.p2f)[0], [])
    opt('p2t', lambda: rows_of_csc(mesh.p2t)[0], [])
    if three:
        ev['edges'] = ids(mesh.edges)
        ev['t2e'] = ids(mesh.t2e)
        if lfe:
            opt('f2e', lambda: ids(mesh.f2e), [])
        else:
            ev['f2e'] = []
        opt('bedges', lambda: ids(mesh.boundary_edges()), [])
        opt('iedges', lambda: ids(mesh.interior_edges()), [])
        opt('p2e', lambda: rows_of_csc(mesh.p2e)[0], [])
        opt('e2t', lambda: rows_of_csc(mesh.e2t)[0], [])
    else:
        ev.update(edges=[], t2e=[], f2e=[], bedges=[], iedges=[], p2e=[], e2t=[])
    def count(fn):
        try:
            return int(fn())
        except Exception:
            return -1
    ev['counts'] = [count(lambda: mesh.nelements), count(lambda: mesh.nvertices), count(lambda: mesh.nfacets),
                    count(lambda: mesh.nedges) if three else 0, count(lambda: mesh.nnodes),
                    int(mesh.t.shape[0] == nv)]
    ev['errs'] = errs
    ev['ni'] = 1                     # 1: compared with the first event of the scenario (numbering independence)
    if with_coords:
        sc = scale or find_scale(mesh.p[:, :mesh.p.shape[1]])
        pc = int_coords(mesh.p, sc) if sc else None
        ev['p'] = pc if pc is not None else []
        ev['scale'] = int(sc) if (sc and pc is not None) else 0
    else:
        ev['p'] = []
        ev['scale'] = 0
    return ev


def mesh_record(mesh, scale=None):
    """Abstract mesh [kind, p, t, bnd, sub] with exact integer coordinates (or None)."""
    kind = kind_of(mesh)
    nv = NVERT[kind]
    sc = scale or find_scale(mesh.p)
    if sc is None:
        return None
    pc = int_coords(mesh.p, sc)
    if pc is None:
        return None
    rec = {'kind': kind, 'scale': int(sc), 'p': pc, 't': ids(mesh.t[:nv]), 'cls': type(mesh).__name__}
    return rec


def frac(x):
    return Fraction(float(x))


# ---------------------------------------------------------------- mode L: exact fixed point (spec/Fx.tla)
FX_B = 2**14
FX_NL = 5


def fx(x):
    """Fixed-point limbs <<a1..a5>> of a float / Fraction / int: x ~ a1 + a2/B + ... + a5/B^4 (B = 2^14),
    rounded to nearest at 2^-56, normal form (a2..a5 in 0..B-1, a1 signed).  Exact integer arithmetic only.
    Returns None if |x| >= 2^30 or x is not finite (the caller logs the event's err instead)."""
    if isinstance(x, (float, np.floating)):
        if not np.isfinite(x):
            return None
        q = Fraction(float(x))
    else:
        q = Fraction(x)
    n = q * FX_B**4
    r = n.numerator // n.denominator          # floor
    if 2 * (n - r) >= 1:
        r += 1
    limbs = []
    for _ in range(FX_NL - 1):
        limbs.append(int(r % FX_B))
        r //= FX_B
    if not -2**30 < r < 2**30:
        return None
    limbs.append(int(r))
    return limbs[::-1]


def fx_list(xs):
    out = [fx(x) for x in np.asarray(xs).ravel().tolist()]
    return None if any(o is None for o in out) else out


def exact_int(x, scale=1):
    """int(x*scale) if exact (and 32-bit safe), else None."""
    q = Fraction(float(x)) * scale
    if q.denominator != 1 or not -2**31 < q.numerator < 2**31:
        return None
    return int(q.numerator)


def exact_ints(a, scale=1):
    """Nested lists of exact ints for an array (row-major nested), or None if any entry is inexact."""
    a = np.asarray(a, dtype=np.float64) * scale
    r = np.rint(a)
    if not np.array_equal(a, r) or (np.abs(r) >= 2**31 - 1).any():
        return None
    return r.astype(np.int64).tolist()
