SPECIFICATION SpecOld
INVARIANT ClausesHold
CHECK_DEADLOCK FALSE
