------------------------------- MODULE Blocks -------------------------------
(* Vector-valued, composite and block structures of scikit-fem (property C19).   *)
(*                                                                               *)
(* Transcriptions ("Impl", 0-based like the code):                               *)
(*   VectorDecode          skfem/element/element_vector.py:39-52                 *)
(*   CompositeDecodeImpl   skfem/element/element_composite.py:64-104             *)
(*   DofsImpl              skfem/assembly/dofs.py:264-336 (offset blocks)        *)
(*   SplitIndicesImpl      skfem/assembly/basis/abstract_basis.py:324-356        *)
(*   CompositeBasisImpl    skfem/assembly/basis/composite_basis.py:50-100        *)
(*   Coo*Impl              skfem/assembly/form/coo_data.py:38-116,192-208        *)
(*   BmatImpl              skfem/utils.py:667-694                                *)
(* Relational clauses (1-based, on what the code reported): DecodeIsBijection,   *)
(* SplitPartitions, CellTableMatchesComponents, BasisTableMatchesComponents,     *)
(* SplitInterpolateCommutes, BlockMatrixEqualsCoupled, ListAssemblySums,         *)
(* LocalRoundTrip, LocalMatchesElemental, InverseIsLocalInverse,                 *)
(* DenseSparseAgree, DotAgrees, AddAgrees, BmatAgrees, BmatBlockOffsets,         *)
(* CompositeBasisOffsets.                                                        *)
EXTENDS AssemblySem

\* ===========================================================================
\* element signatures: sig = [nodal, edge, facet, interior] DOFs per entity;
\* ref = [nnodes, nedges, nfacets] of the reference cell (Element._bfun_counts)
BfunCounts(sig, ref) == <<sig.nodal * ref.nnodes, sig.edge * ref.nedges, sig.facet * ref.nfacets, sig.interior>>
NBfun(sig, ref) == LET c == BfunCounts(sig, ref) IN c[1] + c[2] + c[3] + c[4]
KindDofs(sig, kind) == CASE kind = 1 -> sig.nodal [] kind = 2 -> sig.edge [] kind = 3 -> sig.facet [] kind = 4 -> sig.interior

Rep(x, n) == [m \in 1..n |-> x]
RECURSIVE ConcatAll(_)
ConcatAll(ss) == IF ss = <<>> THEN <<>> ELSE Head(ss) \o ConcatAll(Tail(ss))

\* element_vector.py:41-42   ind = floor(i / dim); n = i - dim * ind        (i 0-based)
VectorDecode(i, dim) == [n |-> i - dim * (i \div dim), ind |-> i \div dim]

\* element_composite.py:64-104   _deduce_bfun  (sigs: sequence of component signatures; components numbered from 0)
CompositeNs(sigs, ref) ==
  LET counts == [kind \in 1..4 |-> SumN(Len(sigs), LAMBDA j : BfunCounts(sigs[j], ref)[kind])]       \* :66-67
      tmp(kind) == ConcatAll([j \in 1..Len(sigs) |-> Rep(j - 1, KindDofs(sigs[j], kind))])           \* :71-72 ...
      part(kind) == IF counts[kind] > 0                                                               \* :70,74,78,82
                    THEN ConcatAll(Rep(tmp(kind), counts[kind] \div Len(tmp(kind))))                  \* :73 ...
                    ELSE <<>>
  IN part(1) \o part(2) \o part(3) \o part(4)
CompositeDecodeImpl(sigs, ref, i) ==                 \* i 0-based; returns component n and the index ind inside it
  LET ns == CompositeNs(sigs, ref)
      \* :87-93  inds[mask == j] = arange(total): running count of earlier entries of the same component
      ind == Cardinality({m \in 1..i : ns[m] = ns[i + 1]})
  IN [n |-> ns[i + 1], ind |-> ind]

\* dofs.py:264-336  numbering in offset blocks (entity-major, 'F' order), per-cell gather in the order
\* nodal (per local vertex all rows), edge, facet, interior.   topo = [nv, ne, nf, nt, dim, t[k][a], t2e[k][a], t2f[k][a]]
\* with 0-based entity ids.
DofsImpl(sig, topo) ==
  LET nd == sig.nodal  ed == IF topo.dim = 3 THEN sig.edge ELSE 0  fd == sig.facet  idf == sig.interior
      o1 == nd * topo.nv                                   \* :273
      o2 == o1 + ed * topo.ne                              \* :282
      o3 == o2 + fd * topo.nf                              \* :293
      nodal(r, v)    == v * nd + r                         \* :269-272 reshape(arange, (nd, nv), order='F')
      edge(r, g)     == o1 + g * ed + r                    \* :277-281
      facet(r, f)    == o2 + f * fd + r                    \* :288-292
      interior(r, k) == o3 + k * idf + r                   \* :298-301
      cell(k) == ConcatAll([a \in 1..Len(topo.t[k]) |-> [r \in 1..nd |-> nodal(r - 1, topo.t[k][a])]])            \* :307-311
                 \o (IF topo.dim = 3 /\ ed > 0
                     THEN ConcatAll([a \in 1..Len(topo.t2e[k]) |-> [r \in 1..ed |-> edge(r - 1, topo.t2e[k][a])]]) \* :314-319
                     ELSE <<>>)
                 \o (IF topo.dim >= 2 /\ fd > 0
                     THEN ConcatAll([a \in 1..Len(topo.t2f[k]) |-> [r \in 1..fd |-> facet(r - 1, topo.t2f[k][a])]]) \* :322-327
                     ELSE <<>>)
                 \o [r \in 1..idf |-> interior(r - 1, k - 1)]                                                       \* :330-334
  IN [N |-> o3 + idf * topo.nt,
      nodal |-> [r \in 1..nd |-> [v \in 1..topo.nv |-> nodal(r - 1, v - 1)]],
      edge  |-> [r \in 1..ed |-> [g \in 1..topo.ne |-> edge(r - 1, g - 1)]],
      facet |-> [r \in 1..fd |-> [f \in 1..topo.nf |-> facet(r - 1, f - 1)]],
      interior |-> [r \in 1..idf |-> [k \in 1..topo.nt |-> interior(r - 1, k - 1)]],
      edofs |-> [k \in 1..topo.nt |-> cell(k)]]            \* edofs[k][i]  (cell-major here)

SumSig(sigs) == [nodal |-> SumN(Len(sigs), LAMBDA j : sigs[j].nodal), edge |-> SumN(Len(sigs), LAMBDA j : sigs[j].edge),
                 facet |-> SumN(Len(sigs), LAMBDA j : sigs[j].facet), interior |-> SumN(Len(sigs), LAMBDA j : sigs[j].interior)]
VecSig(sig, dim) == [nodal |-> sig.nodal * dim, edge |-> sig.edge * dim, facet |-> sig.facet * dim, interior |-> sig.interior * dim]

\* rows[o : o+n] of a table, flattened in 'F' order (entity-major)
FlatF(tab, rows) == IF rows = <<>> \/ tab = <<>> THEN <<>>
                    ELSE ConcatAll([x \in 1..Len(tab[1]) |-> [m \in 1..Len(rows) |-> tab[rows[m]][x]]])
\* abstract_basis.py:327-344  (composite)   D = DofsImpl(SumSig(sigs), topo)
SplitIndicesImpl(sigs, D, dim) ==
  [k \in 1..Len(sigs) |->
     LET o(kind) == SumN(k - 1, LAMBDA j : KindDofs(sigs[j], kind))                               \* :340-343 running offsets
         rows(kind) == [m \in 1..(IF kind = 2 /\ dim # 3 THEN 0 ELSE KindDofs(sigs[k], kind)) |-> o(kind) + m]
     IN FlatF(D.nodal, rows(1)) \o FlatF(D.edge, rows(2)) \o FlatF(D.facet, rows(3)) \o FlatF(D.interior, rows(4))]
\* abstract_basis.py:345-355  (vector)   D = DofsImpl(VecSig(sig, ndims), topo):  rows k::ndims
SplitIndicesVecImpl(sig, ndims, D) ==
  [k \in 1..ndims |->
     LET rows(tab) == SelectSeq([m \in 1..Len(tab) |-> m], LAMBDA m : (m - 1) % ndims = k - 1)
     IN FlatF(D.nodal, rows(D.nodal)) \o FlatF(D.edge, rows(D.edge)) \o FlatF(D.facet, rows(D.facet))
        \o FlatF(D.interior, rows(D.interior))]

\* ===========================================================================
\* relational clauses on reported tables (1-based ids)
\* dec[i] = <<n, ind>>, component n in 1..ncomp, ind in 1..nbs[n]
DecodeIsBijection(dec, nbs) ==
  /\ Len(dec) = SumN(Len(nbs), LAMBDA n : nbs[n])
  /\ \A i \in DOMAIN dec : dec[i][1] \in DOMAIN nbs /\ dec[i][2] \in 1..nbs[dec[i][1]]
  /\ \A i, j \in DOMAIN dec : i # j => dec[i] # dec[j]
\* the index sets of the components partition the DOFs of the whole, each as long as the component space
SplitPartitions(split, N, Ns) ==
  /\ Len(split) = Len(Ns)
  /\ \A n \in DOMAIN split : Len(split[n]) = Ns[n] /\ IsInjectiveSeq(split[n]) /\ \A p \in DOMAIN split[n] : split[n][p] \in 1..N
  /\ \A n, m \in DOMAIN split : n # m => VSet(split[n]) \cap VSet(split[m]) = {}
  /\ UNION {VSet(split[n]) : n \in DOMAIN split} = 1..N
\* composite.edofs[i][K] = split[n][comp_n.edofs[ind][K]]
CellTableMatchesComponents(Bc, dec, split, Bs) ==
  /\ \A n \in DOMAIN Bs : Bs[n].nel = Bc.nel
  /\ \A i \in 1..Bc.nb : \A k \in 1..Bc.nel :
        Bc.edofs[i][k] = split[dec[i][1]][Bs[dec[i][1]].edofs[dec[i][2]][k]]
\* local function i of the whole is local function ind of component n in the components of n and zero elsewhere;
\* coff[n] = number of scalar components before those of component n
BasisTableMatchesComponents(Bc, dec, Bs, coff) ==
  /\ Bc.nc = SumN(Len(Bs), LAMBDA n : Bs[n].nc)
  /\ \A n \in DOMAIN Bs : Bs[n].sphi = Bc.sphi /\ Bs[n].nq = Bc.nq /\ Bs[n].nel = Bc.nel
  /\ \A i \in 1..Bc.nb : \A c \in 1..Bc.nc :
        LET n == dec[i][1] IN
        IF c > coff[n] /\ c <= coff[n] + Bs[n].nc THEN Bc.phi[i][c] = Bs[n].phi[dec[i][2]][c - coff[n]]
        ELSE \A k \in 1..Bc.nel : \A q \in 1..Bc.nq : Bc.phi[i][c][k][q] = 0
\* interpolate(whole, x) restricted to component n  =  interpolate(component n, x[split_n])
SubVec(x, ix) == [p \in DOMAIN ix |-> x[ix[p]]]
SplitInterpolateCommutes(whole, parts, x, Bc, Bs, split, coff) ==
  /\ IsTable3(whole, Bc.nc, Bc.nel, Bc.nq)
  /\ \A n \in DOMAIN Bs :
       /\ IsTable3(parts[n], Bs[n].nc, Bs[n].nel, Bs[n].nq)
       /\ Bs[n].nel = Bc.nel /\ Bs[n].nq = Bc.nq
       /\ \A c \in 1..Bs[n].nc : parts[n][c] = whole[coff[n] + c]                       \* code against code
       /\ LET def == Interp(Bs[n], SubVec(x, split[n])) IN                               \* and against the definition
          \A c \in 1..Bs[n].nc : \A k \in 1..Bc.nel : \A q \in 1..Bc.nq : parts[n][c][k][q] = def[c][k][q]
\* A_whole[split_n[r], split_m[c]] = A_nm[r][c]   (rows: test component n, columns: trial component m)
BlockMatrixEqualsCoupled(A, blocks, split) ==
  /\ \A b \in DOMAIN blocks :
       LET n == blocks[b].n  m == blocks[b].m  Ab == blocks[b].A IN
       /\ Ab.shape = <<Len(split[n]), Len(split[m])>>
       /\ \A x \in MatPos(Ab) : MatAt(Ab, x[1], x[2]) = MatAt(A, split[n][x[1]], split[m][x[2]])
       /\ \A x \in MatPos(A) : \A r \in DOMAIN split[n] : \A c \in DOMAIN split[m] :
             (split[n][r] = x[1] /\ split[m][c] = x[2]) => MatAt(A, x[1], x[2]) = MatAt(Ab, r, c)

\* sum of matrices / vectors
MatSumAt(As, r, c) == SumN(Len(As), LAMBDA a : MatAt(As[a], r, c))
ListAssemblySums(Alist, parts) ==
  /\ \A a \in DOMAIN parts : parts[a].shape = Alist.shape
  /\ \A x \in MatPos(Alist) \cup UNION {MatPos(parts[a]) : a \in DOMAIN parts} : MatAt(Alist, x[1], x[2]) = MatSumAt(parts, x[1], x[2])
VecListSums(blist, parts) ==
  /\ \A a \in DOMAIN parts : Len(parts[a]) = Len(blist)
  /\ \A r \in DOMAIN blist : blist[r] = SumN(Len(parts), LAMBDA a : parts[a][r])

\* ---------------------------------------------------------------------------
\* COOData (1-based indices in events).  coo = [idx |-> <<rows, cols>> (one sequence per tensor axis), data, shape, lshape]
CooOrder(coo) == Len(coo.shape)
CooAt(coo, pos) == LET S == {n \in DOMAIN coo.data : \A ax \in 1..CooOrder(coo) : coo.idx[ax][n] = pos[ax]}
                   IN SumOver([n \in S |-> coo.data[n]], S)
CooPositions(coo) == {[ax \in 1..CooOrder(coo) |-> coo.idx[ax][n]] : n \in DOMAIN coo.data}
CooWF(coo) == /\ Len(coo.idx) = CooOrder(coo)
              /\ \A ax \in 1..CooOrder(coo) : Len(coo.idx[ax]) = Len(coo.data)
                     /\ \A n \in DOMAIN coo.data : coo.idx[ax][n] \in 1..coo.shape[ax]
\* dense array (nested sequences, order 1..3) equals the sum of the triplets
RECURSIVE DenseAt(_, _)
DenseAt(arr, pos) == IF pos = <<>> THEN arr ELSE DenseAt(arr[Head(pos)], Tail(pos))
RECURSIVE DenseShapeOK(_, _)
DenseShapeOK(arr, shape) == IF shape = <<>> THEN TRUE
                            ELSE Len(arr) = Head(shape) /\ \A a \in DOMAIN arr : DenseShapeOK(arr[a], Tail(shape))
RECURSIVE AllPos(_)
AllPos(shape) == IF shape = <<>> THEN {<<>>} ELSE {<<a>> \o p : a \in 1..Head(shape), p \in AllPos(Tail(shape))}
DenseSparseAgree(coo, dense) ==
  /\ DenseShapeOK(dense, coo.shape)
  /\ \A pos \in AllPos(coo.shape) : DenseAt(dense, pos) = CooAt(coo, pos)
\* matrix-vector product, optionally keeping the entries D unchanged   (coo_data.py:192-208)
DotAgrees(coo, x, D, y) ==
  /\ Len(y) = Len(x)
  /\ \A r \in DOMAIN y : y[r] = IF r \in D THEN x[r]
                                ELSE LET S == {n \in DOMAIN coo.data : coo.idx[1][n] = r}
                                     IN SumOver([n \in S |-> coo.data[n] * x[coo.idx[2][n]]], S)
\* sum of two elemental-data objects: the tensor sum, in the larger of the two shapes
AddAgrees(c1, c2, sum) ==
  /\ CooOrder(sum) = CooOrder(c1)
  /\ \A ax \in 1..CooOrder(c1) : sum.shape[ax] = Max2(c1.shape[ax], c2.shape[ax])
  /\ \A pos \in CooPositions(c1) \cup CooPositions(c2) \cup CooPositions(sum) : CooAt(sum, pos) = CooAt(c1, pos) + CooAt(c2, pos)
\* per-cell local matrices: the data of cell k as a matrix.  The elemental matrix of cell k is
\* E_k[i][j] = contribution of test function i and trial function j (loc of AssemblySem.BilLocal); the property does
\* not fix which axis of the local matrix is the test axis, so either orientation is accepted -- but the same one for
\* every cell and every entry.
LocalMatchesElemental(local, loc, NV, NU) ==
  /\ Len(local) = Len(loc)
  /\ \/ /\ \A k \in DOMAIN local : Len(local[k]) = NV /\ \A i \in 1..NV : Len(local[k][i]) = NU
        /\ \A k \in DOMAIN local : \A i \in 1..NV : \A j \in 1..NU : local[k][i][j] = loc[k][i][j]
     \/ /\ \A k \in DOMAIN local : Len(local[k]) = NU /\ \A j \in 1..NU : Len(local[k][j]) = NV
        /\ \A k \in DOMAIN local : \A i \in 1..NV : \A j \in 1..NU : local[k][j][i] = loc[k][i][j]
LocalRoundTrip(coo, back) == back.data = coo.data /\ back.idx = coo.idx /\ back.shape = coo.shape
\* L_k * Linv_k = identity for every cell (scaled integers: sl * si on the diagonal)
MatMulAt(X, Y, a, b) == SumN(Len(Y), LAMBDA m : X[a][m] * Y[m][b])
InverseIsLocalInverse(local, linv, sl, si) ==
  /\ Len(linv) = Len(local)
  /\ \A k \in DOMAIN local :
       LET n == Len(local[k]) IN
       /\ Len(linv[k]) = n /\ \A a \in 1..n : Len(linv[k][a]) = n /\ Len(local[k][a]) = n
       /\ \A a, b \in 1..n : MatMulAt(local[k], linv[k], a, b) = IF a = b THEN sl * si ELSE 0
\* summing facet-local matrices to cells: elemental[k] = sum over the facets f of cell k of local_f  (coo_data.py:58-62)
FacetLocalSumsToCells(local, find, t2f, out) ==
  /\ Len(out) = Len(t2f)
  /\ \A k \in DOMAIN t2f : \A a \in DOMAIN out[k] : \A b \in DOMAIN out[k][a] :
        out[k][a][b] = SumN(Len(t2f[k]), LAMBDA s :
                          LET P == {p \in DOMAIN find : find[p] = t2f[k][s]} IN SumOver([p \in P |-> local[p][a][b]], P))

\* ---------------------------------------------------------------------------
\* bmat (utils.py:667-694): blocks[i][j] is a dense matrix [shape, rows] or <<>> for None;
\* rh[i], cw[j] are the block heights / widths.
BmatAgrees(blocks, rh, cw, dense) ==
  LET roff(i) == SumN(i - 1, LAMBDA a : rh[a])  coff(j) == SumN(j - 1, LAMBDA a : cw[a]) IN
  /\ Len(dense) = SumN(Len(rh), LAMBDA a : rh[a])
  /\ \A r \in DOMAIN dense : Len(dense[r]) = SumN(Len(cw), LAMBDA a : cw[a])
  /\ \A i \in DOMAIN blocks : \A j \in DOMAIN blocks[i] : \A r \in 1..rh[i] : \A c \in 1..cw[j] :
        dense[roff(i) + r][coff(j) + c] = IF blocks[i][j] = <<>> THEN 0 ELSE blocks[i][j][r][c]
\* mat.blocks: "block indices", the column offsets at which the 2nd, 3rd, ... block column starts
BmatBlockOffsets(cw, offs) == offs = [j \in 1..(Len(cw) - 1) |-> SumN(j, LAMBDA a : cw[a])]

\* ---------------------------------------------------------------------------
\* CompositeBasis (composite_basis.py): cell->DOF tables stacked with offsets (none when equal_dofnum),
\* basis functions of part m are zero in the fields of the other parts.
\* The ORDER of the local functions inside the combination is representation (it is not observable through split /
\* interpolate / assembly), so they are compared as a bag of (cell->DOF row, table of values).
CompositeBasisOffsets(Bc, Bs, equal, coff) ==
  LET off(m) == IF equal = 1 THEN 0 ELSE SumN(m - 1, LAMBDA a : Bs[a].N)
      boff(m) == SumN(m - 1, LAMBDA a : Bs[a].nb)
      zero == [k \in 1..Bc.nel |-> [q \in 1..Bc.nq |-> 0]]
      partof(i) == CHOOSE m \in DOMAIN Bs : i > boff(m) /\ i <= boff(m) + Bs[m].nb
      want == TLCEval([i \in 1..Bc.nb |->
                LET m == partof(i)  j == i - boff(m) IN
                <<[k \in 1..Bc.nel |-> Bs[m].edofs[j][k] + off(m)],
                  [c \in 1..Bc.nc |-> IF c > coff[m] /\ c <= coff[m] + Bs[m].nc THEN Bs[m].phi[j][c - coff[m]] ELSE zero]>>])
      got  == TLCEval([i \in 1..Bc.nb |-> <<Bc.edofs[i], Bc.phi[i]>>])
  IN
  /\ Bc.N = (IF equal = 1 THEN Bs[1].N ELSE SumN(Len(Bs), LAMBDA a : Bs[a].N))
  /\ Bc.nb = SumN(Len(Bs), LAMBDA a : Bs[a].nb) /\ Bc.nel = Bs[1].nel /\ Bc.nq = Bs[1].nq /\ Bc.dx = Bs[1].dx
  /\ \A m \in DOMAIN Bs : Bs[m].nel = Bc.nel /\ Bs[m].nq = Bc.nq
  /\ \A i \in 1..Bc.nb : Cardinality({i2 \in 1..Bc.nb : got[i2] = got[i]}) = Cardinality({i2 \in 1..Bc.nb : want[i2] = got[i]})

\* ===========================================================================
\* COOData transcriptions (0-based), used by the model MC_C19
\* coo = [idx |-> sequence of index arrays, data, shape, lshape]; arrays are sequences here (position p = index p-1)
CooAddImpl(a, b) ==                                                  \* coo_data.py:74-87
  [idx |-> [ax \in DOMAIN a.idx |-> a.idx[ax] \o b.idx[ax]],         \* np.hstack((self.indices, other.indices))
   data |-> a.data \o b.data,
   shape |-> [ax \in DOMAIN a.shape |-> Max2(a.shape[ax], b.shape[ax])],
   lshape |-> <<>>]                                                  \* local_shape=None
\* tolocal (coo_data.py:44-62): np.moveaxis(data.reshape(local_shape + (-1,), order='C'), -1, 0), matrices only
CooToLocalImpl(coo) ==
  LET n1 == coo.lshape[1]  n2 == coo.lshape[2]  nt == Len(coo.data) \div (n1 * n2) IN
  [k \in 1..nt |-> [a \in 1..n1 |-> [b \in 1..n2 |-> coo.data[((a - 1) * n2 + (b - 1)) * nt + k]]]]
\* fromlocal (coo_data.py:64-69): np.moveaxis(local, 0, -1).flatten('C')
CooFromLocalImpl(coo, local) ==
  LET nt == Len(local)  n1 == Len(local[1])  n2 == Len(local[1][1]) IN
  [coo EXCEPT !.data = [p \in 1..(n1 * n2 * nt) |->
       local[((p - 1) % nt) + 1][((p - 1) \div (n2 * nt)) + 1][(((p - 1) \div nt) % n2) + 1]]]
\* toarray for matrices (tocsr().toarray()) and the generic N-tensor loop (coo_data.py:99-116)
CooToArrayImpl(coo) ==
  LET acc[n \in 0..Len(coo.data)] ==
        IF n = 0 THEN [pos \in AllPos(coo.shape) |-> 0]
        ELSE LET pos == [ax \in 1..Len(coo.shape) |-> coo.idx[ax][n] + 1] IN
             [acc[n - 1] EXCEPT ![pos] = @ + coo.data[n]]                      \* out[tuple(indices[:, itr])] += data[itr]
  IN acc[Len(coo.data)]
\* dot (coo_data.py:192-208): y = data * x[indices[1]]; np.add.at(z, indices[0], y); z[D] = x[D]
CooDotImpl(coo, x, D) ==
  LET y == [n \in DOMAIN coo.data |-> coo.data[n] * x[coo.idx[2][n] + 1]]
      acc[n \in 0..Len(coo.data)] ==
        IF n = 0 THEN [r \in DOMAIN x |-> 0]
        ELSE [acc[n - 1] EXCEPT ![coo.idx[1][n] + 1] = @ + y[n]]
  IN [r \in DOMAIN x |-> IF (r - 1) \in D THEN x[r] ELSE acc[Len(coo.data)][r]]
\* inverse of 2x2 unimodular-determinant local matrices (np.linalg.inv, exact when det = +-1)
Inv2(Lm) == LET d == Lm[1][1] * Lm[2][2] - Lm[1][2] * Lm[2][1] IN
            <<<<d * Lm[2][2], -d * Lm[1][2]>>, <<-d * Lm[2][1], d * Lm[1][1]>>>>
CooInverseImpl(coo) == CooFromLocalImpl(coo, [k \in DOMAIN CooToLocalImpl(coo) |-> Inv2(CooToLocalImpl(coo)[k])])   \* :71-73

\* 1-based view of a 0-based coo for the relational clauses
Coo1(coo) == [coo EXCEPT !.idx = [ax \in DOMAIN coo.idx |-> [n \in DOMAIN coo.idx[ax] |-> coo.idx[ax][n] + 1]]]

\* bmat block offsets (utils.py:676-690): for j in range(n-1): first non-None block of column j:
\*   sizes.append(width + diff); diff = sizes[-1]
BmatOffsetsImpl(cw) ==
  LET st[j \in 0..(Len(cw) - 1)] ==
        IF j = 0 THEN [sizes |-> <<>>, diff |-> 0]
        ELSE LET s == cw[j] + st[j - 1].diff IN [sizes |-> Append(st[j - 1].sizes, s), diff |-> s]
  IN st[Len(cw) - 1].sizes
\* regression model: the accumulation before the repair 3bbf4b4 (diff += sizes[-1], although sizes already holds
\* cumulative offsets).  TLC must refute BmatBlockOffsets for it (MC_C19_bmat_old.cfg): four block columns of width 1.
BmatOffsetsOldImpl(cw) ==
  LET st[j \in 0..(Len(cw) - 1)] ==
        IF j = 0 THEN [sizes |-> <<>>, diff |-> 0]
        ELSE LET s == cw[j] + st[j - 1].diff IN [sizes |-> Append(st[j - 1].sizes, s), diff |-> st[j - 1].diff + s]
  IN st[Len(cw) - 1].sizes
==============================================================================
