"""C02 - integration is exact for polynomial data on cells and facets (mode L, exact oracles in TLA+).

V/L : real Functional / BilinearForm / LinearForm assemblies on real CellBasis / FacetBasis objects over
      integer-coordinate meshes (lattice universes, irregular integer triangulations of boxes, sheared and
      jiggled quadrilaterals, cube splittings, parallelepiped hexahedra, extruded prisms, second-order straight
      meshes) are recorded as fixed-point numbers; spec/TraceC02.tla (-> Integration.tla, Numeric.tla,
      GeomNum.tla) recomputes the exact integral / measure / element matrix from the integer geometry and
      compares.  Later events of a scenario are the same region renumbered, moved rigidly (incl. reflections)
      or refined: the scalar must not change.
M   : spec/MC_C02.cfg - the closed forms are mutually consistent on the lattice universes (sum of simplex
      integrals over every triangulation of the box = box closed form, invariance under vertex permutations,
      Kuhn / prism decompositions, structural identities of the re-derived P1/P2 tables).
"""
import itertools
import os
from fractions import Fraction

import numpy as np

from .. import universe as U
from ..core import guarded as _core_guarded, MachineryError
from ..numeric import fr, fx_req
from ..project import find_scale, ids


def guarded(fn, seconds):
    """core.guarded with a generous alarm; an expired alarm says something about the MACHINE (load, a slow box), not
    about the library -- none of the calls driven here can loop -- so it is a machinery failure (exit 2), never an
    observation a clause could turn into a VIOLATION."""
    res, err = _core_guarded(fn, 10 * seconds)
    if err == 'Timeout':
        raise MachineryError('per-call alarm expired (%d s): machine too slow or overloaded' % (10 * seconds))
    return res, err

RULE = ('scenario = one geometric region (cells or facets of an integer-coordinate mesh) with one integrand / '
        'element / form, observed on the mesh as generated and on renumbered, rigidly moved and refined copies; '
        'non-trivial = region has >= 2 entities or polynomial degree >= 1; distinct = distinct recipe.')

NV = {'line': 2, 'tri': 3, 'quad': 4, 'tet': 4, 'hex': 8, 'wedge': 6}
DIM = {'line': 1, 'tri': 2, 'quad': 2, 'tet': 3, 'hex': 3, 'wedge': 3}
DEFAULT_ELEM = {'line': 'ElementLineP1', 'tri': 'ElementTriP1', 'quad': 'ElementQuad1', 'tet': 'ElementTetP1',
                'hex': 'ElementHex1', 'wedge': 'ElementWedge1'}
SECOND = {'tri': 'MeshTri2', 'quad': 'MeshQuad2', 'tet': 'MeshTet2', 'hex': 'MeshHex2'}
# partition-of-unity (nodal Lagrange / serendipity) elements per cell kind
POU = {'line': ['ElementLineP0', 'ElementLineP1', 'ElementLineP2'],
       'tri': ['ElementTriP0', 'ElementTriP1', 'ElementTriP2', 'ElementTriP3', 'ElementTriP4'],
       'quad': ['ElementQuad0', 'ElementQuad1', 'ElementQuad2', 'ElementQuadS2'],
       'tet': ['ElementTetP0', 'ElementTetP1', 'ElementTetP2'],
       'hex': ['ElementHex0', 'ElementHex1', 'ElementHex2', 'ElementHexS2'],
       'wedge': ['ElementWedge1']}
PK = {'line': ['ElementLineP0', 'ElementLineP1', 'ElementLineP2'],
      'tri': ['ElementTriP0', 'ElementTriP1', 'ElementTriP2'],
      'tet': ['ElementTetP0', 'ElementTetP1', 'ElementTetP2']}


def elem_of(name):
    import skfem
    return getattr(skfem, name)()


# ------------------------------------------------------------------------------------------------ meshes
def build_mesh(v, info=None):
    """v: {'kind', 'p', 't', 'second': 0/1, 'refine': k, 'moves': [...], 'warm': 0/1}.
    With 'moves' the mesh is first tagged (the tags travel with it), USED (bases, facet bases, a functional: this
    initialises the lazily created attributes and the cached mapping) and only then moved by the library's own
    translated / mirrored / scaled / morphed; the moved object is returned as it is.  info['P'] receives the vertex
    coordinates the moved mesh must have, computed here from the recipe (exact: small integers and halves)."""
    import skfem
    kind = v['kind']
    kw = {'sort_t': False} if kind == 'tri' else {}
    m = U.make(kind, v['p'], v['t'], **kw)
    if v.get('refine'):
        m = m.refined(int(v['refine']))
    if v.get('second'):
        m = getattr(skfem, SECOND[kind]).from_mesh(m)
    if not v.get('moves'):
        return m
    reg = v['region']
    dt = getattr(np, reg.get('dtype', 'int64'))
    if reg['dom'] == 'cells' and reg['mode'] == 'tag':
        m = m.with_subdomains({'r': np.array(reg['cells'], dtype=dt)})
    elif reg['dom'] == 'cells' and reg['mode'] == 'multi':
        tags = {f'r{j}': np.array(pt['ix'], dtype=dt) for j, pt in enumerate(reg['parts']) if pt['as'] == 'tag'}
        if tags:
            m = m.with_subdomains(tags)
    elif reg['dom'] == 'facets' and reg['mode'] == 'tag':
        m = m.with_boundaries({'b': np.array(facet_ids(m, reg['fverts']), dtype=dt)})
    elif reg['dom'] == 'facets' and reg['mode'] == 'multi':
        tags = {f'b{j}': np.array(facet_ids(m, pt['fverts']), dtype=dt)
                for j, pt in enumerate(reg['parts']) if pt['as'] == 'tag'}
        if tags:
            m = m.with_boundaries(tags)
    if v.get('warm', 1):
        from skfem import Basis, FacetBasis, Functional
        e = elem_of(DEFAULT_ELEM[kind]) if not v.get('second') else m.elem()
        Functional(lambda w: 1.0 + w.x[0]).assemble(Basis(m, e))
        if kind != 'wedge':
            Functional(lambda w: 1.0 + w.x[0]).assemble(FacetBasis(m, e))
    P = np.array(m.p, dtype=np.float64)
    for mv in v['moves']:
        op = mv['op']
        if op == 'translated':
            d = [float(x) for x in mv['d']]
            m = m.translated(tuple(d))
            P = P + np.array(d)[:, None]
        elif op == 'mirrored':
            ax, c, ln = int(mv['axis']), float(mv['c']), float(mv.get('len', 1))
            n = [0.0] * P.shape[0]
            n[ax] = ln                                   # the library normalises the normal
            pt = [0.0] * P.shape[0]
            pt[ax] = c
            m = m.mirrored(tuple(n)) if (c == 0 and mv.get('nopoint')) else m.mirrored(tuple(n), tuple(pt))
            P = P.copy()
            P[ax] = 2 * c - P[ax]
        elif op == 'scaled':
            f = [float(x) for x in mv['f']]
            m = m.scaled(f)
            P = P * np.array(f)[:, None]
        elif op == 'morphed':                             # shear  x_i += k * x_j
            i, j, k = int(mv['i']), int(mv['j']), float(mv['k'])
            fs = [None] * P.shape[0]
            fs[i] = (lambda q, i=i, j=j, k=k: q[i] + k * q[j])
            m = m.morphed(*fs)
            P = P.copy()
            P[i] = P[i] + k * P[j]
        else:
            raise MachineryError('unknown move ' + op)
    if info is not None:
        info['P'] = P
    return m


class TagDropped(Exception):
    """The library dropped the tag on the way (documented: 'named boundaries invalidated'): nothing to observe."""


def reftag_basis(v, elemname, order):
    """The region of v (cells or facets of the ORIGINAL mesh, without repetitions) is attached to the original mesh as
    a tag; the mesh then goes through the library's refinement operations v['reftag'] (refined(k) in one call, refined
    twice, adaptive steps, restrict -> refine); the basis integrates over the tag on the final mesh.  Returned with
    the geometry of the ORIGINAL region, over which the closed form is taken."""
    from skfem import Basis, FacetBasis
    kind = v['kind']
    kw = {'sort_t': False} if kind == 'tri' else {}
    m0 = U.make(kind, v['p'], v['t'], **kw)
    reg = v['region']
    if reg['dom'] == 'cells':
        cells = sorted(set(int(c) for c in reg['cells']))
        m = m0.with_subdomains({'r': np.array(cells, dtype=np.int32)})
        ents = ids(m0.t[:NV[kind], cells])
    else:
        find = sorted(set(facet_ids(m0, reg['fverts'])))
        m = m0.with_boundaries({'b': np.array(find, dtype=np.int32)})
        ents = ids(m0.facets[:, find])
    for op in v['reftag']:
        if op[0] == 'refined':
            m = m.refined(int(op[1]))
        elif op[0] == 'adaptive':
            m = m.refined(np.array(op[1], dtype=np.int64))
        elif op[0] == 'restrict':
            m = m.restrict(np.array(op[1], dtype=np.int64))
        else:
            raise MachineryError('unknown refinement op')
    e = elem_of(elemname)
    kwb = {} if order is None else {'intorder': int(order)}
    if reg['dom'] == 'cells':
        if not m.subdomains or 'r' not in m.subdomains:
            raise TagDropped()
        basis = Basis(m, e, elements='r', **kwb)
    else:
        if not m.boundaries or 'b' not in m.boundaries:
            raise TagDropped()
        basis = FacetBasis(m, e, facets='b', **kwb)
    pts = [[int(x) for x in col] for col in np.rint(np.asarray(m0.p)).T]
    return basis, pts, ents


def facet_ids(mesh, fverts):
    """ids of the facets with the given vertex sets (fverts: list of vertex-id lists, 0-based)."""
    key = {tuple(sorted(set(int(x) for x in col))): j for j, col in enumerate(mesh.facets.T)}
    return [key[tuple(sorted(set(f)))] for f in fverts]


def make_basis(mesh, v, elemname, order):
    """The real CellBasis / FacetBasis for the region description v['region']."""
    from skfem import Basis, FacetBasis
    reg = v['region']
    e = elem_of(elemname)
    kw = {} if order is None else {'intorder': int(order)}
    dt = getattr(np, reg.get('dtype', 'int64'))
    if reg['dom'] == 'cells':
        mode = reg['mode']
        if mode == 'all':
            return Basis(mesh, e, **kw), list(range(mesh.t.shape[1]))
        cells = [int(c) for c in reg['cells']]
        if mode == 'array':
            return Basis(mesh, e, elements=np.array(cells, dtype=dt), **kw), cells
        if mode == 'tag':
            m2 = mesh if v.get('moves') else mesh.with_subdomains({'r': np.array(cells, dtype=dt)})
            return Basis(m2, e, elements='r', **kw), cells
        if mode == 'named':                      # a tag the (shared) mesh object already carries
            return Basis(mesh, e, elements=reg['name'], **kw), cells
        # mode 'multi': a list / tuple / set of selectors (tags, index arrays, single indices) that may overlap;
        # the region is their union (reg['cells'], sorted)
        tags = {f'r{j}': np.array(pt['ix'], dtype=dt) for j, pt in enumerate(reg['parts']) if pt['as'] == 'tag'}
        m2 = mesh.with_subdomains(tags) if (tags and not v.get('moves')) else mesh
        sel = []
        for j, pt in enumerate(reg['parts']):
            sel.append(f'r{j}' if pt['as'] == 'tag' else (int(pt['ix'][0]) if pt['as'] == 'int'
                                                            else np.array(pt['ix'], dtype=dt)))
        sel = {'list': list, 'tuple': tuple, 'set': set}[reg['container']](sel)
        return Basis(m2, e, elements=sel, **kw), cells
    mode = reg['mode']
    if mode == 'boundary':
        b = FacetBasis(mesh, e, **kw)
        return b, None
    find = facet_ids(mesh, reg['fverts'])
    if mode == 'array':
        # side = 1: the traces are taken from the second neighbour (interior facets only); same facets, same measure
        return FacetBasis(mesh, e, facets=np.array(find, dtype=dt), side=int(reg.get('side', 0)), **kw), find
    if mode == 'tag':
        m2 = mesh if v.get('moves') else mesh.with_boundaries({'b': np.array(find, dtype=dt)})
        return FacetBasis(m2, e, facets='b', **kw), find
    tags, sel = {}, []
    for j, pt in enumerate(reg['parts']):
        ids_ = np.array(facet_ids(mesh, pt['fverts']), dtype=dt)
        if pt['as'] == 'tag':
            tags[f'b{j}'] = ids_
            sel.append(f'b{j}')
        elif pt['as'] == 'int':
            sel.append(int(ids_[0]))
        else:
            sel.append(ids_)
    m2 = mesh.with_boundaries(tags) if (tags and not v.get('moves')) else mesh
    sel = {'list': list, 'tuple': tuple, 'set': set}[reg['container']](sel)
    return FacetBasis(m2, e, facets=sel, **kw), find


def geometry(mesh, kind, basis, req, dom, P=None):
    """p (scaled ints), scale, ents (vertex ids of the region's cells / facets, 1-based), reordering info.
    P: the coordinates the recipe prescribes for a moved mesh (default: the mesh's own)."""
    P = np.asarray(mesh.p if P is None else P, dtype=np.float64)
    sc = find_scale(P, 2)
    if sc is None:
        raise MachineryError('generated coordinates are not dyadic')
    P = P * sc
    p = [[int(x) for x in col] for col in np.rint(P).T]
    if dom == 'cells':
        got = [int(x) for x in (basis.tind if basis.tind is not None else np.arange(mesh.t.shape[1]))]
        table = mesh.t[:NV[kind]]
    else:
        got = [int(x) for x in basis.find]
        table = mesh.facets
        if req is None:
            req = got
    # the oracle integrates over the REQUESTED entities (with the multiplicity in which they were listed); the basis'
    # own index array is only used to line up the per-entity values, when it lists the same entities
    ents = ids(table[:, req])
    order = None
    if sorted(got) == sorted(req):
        if got == req:
            order = list(range(len(req)))
        elif len(set(got)) == len(got):
            pos = {g: j for j, g in enumerate(got)}
            order = [pos[r] for r in req]
    return p, int(sc), ents, order, {'rids': sorted(int(r) + 1 for r in req), 'gids': sorted(int(g) + 1 for g in got)}


def monomial_functional(alpha):
    from skfem import Functional

    def f(w):
        out = 1.0 + 0.0 * w.x[0]
        for c, a in enumerate(alpha):
            if a:
                out = out * w.x[c] ** int(a)
        return out
    return Functional(f)


BASE_EV = {'err': '', 'rel': 'none', 'sgn': 1, 'rids': [], 'gids': []}


def exec_integrate(rec, v, mesh=None):
    kind = rec['kind']
    ev = dict(BASE_EV, a='Integrate', kind=kind, dom=v['region']['dom'], scale=1, p=[], ents=[], alpha=list(v['alpha']),
              order=0, oracle=rec['oracle'], box=v.get('box', []), val=[0] * 5, evals=[], rel=v['rel'], sgn=int(v['sgn']))

    info = {}

    def call():
        elemname = rec.get('elem') or DEFAULT_ELEM[kind]
        if v.get('reftag'):
            basis, pts, ents = reftag_basis(v, elemname, rec.get('order'))
            val = monomial_functional(v['alpha']).assemble(basis)
            ev.update(p=pts, scale=1, ents=ents, val=fx_req(float(val)),
                      order=int(rec['order']) if rec.get('order') is not None else 2 * int(basis.elem.maxdeg))
            return
        msh = mesh if mesh is not None else build_mesh(v, info)
        basis, req = make_basis(msh, v, elemname, rec.get('order'))
        return _integrate_on(msh, basis, req)

    def _integrate_on(mesh, basis, req):
        p, sc, ents, order, idl = geometry(mesh, kind, basis, req, ev['dom'], info.get('P'))
        ev.update(idl)
        F = monomial_functional(v['alpha'])
        val = F.assemble(basis)
        ev.update(p=p, scale=sc, ents=ents, val=fx_req(float(val)),
                  box=[[int(x) * sc for x in side] for side in ev['box']],
                  order=int(rec['order']) if rec.get('order') is not None else 2 * int(basis.elem.maxdeg))
        if rec.get('elemental') and order is not None:
            el = np.asarray(F.elemental(basis), dtype=np.float64)
            ev['evals'] = [fx_req(float(el[j])) for j in order]
    _, err = guarded(call, 60)
    if err == 'TagDropped':
        return None
    if err:
        ev['err'] = err
    return ev


ROUTES = ['assemble', 'asm', 'nthreads:0', 'nthreads:1', 'nthreads:2', 'nthreads:3', 'nthreads:many', 'coo-tocsr',
          'coo-todefault', 'elemental-toarray', 'elemental-todefault']


def assemble_by(kernel, basis, how, linear=False):
    """The same form assembled in one of the ways the library offers (all must give the same numbers)."""
    from skfem import BilinearForm, LinearForm, asm
    cls = LinearForm if linear else BilinearForm
    if how.startswith('nthreads:'):
        k = how.split(':')[1]
        n = int(basis.Nbfun) ** 2 + 3 if k == 'many' else int(k)        # many: more workers than local pairs
        return cls(kernel, nthreads=n).assemble(basis)
    form = cls(kernel)
    if how == 'assemble':
        return form.assemble(basis)
    if how == 'asm':
        return asm(form, basis)
    if how == 'coo-tocsr':
        return form.coo_data(basis).todefault() if linear else form.coo_data(basis).tocsr()
    if how == 'coo-todefault':
        return form.coo_data(basis).todefault()
    if how == 'elemental-toarray':
        return form.elemental(basis).toarray()
    if how == 'elemental-todefault':
        return form.elemental(basis).todefault()
    raise MachineryError('unknown route ' + how)


def dense(A):
    return np.asarray(A.toarray() if hasattr(A, 'toarray') else A, dtype=np.float64)


def exec_masssum(rec, v):
    kind = rec['kind']
    ev = dict(BASE_EV, a='MassSum', kind=kind, dom=v['region']['dom'], scale=1, p=[], ents=[], elem=rec['elem'],
              val=[0] * 5, rel=v['rel'], sgn=1)

    def call():
        info = {}
        if v.get('reftag'):
            basis, p, ents = reftag_basis(v, rec['elem'], rec.get('order'))
            sc = 1
        else:
            mesh = build_mesh(v, info)
            basis, req = make_basis(mesh, v, rec['elem'], rec.get('order'))
            p, sc, ents, _, idl = geometry(mesh, kind, basis, req, ev['dom'], info.get('P'))
            ev.update(idl)
        how = v.get('how') or rec.get('how') or 'assemble'
        ev['tags'] = {'how': how}
        M = assemble_by(lambda u, w, _: u * w, basis, how)
        data = M.data if hasattr(M, 'tocsr') else M
        tot = sum((fr(x) for x in np.asarray(data, dtype=np.float64).ravel()), Fraction(0))   # exact sum of all entries
        ev.update(p=p, scale=sc, ents=ents, val=fx_req(tot))
    _, err = guarded(call, 60)
    if err == 'TagDropped':
        return None
    if err:
        ev['err'] = err
    return ev


def exec_entries(rec, v):
    kind = rec['kind']
    ev = dict(BASE_EV, a='Entries', kind=kind, dom='cells', scale=1, p=[], ents=[], form=rec['form'], deg=0, N=0,
              edofs=[], lnodes=[], vals=[], rel=v['rel'], sgn=1, elem=rec['elem'])

    def call():
        from skfem import Basis
        from skfem.helpers import dot, grad
        info = {}
        mesh = build_mesh(v, info)
        e = elem_of(rec['elem'])
        basis = Basis(mesh, e)
        p, sc, ents, _, _ = geometry(mesh, kind, basis, list(range(mesh.t.shape[1])), 'cells', info.get('P'))
        deg = int(e.maxdeg)
        d = DIM[kind]
        lnodes = []
        for row in np.asarray(e.doflocs, dtype=np.float64):
            if deg == 0:
                lnodes.append([0] * (d + 1))
                continue
            r = [fr(x) * deg for x in row]
            if any(x.denominator != 1 for x in r):
                raise ValueError('reference node not on the Lagrange lattice')
            r = [int(x) for x in r]
            lnodes.append([deg - sum(r)] + r)
        how = v.get('how') or rec.get('how') or 'assemble'
        ev['tags'] = {'how': how}
        if rec['form'] == 'mass':
            A = dense(assemble_by(lambda u, w, _: u * w, basis, how))
        elif rec['form'] == 'laplace':
            A = dense(assemble_by(lambda u, w, _: dot(grad(u), grad(w)), basis, how))
        elif rec['form'] == 'loadx':
            A = dense(assemble_by(lambda w, q: q.x[0] * w, basis, how, linear=True)).ravel()
        else:
            A = dense(assemble_by(lambda w, _: 1.0 * w, basis, how, linear=True)).ravel()
        N = int(basis.N)
        if rec['form'] in ('load', 'loadx'):
            vals = [[i + 1, 0] + fx_req(float(A[i])) for i in range(N)]
        else:
            vals = [[i + 1, j + 1] + fx_req(float(A[i, j])) for i in range(N) for j in range(N)]
        ev.update(p=p, scale=sc, ents=ents, deg=deg, N=N, edofs=ids(basis.element_dofs), lnodes=lnodes, vals=vals)
    _, err = guarded(call, 60)
    if err:
        ev['err'] = err
    return ev


TENSOR_DEG = {'ElementQuad1': 1, 'ElementQuad2': 2, 'ElementHex1': 1}


def exec_entries_t(rec, v):
    """Mass matrix / load vector of a tensor-product Lagrange element on straight non-affine cells, DEFAULT order."""
    kind = rec['kind']
    ev = dict(BASE_EV, a='EntriesT', kind=kind, dom='cells', scale=1, p=[], ents=[], form=rec['form'], deg=0, N=0,
              edofs=[], lnodes=[], vals=[], rel=v['rel'], sgn=1, elem=rec['elem'])

    def call():
        from skfem import Basis
        info = {}
        mesh = build_mesh(v, info)
        e = elem_of(rec['elem'])
        basis = Basis(mesh, e)                                  # no intorder: the element's default rule
        p, sc, ents, _, _ = geometry(mesh, kind, basis, list(range(mesh.t.shape[1])), 'cells', info.get('P'))
        deg = TENSOR_DEG[rec['elem']]
        lnodes = []
        for row in np.asarray(e.doflocs, dtype=np.float64):
            r = [fr(x) * deg for x in row]
            if any(x.denominator != 1 for x in r):
                raise ValueError('reference node not on the tensor Lagrange lattice')
            lnodes.append([int(x) for x in r])
        how = v.get('how') or rec.get('how') or 'assemble'
        ev['tags'] = {'how': how}
        N = int(basis.N)
        if rec['form'] == 'mass':
            A = dense(assemble_by(lambda u, w, _: u * w, basis, how))
            vals = [[i + 1, j + 1] + fx_req(float(A[i, j])) for i in range(N) for j in range(N)]
        else:
            A = dense(assemble_by(lambda w, _: 1.0 * w, basis, how, linear=True)).ravel()
            vals = [[i + 1, 0] + fx_req(float(A[i])) for i in range(N)]
        ev.update(p=p, scale=sc, ents=ents, deg=deg, N=N, edofs=ids(basis.element_dofs), lnodes=lnodes, vals=vals)
    _, err = guarded(call, 60)
    if err:
        ev['err'] = err
    return ev


EXEC = {'integrate': exec_integrate, 'masssum': exec_masssum, 'entries': exec_entries, 'entries_t': exec_entries_t}


def execute(rec):
    if rec['driver'] == 'sequence':
        # ONE mesh object (its mapping, with the Jacobian cache, lives on it); bases are built one after the other
        def build():
            m = build_mesh(rec['variants'][0])
            if rec.get('tags'):
                m = m.with_subdomains({k: np.array(c, dtype=np.int32) for k, c in rec['tags'].items()})
            return m
        mesh, err = guarded(build, 60)
        out = []
        for v in rec['variants']:
            sub = dict(rec, order=v.get('order'), elem=v.get('elem'))
            if err:
                ev = exec_integrate(sub, v, mesh=None)
            else:
                ev = exec_integrate(sub, v, mesh=mesh)
            ev['rel'] = 'none'
            out.append(ev)
        return out
    return [ev for ev in (EXEC[rec['driver']](rec, v) for v in rec['variants']) if ev is not None]


def scenario(sid, rec):
    return {'id': sid, 'recipe': rec,
            'tags': {'kind': rec['kind'], 'family': rec['family'], 'driver': rec['driver'], 'elem': rec.get('elem') or '',
                     'dom': rec['variants'][0]['region']['dom'], 'how': rec.get('how') or '',
                     'order': rec['order'] if rec.get('order') is not None else ('per-step' if rec['driver'] == 'sequence' else 'default')},
            'events': execute(rec)}


# ------------------------------------------------------------------------------------------------ variants
def signed_perms(d):
    out = []
    for perm in itertools.permutations(range(d)):
        for s in itertools.product((1, -1), repeat=d):
            out.append((list(perm), list(s)))
    return out


ORIENT_REV = {'line': [1, 0], 'tri': [0, 2, 1], 'quad': [0, 3, 2, 1], 'tet': [0, 1, 3, 2],
              'hex': None, 'wedge': [0, 2, 1, 3, 5, 4]}


def hex_mirror():
    """local vertex permutation of the reference hexahedron induced by the reflection x <-> y."""
    ref = [tuple(r) for r in U.REF_HEX.tolist()]
    return [ref.index((b, a, c)) for (a, b, c) in ref]


ORIENT_REV['hex'] = hex_mirror()


def base_variant(kind, p, t, region, alpha, box=None, second=0):
    v = {'kind': kind, 'p': np.asarray(p).astype(int).tolist(), 't': np.asarray(t).astype(int).tolist(),
         'region': region, 'alpha': [int(a) for a in alpha], 'rel': 'base', 'sgn': 1, 'second': int(second)}
    if box is not None:
        v['box'] = [[int(x) for x in box[0]], [int(x) for x in box[1]]]
    return v


def numbering_variant(v, rng, flip=True):
    """Renumber vertices, permute cells, change local orders (some orientation reversing)."""
    kind = v['kind']
    p, t = np.array(v['p']), np.array(v['t'])
    nvx, nt = p.shape[1], t.shape[1]
    perm = rng.permutation(nvx)
    p2, t2 = U.renumber(p, t, perm)
    order = rng.permutation(nt)
    t2 = t2[:, order]
    t2 = U.apply_local_orders(kind, t2, rng)
    if flip:
        for c in range(nt):
            if rng.random() < 0.5:
                t2[:, c] = t2[ORIENT_REV[kind], c]
    w = dict(v, p=p2.astype(int).tolist(), t=t2.astype(int).tolist(), rel='numbering')
    reg = dict(v['region'])
    if reg['dom'] == 'cells' and reg['mode'] != 'all':
        inv = {int(o): j for j, o in enumerate(order)}
        if reg['mode'] == 'multi':
            reg['parts'] = [dict(pt, ix=[inv[c] for c in pt['ix']]) for pt in reg['parts']]
            reg['cells'] = sorted(inv[c] for c in reg['cells'])
        else:
            reg['cells'] = [inv[c] for c in reg['cells']]               # same listing order, new cell numbers
    if reg['dom'] == 'facets' and reg['mode'] != 'boundary':
        reg['fverts'] = [[int(perm[x]) for x in f] for f in reg['fverts']]
        if reg['mode'] == 'multi':
            reg['parts'] = [dict(pt, fverts=[[int(perm[x]) for x in f] for f in pt['fverts']]) for pt in reg['parts']]
    w['region'] = reg
    return w


def motion_variant(v, rng, translate=False):
    """Signed coordinate permutation (possibly a reflection => negative determinants)."""
    d = DIM[v['kind']]
    sp = signed_perms(d)
    perm, sg = sp[int(rng.integers(len(sp)))]
    p = np.array(v['p'])
    p2 = np.array([sg[i] * p[perm[i]] for i in range(d)])
    alpha = v['alpha']
    a2 = [alpha[perm[i]] for i in range(d)]
    sgn = 1
    for i in range(d):
        if sg[i] < 0 and alpha[perm[i]] % 2 == 1:
            sgn = -sgn
    w = dict(v, p=p2.astype(int).tolist(), alpha=a2, sgn=sgn, rel='motion')
    if 'box' in v:
        lo, hi = v['box']
        lo2, hi2 = [], []
        for i in range(d):
            a, b = sg[i] * lo[perm[i]], sg[i] * hi[perm[i]]
            lo2.append(min(a, b))
            hi2.append(max(a, b))
        w['box'] = [lo2, hi2]
    if translate:
        sh = rng.integers(-3, 4, size=d)
        w['p'] = (p2 + sh[:, None]).astype(int).tolist()
        if 'box' in w:
            w['box'] = [[int(x + s) for x, s in zip(w['box'][0], sh)], [int(x + s) for x, s in zip(w['box'][1], sh)]]
    return w


def moved_variant(v, rng, oracle='cells', int_only=False):
    """The same scenario on a mesh that was tagged and USED and then moved by the library's translated / mirrored /
    scaled / morphed (one or two of them, exact integer or dyadic data).  The monomial is kept: the oracle is the
    closed form over the MOVED domain."""
    from fractions import Fraction as Fr
    kind = v['kind']
    d = DIM[kind]
    q = sum(v['alpha'])
    box_mode = ('box' in v) or oracle == 'box'
    exact_only = int_only or box_mode or oracle == 'sq' or v.get('second')
    # sums over facets need rational facet measures: only similarities there (no shear, no anisotropic scaling)
    similar = v['region']['dom'] == 'facets' and oracle != 'sq'

    def draw():
        moves = []
        for _ in range(int(rng.integers(1, 3))):
            r = int(rng.integers(0, 4))
            if r == 0:
                dd = [int(x) for x in rng.integers(-3, 4, size=d)]
                if not exact_only and rng.random() < 0.3:
                    dd = [x + 0.5 for x in dd]
                moves.append({'op': 'translated', 'd': dd})
            elif r == 1:
                mv = {'op': 'mirrored', 'axis': int(rng.integers(0, d)), 'c': int(rng.integers(-1, 3)),
                      'len': int(rng.integers(1, 3))}
                if mv['c'] == 0 and rng.random() < 0.5:
                    mv['nopoint'] = 1
                moves.append(mv)
            elif r == 2:
                if exact_only or rng.random() < 0.6:
                    f = [2] * d if (similar or rng.random() < 0.5) else [int(x) for x in rng.integers(1, 3, size=d)]
                else:
                    f = [0.5] * d
                moves.append({'op': 'scaled', 'f': f})
            elif not box_mode and not similar and d >= 2:
                i = int(rng.integers(0, d))
                j = int((i + 1 + rng.integers(0, d - 1)) % d)
                moves.append({'op': 'morphed', 'i': i, 'j': j, 'k': int(rng.choice([-1, 1]))})
        return moves

    def apply(moves):
        P = [[Fr(int(x)) for x in row] for row in v['p']]
        box = [[Fr(x) for x in side] for side in v['box']] if 'box' in v else None
        for mv in moves:
            if mv['op'] == 'translated':
                for c in range(d):
                    P[c] = [x + Fr(mv['d'][c]) for x in P[c]]
                if box:
                    box = [[x + Fr(mv['d'][c]) for c, x in enumerate(side)] for side in box]
            elif mv['op'] == 'mirrored':
                a, cc = mv['axis'], Fr(mv['c'])
                P[a] = [2 * cc - x for x in P[a]]
                if box:
                    lo, hi = 2 * cc - box[1][a], 2 * cc - box[0][a]
                    box[0][a], box[1][a] = lo, hi
            elif mv['op'] == 'scaled':
                for c in range(d):
                    P[c] = [x * Fr(mv['f'][c]) for x in P[c]]
                if box:
                    box = [[x * Fr(mv['f'][c]) for c, x in enumerate(side)] for side in box]
            else:
                P[mv['i']] = [x + mv['k'] * y for x, y in zip(P[mv['i']], P[mv['j']])]
        return P, box

    def safe(P, box):
        den = max(x.denominator for row in P for x in row)
        if den not in (1, 2) or (box and any(x.denominator != 1 for side in box for x in side)):
            return False
        M = max(abs(x * den) for row in P for x in row)
        n = q + d
        if oracle == 'sq':                 # bounds of the per-facet square oracle (32-bit safe limb arithmetic)
            for f in v['region']['fverts']:
                fj = facet_jac([np.array([int(P[c][i]) for c in range(d)]) for i in f])
                if fj is None:
                    return False
                j2, gs = fj
                if j2 > 32768 or sum(gs) > 1024 or (max(int(M), 1) ** q) ** 2 * sum(gs) ** 2 * j2 > 2 ** 24:
                    return False
        return M <= 64 and max(int(M), 1) ** n < 2 ** 24 and den ** (2 * n) <= 65536 and (den == 1 or not exact_only)

    moves = None
    for _ in range(8):
        cand = draw()
        if cand:
            P, box = apply(cand)
            if safe(P, box):
                moves = cand
                break
    if moves is None:                       # always admissible: reflect the first axis at the origin
        moves = [{'op': 'mirrored', 'axis': 0, 'c': 0, 'len': 1}]
        P, box = apply(moves)
    w = dict(v, moves=moves, warm=1, rel='none', sgn=1)
    if box is not None:
        w['box'] = [[int(x) for x in side] for side in box]
    return w


def reftag_variants(v, rng, n=2):
    """The region as a TAG carried through the library's refinement: refined(2) in one call (always), and one more
    history out of refined().refined(), refined(1), refined(2).refined(1), restrict -> refined, adaptive steps."""
    kind = v['kind']
    reg = v['region']
    if v.get('second') or kind == 'wedge' or reg['mode'] not in ('tag', 'array'):
        return []
    d = DIM[kind]
    nt = np.asarray(v['t']).shape[1]
    if reg['dom'] == 'cells':
        cells = [int(c) for c in reg['cells']]
        if len(set(cells)) != len(cells):
            return []
    else:
        if kind not in ('line', 'tri', 'quad'):          # 3-D refinement drops named boundaries
            return []
        if len({tuple(sorted(f)) for f in reg['fverts']}) != len(reg['fverts']):
            return []
    small = nt * (2 ** d) ** 2 <= 1600
    hist = []
    if small:
        hist.append([['refined', 2]])
    more = [[['refined', 1], ['refined', 1]], [['refined', 1]]] if small else [[['refined', 1]]]
    if small and d <= 2:
        more.append([['refined', 2], ['refined', 1]])
    if reg['dom'] == 'cells' and nt >= 3:
        keep = sorted(set(cells) | {int(c) for c in rng.choice(nt, max(1, nt // 2), replace=False)})
        if len(keep) < nt:
            # restrict renumbers the cells; the tag travels with them
            more.append([['restrict', keep], ['refined', 1]])
    if kind == 'tri' and reg['dom'] == 'cells':
        more.append([['adaptive', [int(c) for c in rng.choice(nt, max(1, nt // 3), replace=False)]]])
        more.append([['adaptive', [int(rng.integers(0, nt))]], ['refined', 1]])
    for j in rng.permutation(len(more))[:max(0, n - len(hist))]:
        hist.append(more[int(j)])
    return [dict(v, reftag=h, rel='refine', sgn=1) for h in hist]


def refine_variant(v):
    return dict(v, refine=1, rel='refine')


def rec_integrate(kind, fam, variants, oracle, order, elem=None, elemental=1):
    return {'driver': 'integrate', 'kind': kind, 'family': fam, 'variants': variants, 'oracle': oracle,
            'order': order, 'elem': elem, 'elemental': int(elemental)}


# ------------------------------------------------------------------------------------------------ generators
def monomials_upto(d, q):
    return [a for a in itertools.product(range(q + 1), repeat=d) if sum(a) <= q]


def box_delaunay(dim, L, nextra, rng):
    """Irregular integer Delaunay triangulation whose union is exactly the box [0, L_1] x ... (all corners are points,
    the convex hull of the point set is the box)."""
    from scipy.spatial import Delaunay
    corners = set(itertools.product(*[(0, int(l)) for l in L]))
    pts = set(corners)
    tries = 0
    while len(pts) < len(corners) + nextra and tries < 200:
        tries += 1
        pts.add(tuple(int(rng.integers(0, l + 1)) for l in L))
    P = np.array(sorted(pts), dtype=float)
    T = Delaunay(P).simplices
    keep = [s for s in T if abs(round(np.linalg.det(P[s[1:]] - P[s[0]]))) > 0]
    return U.submesh(P.T, np.array(keep).T, range(len(keep)))


def all_facets_of(kind, p, t):
    m = U.make(kind, p, t, **({'sort_t': False} if kind == 'tri' else {}))
    return m, [[int(x) for x in col] for col in m.facets.T]


def facet_jac(v):
    """input selection only (exact integer arithmetic): the simplices (1,2,3),(1,3,4) / the segment of a facet with
    integer vertices v; returns (|n0|^2, [g_s]) with Jacobian vectors c_s = g_s * n0, n0 primitive -- or None if the
    facet is not flat and convex."""
    from math import gcd
    if len(v) == 1:
        return 1, [1]
    if len(v) == 2:
        cs = [v[1] - v[0]]
    elif len(v[0]) == 2:
        return 1, [1]
    else:
        tris = [(0, 1, 2)] if len(v) == 3 else [(0, 1, 2), (0, 2, 3)]
        cs = [np.cross(v[b] - v[a], v[c] - v[a]) for a, b, c in tris]
        if len(v) == 4:
            for a, b, c in ((0, 1, 3), (1, 2, 3)):
                cc = np.cross(v[b] - v[a], v[c] - v[a])
                if np.any(np.cross(cs[0], cc)) or int(np.dot(cs[0], cc)) <= 0:
                    return None
    gs = [gcd(*[abs(int(x)) for x in c]) for c in cs]
    if 0 in gs:
        return None
    n0 = cs[0] // gs[0]
    if any(not np.array_equal(c, g * n0) for c, g in zip(cs, gs)):
        return None
    return int((n0 ** 2).sum()), gs


def jacsq_is_square(P, f):
    """input selection only: every simplex of the (flat) facet has a rational measure."""
    from math import isqrt
    fj = facet_jac([np.array([int(x) for x in P[:, i]]) for i in f])
    if fj is None:
        return False
    j2, gs = fj
    return isqrt(j2) ** 2 == j2


def multi_parts(n, rng, key):
    """2-3 overlapping selectors over range(n) (tags, index arrays, a single index) in a list / tuple / set."""
    k = int(rng.integers(2, 4))
    parts = []
    common = int(rng.integers(0, n))                       # every part contains it: the selectors overlap
    for j in range(k):
        size = int(rng.integers(1, max(2, n)))
        ix = set(int(c) for c in rng.choice(n, min(size, n), replace=False)) | {common}
        how = ('tag', 'arr')[int(rng.integers(0, 2))]
        parts.append({'as': how, key: sorted(ix)})
    if rng.random() < 0.4:
        parts.append({'as': 'int', key: [common]})
    hashable = all(pt['as'] != 'arr' for pt in parts)
    container = ('list', 'tuple', 'set')[int(rng.integers(0, 3 if hashable else 2))]
    union = sorted(set().union(*[set(pt[key]) for pt in parts]))
    return parts, container, union


def regions_cells(nt, rng, k):
    """the whole mesh; k random proper cell subsets as index arrays (sorted, shuffled, int32/int64) or tags; one
    collection of overlapping selectors (the region is their union)."""
    out = [{'dom': 'cells', 'mode': 'all'}]
    for j in range(k):
        if nt < 2:
            break
        size = int(rng.integers(1, nt))
        cells = sorted(int(c) for c in rng.choice(nt, size, replace=False))
        if j % 2 == 0 and rng.random() < 0.5:
            cells = [int(c) for c in rng.permutation(cells)]             # listed in another order
        out.append({'dom': 'cells', 'mode': 'array' if j % 2 == 0 else 'tag', 'cells': cells,
                    'dtype': ('int32', 'int64')[int(rng.integers(0, 2))]})
    if nt >= 2 and k >= 1:
        parts, container, union = multi_parts(nt, rng, 'ix')
        out.append({'dom': 'cells', 'mode': 'multi', 'parts': parts, 'container': container, 'cells': union})
    if nt >= 3 and k >= 1:
        full = [int(c) for c in rng.permutation(nt)]                     # every cell, not in ascending order
        out.append({'dom': 'cells', 'mode': 'array', 'cells': full, 'dtype': 'int32'})
    return out


def with_variants(v, rng, nnum=1, nmot=1, refine=False, translate=False, oracle='cells'):
    vs = [v]
    for _ in range(nnum):
        vs.append(numbering_variant(v, rng))
    for _ in range(nmot):
        vs.append(motion_variant(v, rng, translate=translate))
    vs.append(moved_variant(v, rng, oracle=oracle))                  # used, then moved by the library
    if oracle != 'sq':
        vs += reftag_variants(v, rng)                                # the region as a tag through refined(k), ...
    if refine and v['region']['mode'] in ('all', 'boundary') and v['kind'] != 'wedge':
        vs.append(refine_variant(v))
    return vs


def gen_integrate(tier, rng):
    recs = []
    big = tier == 'thorough'

    def add(kind, fam, p, t, regions, degs, oracle, box=None, order_mode='exact', elem=None, refine=True, extra=0,
            nnum=1, nmot=1):
        d = DIM[kind]
        for reg in regions:
            # one random monomial per degree; on the whole domain also the pure powers x_c^q of the largest degrees
            # (the whole degree in ONE direction: what a rule that is short in one direction of a tensor / prism cell
            # cannot integrate)
            todo = []
            for q in degs:
                mons = [a for a in monomials_upto(d, q) if sum(a) == q]
                todo.append((q, mons[int(rng.integers(len(mons)))]))
            if reg['mode'] == 'all' and d >= 2 and len(degs):
                for q in sorted(degs)[-2:]:
                    if q >= 2:
                        todo += [(q, tuple(q if c == c0 else 0 for c in range(d))) for c0 in range(d)]
            for q, alpha in todo:
                v = base_variant(kind, p, t, reg, alpha, box=box if reg['mode'] == 'all' else None)
                orc = oracle if (reg['mode'] == 'all' or oracle == 'cells') else 'cells'
                if orc == 'cells' and q > (4 if d <= 2 else 3):
                    continue
                order = None if order_mode == 'default' else q + extra
                if order_mode == 'default' and q + extra > 2 * elem_of(elem or DEFAULT_ELEM[kind]).maxdeg:
                    continue
                if reg['mode'] not in ('all', 'boundary') and 'box' in v:
                    del v['box']
                recs.append(rec_integrate(kind, fam, with_variants(v, rng, nnum, nmot, refine and q <= 4, oracle=orc), orc, order, elem))

    # ---- lines
    for pts in ([0, 1, 3, 4], [0, 2, 3, 7, 8], [1, 2, 4]):
        p, t = U.line_points(pts)
        add('line', 'U1', p, t, regions_cells(t.shape[1], rng, 1), range(0, 7), 'box', box=([min(pts)], [max(pts)]))
    # ---- U2t lattice triangulations (every diagonal choice in thorough)
    diag_sets = list(itertools.product((0, 1), repeat=4))
    for dg in (diag_sets if big else [diag_sets[j] for j in (0, 6, 9, 15)]):
        p, t = U.tri_lattice(2, 2, dg)
        add('tri', 'U2t', p, t, regions_cells(8, rng, 2), range(0, 5), 'cells')
        add('tri', 'U2t-box', p, t, [{'dom': 'cells', 'mode': 'all'}], (5, 6), 'box', box=([0, 0], [2, 2]))
    p, t = U.tri_lattice(2, 2, (0, 1, 1, 0), jiggle=[(4, 0.25, 0.5)])
    add('tri', 'U2t-jiggled', p * 4, t, regions_cells(8, rng, 2), range(0, 4), 'cells', refine=False)
    # default integration order 2 * maxdeg
    p, t = U.tri_lattice(2, 1, (0, 1))
    for en in ('ElementTriP1', 'ElementTriP2', 'ElementTriP3'):
        add('tri', 'default-order', p, t, [{'dom': 'cells', 'mode': 'all'}], (2 * elem_of(en).maxdeg,), 'box',
            box=([0, 0], [2, 1]), order_mode='default', elem=en, refine=False)
    # ---- irregular integer triangulations of a box
    for j in range((10 if big else 3)):
        L = [int(rng.integers(2, 5)), int(rng.integers(2, 5))]
        p, t = box_delaunay(2, L, int(rng.integers(3, 9)), rng)
        add('tri', 'delaunay-box', p, t, [{'dom': 'cells', 'mode': 'all'}], (2, 4, 6), 'box', box=([0, 0], L))
        add('tri', 'delaunay-box', p, t, regions_cells(t.shape[1], rng, 2)[1:], (1, 3), 'cells')
    for j in range((10 if big else 2)):
        p, t = U.delaunay_int(2, int(rng.integers(5, 11)), 5, rng)
        if t.shape[1]:
            add('tri', 'delaunay', p, t, regions_cells(t.shape[1], rng, 1), (0, 2, 4), 'cells')
    # ---- quadrilaterals: boxes, parallelograms (sheared), general convex (jiggled)
    for (nx, ny) in ((2, 2), (3, 2)):
        p, t = U.quad_grid(nx, ny)
        add('quad', 'U2q', p, t, regions_cells(nx * ny, rng, 2), range(0, 5), 'cells')
        add('quad', 'U2q-box', p, t, [{'dom': 'cells', 'mode': 'all'}], (5, 6), 'box', box=([0, 0], [nx, ny]))
        ps = p.copy()
        ps[0] += ps[1]
        add('quad', 'U2q-sheared', ps, t, regions_cells(nx * ny, rng, 1), range(0, 5), 'cells')
    p, t = U.quad_grid(2, 2, jiggle=[(4, 0.25, 0.5)])
    add('quad', 'U2q-jiggled', p * 4, t, regions_cells(4, rng, 2), range(0, 4), 'cells', extra=1, refine=False)
    p, t = U.quad_grid(2, 1)
    for en in ('ElementQuad1', 'ElementQuad2'):
        add('quad', 'default-order', p, t, [{'dom': 'cells', 'mode': 'all'}], (2 * elem_of(en).maxdeg,), 'box',
            box=([0, 0], [2, 1]), order_mode='default', elem=en, refine=False)
    # ---- tetrahedra
    for (n, split) in ((1, 6), (1, 5), (2, 6)):
        p, t = U.tet_cubes(n, split)
        add('tet', 'U3t', p, t, regions_cells(t.shape[1], rng, 2), range(0, 4), 'cells')
        add('tet', 'U3t-box', p, t, [{'dom': 'cells', 'mode': 'all'}], (4,), 'box', box=([0, 0, 0], [n, 1, 1]))
        # orders 5..9 on tetrahedra: the tables are one degree short (finding 17 of C08); kept as a separate family
        add('tet', 'tet-high-order', p, t, [{'dom': 'cells', 'mode': 'all'}], (5, 6), 'box', box=([0, 0, 0], [n, 1, 1]),
            refine=False)
    for j in range((6 if big else 1)):
        L = [int(rng.integers(1, 4)) for _ in range(3)]
        p, t = box_delaunay(3, L, int(rng.integers(1, 5)), rng)
        add('tet', 'delaunay-box', p, t, [{'dom': 'cells', 'mode': 'all'}], (2, 4), 'box', box=([0, 0, 0], L))
        add('tet', 'delaunay-box', p, t, regions_cells(t.shape[1], rng, 1)[1:], (1, 3), 'cells')
        add('tet', 'tet-high-order', p, t, [{'dom': 'cells', 'mode': 'all'}], (5, 6), 'box', box=([0, 0, 0], L), refine=False)
    # ---- hexahedra: boxes and parallelepipeds
    for dims in ((1, 1, 1), (2, 1, 1), (2, 2, 1)):
        p, t = U.hex_grid(*dims)
        add('hex', 'U3h', p, t, regions_cells(t.shape[1], rng, 1), range(0, 4), 'cells')
        add('hex', 'U3h-box', p, t, [{'dom': 'cells', 'mode': 'all'}], (4, 5), 'box', box=([0, 0, 0], list(dims)))
        if dims == (2, 1, 1):
            add('hex', 'default-order', p, t, [{'dom': 'cells', 'mode': 'all'}], (2 * elem_of('ElementHex1').maxdeg,), 'box',
                box=([0, 0, 0], list(dims)), order_mode='default', elem='ElementHex1', refine=False)
    p, t = U.hex_grid(2, 1, 1)
    ps = p.copy()
    ps[0] += ps[2]
    ps[1] += ps[0]
    add('hex', 'U3h-sheared', ps, t, regions_cells(2, rng, 1), range(0, 4), 'cells')
    # ---- prisms
    for dg in ((0,), (1,)):
        p2, t2 = U.tri_lattice(1, 1, dg)
        p, t = U.wedge_extrude(p2, t2, 2)
        add('wedge', 'UW', p, t, regions_cells(t.shape[1], rng, 1), range(0, 4), 'cells', refine=False)
        add('wedge', 'UW-box', p, t, [{'dom': 'cells', 'mode': 'all'}], (4, 5), 'box', box=([0, 0, 0], [1, 1, 2]), refine=False)
        add('wedge', 'default-order', p, t, [{'dom': 'cells', 'mode': 'all'}], (2 * elem_of('ElementWedge1').maxdeg,), 'box',
            box=([0, 0, 0], [1, 1, 2]), order_mode='default', elem='ElementWedge1', refine=False)
    # ---- facets
    frecs = []

    def addf(kind, fam, p, t, degs, nsub=2, refine=True, extra=0):
        m, F = all_facets_of(kind, p, t)
        P = np.asarray(m.p)
        ok = [f for f in F if jacsq_is_square(P, f)]
        allrat = len(ok) == len(F)
        bnd = [[int(x) for x in m.facets[:, j]] for j in m.boundary_facets()]
        inter = [f for j, f in enumerate(F) if m.f2t[1, j] != -1]
        regs = []                      # (region, oracle): 'cells' = sums over facets of rational measure,
        #                                'sq' = per-facet squares for facets of irrational measure
        if all(jacsq_is_square(P, f) for f in bnd):
            regs.append(({'dom': 'facets', 'mode': 'boundary'}, 'cells'))
        for j in range(nsub):
            if not ok:
                break
            size = int(rng.integers(1, len(ok) + 1))
            sel = [ok[i] for i in sorted(rng.choice(len(ok), size, replace=False))]
            regs.append(({'dom': 'facets', 'mode': 'array' if j % 2 == 0 else 'tag', 'fverts': sel}, 'cells'))
        orc = 'cells' if allrat else 'sq'
        nf = len(F)
        # every facet of the mesh, listed in an order that is not ascending;
        # subsets in arbitrary order; collections of overlapping selectors
        # (no repeated entries: the statement speaks of SETS of facets; whether a facet listed twice is integrated
        # twice or once is the library's choice and is not judged here)
        listings = [inter + bnd, F[::-1], [F[i] for i in rng.permutation(nf)],
                    [F[i] for i in rng.permutation(nf)[:max(1, (2 * nf) // 3)]],
                    [F[i] for i in rng.permutation(nf)[:max(1, nf // 2)]]]
        for j, sel in enumerate(listings):
            regs.append(({'dom': 'facets', 'mode': 'array', 'fverts': sel, 'dtype': ('int32', 'int64')[j % 2]}, orc))
        if inter:                                  # the same interior facets seen from their second neighbour
            regs.append(({'dom': 'facets', 'mode': 'array', 'fverts': [inter[i] for i in rng.permutation(len(inter))],
                          'side': 1}, orc))
        parts, container, union = multi_parts(nf, rng, 'ix')
        parts = [{'as': pt['as'], 'fverts': [F[i] for i in pt['ix']]} for pt in parts]
        regs.append(({'dom': 'facets', 'mode': 'multi', 'parts': parts, 'container': container,
                      'fverts': [F[i] for i in union]}, orc))
        d = DIM[kind]
        for reg, oracle in regs:
            for q in degs:
                if oracle == 'sq' and q > 2:
                    continue
                mons = [a for a in monomials_upto(d, q) if sum(a) == q]
                alpha = mons[int(rng.integers(len(mons)))]
                v = base_variant(kind, p, t, reg, alpha)
                frecs.append(rec_integrate(kind, fam, with_variants(v, rng, 1, 1, refine and oracle == 'cells',
                                                                    oracle=oracle), oracle, q + extra, None))

    p, t = U.line_points([0, 1, 3, 4])
    addf('line', 'U1-facets', p, t, (0, 1, 3), refine=False)
    p, t = U.tri_lattice(2, 2, (0, 1, 1, 0))
    addf('tri', 'U2t-facets', p, t, (0, 1, 2, 4))
    addf('tri', 'U2t-345-facets', p * np.array([[3], [4]]), t, (0, 1, 2, 3))
    p, t = U.quad_grid(2, 2)
    addf('quad', 'U2q-facets', p, t, (0, 1, 2, 4))
    addf('quad', 'U2q-345-facets', p * np.array([[3], [4]]), t, (0, 2, 3))
    # graded (non-uniform) tensor triangulation and an irregular one: facets of many different (irrational) lengths
    pg, tg = U.tri_lattice(3, 3, tuple(int(x) for x in rng.integers(0, 2, size=9)))
    gx, gy = np.array([0, 1, 4, 8]), np.array([0, 2, 3, 8])
    pg = np.vstack((gx[pg[0].astype(int)], gy[pg[1].astype(int)]))
    addf('tri', 'graded-facets', pg, tg, (0, 1, 2), nsub=0)
    pd, td = U.delaunay_int(2, 8, 5, rng)
    if td.shape[1]:
        addf('tri', 'delaunay-facets', pd, td, (0, 2), nsub=0)
    p, t = U.tet_cubes(1, 6)
    addf('tet', 'U3t-facets', p, t, (0, 1, 2, 3))
    p, t = U.tet_cubes(2, 5)
    addf('tet', 'U3t-facets', p, t, (0, 2), nsub=1)
    # cube stretched by (1, 3, 4) / (3, 4, 1): oblique interior and boundary facets with integer 2*area
    for sc in ((1, 3, 4), (3, 4, 1), (4, 1, 3)):
        p, t = U.tet_cubes(1, 6)
        addf('tet', 'U3t-345-facets', p * np.array(sc)[:, None], t, (0, 1, 2), nsub=2, refine=False)
    p, t = U.hex_grid(2, 1, 1)
    addf('hex', 'U3h-facets', p, t, (0, 1, 2, 3))
    # hexahedra whose faces are flat but not parallelograms: a prism over a trapezoid (two cells stacked along the axis,
    # the common face is the trapezoid) and a frustum of a pyramid (slanted trapezoidal side faces); the surface
    # Jacobian of such a face is linear in each direction: one more degree of exactness is needed (extra=1)
    for fam_, (ph, th) in (('hex-trapezoid-prism-facets', hex_trapezoid_prism()), ('hex-frustum-facets', hex_frustum())):
        addf('hex', fam_, ph, th, (0, 1, 2), nsub=2, refine=False, extra=1)
    return recs + frecs


def gen_masssum(tier, rng):
    recs = []
    big = tier == 'thorough'
    route = [int(rng.integers(0, len(ROUTES)))]

    def add(kind, fam, p, t, elems, second=0, facets=False, nsub=1):
        nt = np.asarray(t).shape[1]
        regs = regions_cells(nt, rng, nsub)
        if facets:
            regs = regs + [{'dom': 'facets', 'mode': 'boundary'}]
        for en in elems:
            for reg in regs:
                v = base_variant(kind, p, t, reg, [0] * DIM[kind], second=second)
                vs = [v, numbering_variant(v, rng, flip=not second), motion_variant(v, rng, translate=True),
                      moved_variant(v, rng, int_only=bool(second))] + reftag_variants(v, rng, n=1)
                if reg['mode'] in ('all', 'boundary') and kind != 'wedge' and not second:
                    vs.append(refine_variant(v))
                # every way of assembling the same form must give the same numbers: one route per variant, all routes
                # in turn over the scenarios
                for w in vs:
                    w['how'] = ROUTES[route[0] % len(ROUTES)]
                    route[0] += 1
                recs.append({'driver': 'masssum', 'kind': kind, 'family': fam, 'variants': vs, 'elem': en, 'order': None})

    p, t = U.line_points([0, 1, 3, 4])
    add('line', 'U1', p, t, POU['line'])
    p, t = U.tri_lattice(2, 2, (0, 1, 1, 0))
    add('tri', 'U2t', p, t, POU['tri'], facets=True)
    add('tri', 'U2t-second', p, t, ['ElementTriP1', 'ElementTriP2', 'ElementTriP4'], second=1, facets=True)
    p, t = U.delaunay_int(2, 9, 5, rng)
    add('tri', 'delaunay', p, t, ['ElementTriP1', 'ElementTriP3'])
    p, t = U.quad_grid(2, 2)
    add('quad', 'U2q', p, t, POU['quad'], facets=True)
    add('quad', 'U2q-second', p, t, ['ElementQuad1', 'ElementQuad2'], second=1, facets=True)
    ps = p.copy()
    ps[0] += ps[1]
    add('quad', 'U2q-sheared', ps, t, ['ElementQuad1', 'ElementQuad2'])
    pj, tj = U.quad_grid(2, 2, jiggle=[(4, 0.25, 0.5)])
    add('quad', 'U2q-jiggled', pj * 4, tj, ['ElementQuad1', 'ElementQuad2', 'ElementQuadS2'])
    p, t = U.tet_cubes(1, 6)
    add('tet', 'U3t', p, t, POU['tet'], facets=True)
    add('tet', 'U3t-second', p, t, ['ElementTetP1', 'ElementTetP2'], second=1)
    p, t = U.hex_grid(2, 1, 1)
    add('hex', 'U3h', p, t, POU['hex'], facets=True)
    add('hex', 'U3h-second', p, t, ['ElementHex1', 'ElementHex2'], second=1)
    p2, t2 = U.tri_lattice(1, 1, (0,))
    p, t = U.wedge_extrude(p2, t2, 2)
    add('wedge', 'UW', p, t, POU['wedge'])
    if big:
        for j in range(8):
            p, t = U.delaunay_int(2, int(rng.integers(5, 12)), 6, rng)
            add('tri', 'delaunay', p, t, POU['tri'][1:], nsub=2)
            p, t = U.delaunay_int(3, int(rng.integers(5, 9)), 3, rng)
            if t.shape[1]:
                add('tet', 'delaunay', p, t, POU['tet'], nsub=2)
    return recs


def gen_entries(tier, rng):
    recs = []
    big = tier == 'thorough'

    route = [int(rng.integers(0, len(ROUTES)))]

    def add(kind, fam, p, t, all_routes=False):
        for en in PK[kind]:
            for form in ('mass', 'laplace', 'load', 'loadx'):
                if form == 'laplace' and en.endswith('P0'):
                    continue
                v = base_variant(kind, p, t, {'dom': 'cells', 'mode': 'all'}, [0] * DIM[kind])
                if all_routes:                       # the same form on the same mesh through every route
                    if en.endswith('P0'):
                        continue
                    vs = [dict(v, how=h, rel='none') for h in ROUTES]
                else:
                    vs = [v, numbering_variant(v, rng), moved_variant(v, rng, int_only=True)]
                    for w in vs:
                        w['how'] = ROUTES[route[0] % len(ROUTES)]
                        route[0] += 1
                recs.append({'driver': 'entries', 'kind': kind, 'family': fam, 'variants': vs, 'elem': en, 'form': form})

    p, t = U.line_points([0, 1, 3, 4])
    add('line', 'U1', p, t)
    add('line', 'routes', p, t, all_routes=True)
    p, t = U.tri_lattice(2, 1, (0, 1))
    add('tri', 'U2t', p, t)
    add('tri', 'routes', p * np.array([[2], [3]]), t, all_routes=True)
    p, t = U.tri_lattice(1, 1, (0,), )
    add('tri', 'U2t-345', p * np.array([[3], [4]]), t)
    p, t = U.delaunay_int(2, 6, 3, rng)
    add('tri', 'delaunay', p, t)
    p, t = U.tet_cubes(1, 5)
    add('tet', 'U3t', p, t)
    p, t = U.tet_cubes(1, 6)
    p = p * np.array([[2], [1], [3]])
    add('tet', 'U3t-stretched', p, t)
    if big:
        for j in range(6):
            p, t = U.delaunay_int(2, int(rng.integers(4, 8)), 4, rng)
            add('tri', 'delaunay', p, t)
            p, t = U.delaunay_int(3, int(rng.integers(5, 7)), 2, rng)
            if 0 < t.shape[1] <= 10:
                add('tet', 'delaunay', p, t)
    return recs


def hex_trapezoid_prism():
    """two hexahedra stacked in z over the trapezoid (0,0),(4,0),(3,2),(1,2); z = 0, 2, 3."""
    P, T = U.hex_grid(1, 1, 2)
    xy = {(0, 0): (0, 0), (1, 0): (4, 0), (1, 1): (3, 2), (0, 1): (1, 2)}
    zs = [0, 2, 3]
    Q = np.array([[xy[(int(a), int(b))][0], xy[(int(a), int(b))][1], zs[int(c)]] for a, b, c in P.T]).T
    return Q, T


def hex_frustum():
    """two hexahedra: the frustum of a pyramid over the square [0,6]^2 cut at z = 0, 2, 4 (half widths 3, 2, 1)."""
    P, T = U.hex_grid(1, 1, 2)
    w = [3, 2, 1]
    Q = np.array([[3 + (2 * int(a) - 1) * w[int(c)], 3 + (2 * int(b) - 1) * w[int(c)], 2 * int(c)] for a, b, c in P.T]).T
    return Q, T


def gen_entries_t(tier, rng):
    """Entry-wise exact mass / load of Q1, Q2 (quadrilaterals) and Q1 (hexahedra) with the DEFAULT integration order on
    general convex quadrilaterals and on hexahedra tapered in one and in two directions (det DF not constant)."""
    recs = []
    route = [int(rng.integers(0, len(ROUTES)))]

    def add(kind, fam, p, t, elems, forms=('mass', 'load'), renumber=True):
        for en in elems:
            for form in forms:
                v = base_variant(kind, p, t, {'dom': 'cells', 'mode': 'all'}, [0] * DIM[kind])
                vs = [v] + ([numbering_variant(v, rng, flip=False)] if renumber else [])
                for w in vs:
                    w['how'] = ROUTES[route[0] % len(ROUTES)]
                    route[0] += 1
                recs.append({'driver': 'entries_t', 'kind': kind, 'family': fam, 'variants': vs, 'elem': en, 'form': form})

    pj, tj = U.quad_grid(2, 2, jiggle=[(4, 0.25, 0.5)])
    add('quad', 'U2q-jiggled', pj * 4, tj, ['ElementQuad1', 'ElementQuad2'])
    add('quad', 'U2q-trapezoid', np.array([[0, 6, 8, -2, 3, 7, 3, -1, 3], [0, 1, 6, 5, 0, 3, 6, 2, 3]]),
        np.array([[0, 4, 8, 7], [4, 1, 5, 8], [8, 5, 2, 6], [7, 8, 6, 3]]).T, ['ElementQuad1', 'ElementQuad2'])
    ps, ts = U.quad_grid(2, 1)
    ps = ps.copy()
    ps[0] += ps[1]
    add('quad', 'U2q-sheared', ps, ts, ['ElementQuad1'], renumber=False)
    ph, th = hex_frustum()                        # tapered in two directions: det DF of degree 2 in the axial direction
    add('hex', 'hex-frustum', ph, th, ['ElementHex1'], renumber=False)
    if tier == 'thorough':
        ph, th = hex_trapezoid_prism()            # tapered in one direction
        add('hex', 'hex-trapezoid-prism', ph[:, :8], th[:, :1], ['ElementHex1'], forms=('mass',), renumber=False)
        ph, th = hex_frustum()
        add('hex', 'hex-frustum', ph, th, ['ElementHex1'])
        ph, th = U.hex_grid(1, 1, 1)
        add('hex', 'U3h', ph * 2, th, ['ElementHex1'])
    return recs


def graded_axis(n, rng, total):
    """n + 1 increasing integers from 0: steps of 1 and 2 in random order (a non-uniform tensor grid)."""
    twos = max(0, min(n, total - n))
    steps = np.array([2] * twos + [1] * (n - twos))
    rng.shuffle(steps)
    return np.concatenate(([0], np.cumsum(steps)))


def gen_sequence(tier, rng):
    """Histories on ONE mesh object: several bases over different cell subsets built one after the other, every one
    judged against the exact integral.  Small meshes with index arrays that are easy to confuse (same bytes, same
    ends, same length), and a graded tensor mesh with more than 2000 cells and subsets of more than 1000 cells."""
    recs = []
    big = tier == 'thorough'

    def seq(kind, fam, p, t, regions, degs, tags=None, elemental=1):
        d = DIM[kind]
        variants = []
        for reg in regions:
            for q in degs:
                mons = [a for a in monomials_upto(d, q) if sum(a) == q]
                alpha = mons[int(rng.integers(len(mons)))]
                v = base_variant(kind, p, t, reg, alpha)
                v['rel'] = 'none'
                v['order'] = q
                variants.append(v)
        rec = {'driver': 'sequence', 'kind': kind, 'family': fam, 'variants': variants, 'oracle': 'cells', 'order': None,
               'elem': None, 'elemental': int(elemental)}
        if tags:
            rec['tags'] = tags
        recs.append(rec)

    def arr(cells, dtype='int64'):
        return {'dom': 'cells', 'mode': 'array', 'cells': [int(c) for c in cells], 'dtype': dtype}

    # small meshes (cells of different sizes): index arrays with equal bytes / equal ends / equal length in a row
    for kind, (p, t) in (('quad', U.quad_grid(3, 2)), ('hex', U.hex_grid(2, 2, 1)), ('tri', U.tri_lattice(2, 2, (0, 1, 1, 0)))):
        p = np.array(p)
        p[0] = np.array([0, 1, 3, 7])[p[0].astype(int)]                  # graded in x
        nt = np.asarray(t).shape[1]
        regs = [arr([1, 0], 'int32'), arr([1], 'int64'), arr([0, 2, 3]), arr([0, 1, 3]), arr([3, 2, 0]),
                arr(list(range(nt))), arr(list(range(nt))[::-1], 'int32'), arr([2, 0, 1])]
        seq(kind, 'history-small', p, t, regs, (0, 2) if kind != 'hex' else (0, 1))
    # graded tensor quadrilateral mesh, > 2000 cells; sub-domains of > 1000 cells that share their first and last cells
    n = 46
    xs, ys = graded_axis(n, rng, 56), graded_axis(n, rng, 56)
    P = np.array([[xs[i], ys[j]] for j in range(n + 1) for i in range(n + 1)]).T
    _, T = U.quad_grid(n, n)
    nt = n * n
    lo = int(rng.integers(3, 200))
    hi = int(rng.integers(900, nt - 1003))
    bands = [np.concatenate([np.arange(0, 3), np.arange(a, a + 1000), np.arange(nt - 3, nt)]) for a in (lo, hi)]
    bands.append(np.concatenate([np.arange(0, 3), np.arange(lo + 300, lo + 1300), np.arange(nt - 3, nt)]))
    seq('quad', 'history-graded-large', P, T, [arr(b, 'int32') for b in bands], (1, 2))
    seq('quad', 'history-graded-large', P, T,
        [{'dom': 'cells', 'mode': 'named', 'name': f'band{j}', 'cells': [int(c) for c in b]} for j, b in enumerate(bands[:2])],
        (2,), tags={f'band{j}': [int(c) for c in b] for j, b in enumerate(bands[:2])})
    if big:
        n = 13
        ax = [graded_axis(n, rng, 18) for _ in range(3)]
        Ph, Th = U.hex_grid(n, n, n)
        Ph = np.vstack([ax[c][Ph[c].astype(int)] for c in range(3)])
        nt = n ** 3
        bands = [np.concatenate([np.arange(0, 3), np.arange(a, a + 1000), np.arange(nt - 3, nt)]) for a in (5, 800)]
        seq('hex', 'history-graded-large', Ph, Th, [arr(b, 'int32') for b in bands], (1,))
    return recs


def generate(tier, seed):
    out = []
    rounds = (8, 4, 2) if tier == 'thorough' else (1, 1, 1)     # further rounds draw other monomials / regions / variants
    for k in range(rounds[0]):
        out += gen_integrate(tier, np.random.default_rng(seed + 2 + 1000 * k))
    for k in range(rounds[1]):
        out += gen_masssum(tier, np.random.default_rng(seed + 3 + 1000 * k))
    for k in range(rounds[2]):
        out += gen_entries(tier, np.random.default_rng(seed + 4 + 1000 * k))
    out += gen_sequence(tier, np.random.default_rng(seed + 5))
    out += gen_entries_t(tier, np.random.default_rng(seed + 6))
    return out


def _scen(args):
    return scenario(*args)


def all_scenarios(recs):
    jobs = [(f'C02-{k}', r) for k, r in enumerate(recs)]
    try:
        import multiprocessing as mp
        with mp.get_context('fork').Pool(min(8, os.cpu_count() or 1)) as pool:
            return pool.map(_scen, jobs, chunksize=4)
    except (OSError, ImportError):
        return [scenario(*j) for j in jobs]


def model(ctx):
    if os.path.exists(os.path.join(os.path.dirname(__file__), '..', '..', 'spec', 'MC_C02.cfg')):
        ctx.model_must_hold('MC_C02', 'MC_C02.cfg', timeout=900, workers=4)


def run(ctx):
    model(ctx)
    recs = generate(ctx.tier, ctx.seed)
    scs = all_scenarios(recs)
    ctx.validate('TraceC02', scs, jvms=8)
    import json
    ctx.notes['distinct_nontrivial'] = len({json.dumps(r, sort_keys=True) for r in recs})
    ctx.notes['by_driver'] = {d: sum(1 for r in recs if r['driver'] == d) for d in list(EXEC) + ['sequence']}
    ctx.notes['tolerances'] = {'TolSum': '2^-37 x integer magnitude bound of the integral (computed in TLA+)',
                               'TolEntries': '2^-31 absolute'}
    return ctx.finish(rule=RULE, assumptions=[
        'meshes are straight-sided with integer (or dyadic) vertex coordinates; exact oracles exist for monomials of '
        'degree <= 4 (2-D) / 3 (3-D) on arbitrary regions and <= 6 on box-shaped domains; facet integrals only over '
        'facets with rational measure; hexahedra are parallelepipeds, prisms affine',
        'exact matrix entries only for P0-P2 on affine simplices; degree 3-4 and non-affine cells only through the '
        'mass-sum and invariance laws',
        'for non-parallelogram quadrilaterals the integrand times the Jacobian has one degree more per direction; '
        'the integration order is chosen accordingly',
        'mode L: an error below 2^-37 of the magnitude of the integral is invisible',
        'TLC 1.8.0 and the CommunityModules Json module are trusted'],
        exhaustive=False)


def replay(ctx, doc):
    sc = doc['scenario']
    ctx.validate('TraceC02', [scenario(sc['id'], sc['recipe'])])
    return ctx.finish(rule=RULE)
