SPECIFICATION Spec
CONSTANT Regress = "counts"
INVARIANT ClausesHold
CHECK_DEADLOCK FALSE
