-------------------------------- MODULE RefInterp --------------------------------
(* Basis.refinterp (skfem/assembly/basis/cell_basis.py:143-195): the mesh of the     *)
(* n-times refined reference cell copied into every cell, with the discrete          *)
(* function sampled at its vertices -- specification growth beyond the listed        *)
(* properties (DESIGN section 10, X07).                                              *)
(*                                                                                   *)
(* Event: [kind, n, p0 / t0 (the parent mesh, coordinates multiplied by 2^n so that   *)
(* all refined points are integers), P / T (points and cells of the result, same      *)
(* scaling), W (sampled values, integers), ca / cb (the coefficient vector is the     *)
(* interpolant of the affine function ca . x + cb * 2^n on scaled coordinates),       *)
(* npr (points per parent), err].                                                     *)
EXTENDS MeshTopology

DimR(e) == Len(e.p0[1])
NSub(e) == Pow2(DimR(e) * e.n)
ParentOf(e, k) == ((k - 1) \div NSub(e)) + 1
BlockOfPoint(e, q) == ((q - 1) \div e.npr) + 1
Vc(P, a, b) == [d \in DOMAIN P[a] |-> P[b][d] - P[a][d]]
D2(u, v) == u[1] * v[2] - u[2] * v[1]
D3(u, v, w) == u[1] * (v[2] * w[3] - v[3] * w[2]) - u[2] * (v[1] * w[3] - v[3] * w[1]) + u[3] * (v[1] * w[2] - v[2] * w[1])
\* d! |simplex| ; quadrilaterals as two triangles (0,1,2)+(0,2,3); hexahedra are handled by counting only
SVol(P, c) == IF Len(P[c[1]]) = 2 THEN Abs(D2(Vc(P, c[1], c[2]), Vc(P, c[1], c[3])))
              ELSE Abs(D3(Vc(P, c[1], c[2]), Vc(P, c[1], c[3]), Vc(P, c[1], c[4])))
CellVol(e, P, c) == CASE e.kind \in {"tri", "tet"} -> SVol(P, c)
                      [] e.kind = "quad" -> SVol(P, <<c[1], c[2], c[3]>>) + SVol(P, <<c[1], c[3], c[4]>>)
                      [] OTHER -> 0
\* point inside the closed parent simplex: all sub-volumes add up to the volume
InSimplex(e, pt, c) ==
  LET P == [v \in 1..(Len(c) + 1) |-> IF v <= Len(c) THEN e.p0[c[v]] ELSE pt]
      ids == [v \in 1..Len(c) |-> v]
      z == Len(c) + 1
      parts == [s \in 1..Len(c) |-> SVol(P, [v \in 1..Len(c) |-> IF v = s THEN z ELSE v])]
  IN SumSeq(parts) = SVol(P, ids)
InBoxHull(e, pt, c) == \A d \in DOMAIN pt : /\ pt[d] >= MinSet({e.p0[c[i]][d] : i \in DOMAIN c})
                                            /\ pt[d] <= MaxSet({e.p0[c[i]][d] : i \in DOMAIN c})
InsideParent(e, pt, c) == IF e.kind \in {"tri", "tet"} THEN InSimplex(e, pt, c) ELSE InBoxHull(e, pt, c)

RefWF(e) == /\ Len(e.T) = Len(e.t0) * NSub(e) /\ Len(e.W) = Len(e.P)
            /\ \A k \in DOMAIN e.T : \A i \in DOMAIN e.T[k] : e.T[k][i] \in DOMAIN e.P
            /\ e.npr > 0 /\ Len(e.P) = e.npr * Len(e.t0)

RefInterpClauses(e) ==
  IF e.err # "" THEN [RefinterpAvailable |-> FALSE]
  ELSE IF ~RefWF(e) THEN [ResultWellFormed |-> FALSE]
  ELSE
  [ RefinterpAvailable |-> TRUE, ResultWellFormed |-> TRUE,
    \* sub-cell k belongs to parent (k-1) div 2^(dn) + 1 and uses only that parent's block of points
    BlockStructure |-> \A k \in DOMAIN e.T : \A i \in DOMAIN e.T[k] : BlockOfPoint(e, e.T[k][i]) = ParentOf(e, k),
    PointsInsideParent |-> \A q \in DOMAIN e.P : InsideParent(e, e.P[q], e.t0[BlockOfPoint(e, q)]),
    \* the parent's own vertices are among its block's points
    ParentVerticesSampled |-> \A c \in DOMAIN e.t0 : \A i \in DOMAIN e.t0[c] :
          \E q \in ((c - 1) * e.npr + 1)..(c * e.npr) : e.P[q] = e.p0[e.t0[c][i]],
    SubcellsFillParent |-> e.kind \in {"tri", "quad", "tet"} => \A c \in DOMAIN e.t0 :
          SumOver([k \in {kk \in DOMAIN e.T : ParentOf(e, kk) = c} |-> CellVol(e, e.P, e.T[k])], {kk \in DOMAIN e.T : ParentOf(e, kk) = c})
            = CellVol(e, e.p0, e.t0[c]),
    NoDegenerateSubcell |-> e.kind \in {"tri", "quad", "tet"} => \A k \in DOMAIN e.T : CellVol(e, e.P, e.T[k]) > 0,
    \* the sampled values are those of the discrete function (here: an affine function, reproduced exactly)
    ValuesAreTheFunction |-> \A q \in DOMAIN e.P : e.W[q] = SumSeq([d \in DOMAIN e.ca |-> e.ca[d] * e.P[q][d]]) + e.cb * Pow2(e.n) ]
==============================================================================
