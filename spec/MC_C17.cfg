SPECIFICATION Spec
CONSTANT Scope = "paired"
CONSTANT Decoder = "today"
INVARIANT RoundTripHolds
CHECK_DEADLOCK FALSE
