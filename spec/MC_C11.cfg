SPECIFICATION Spec
INVARIANT ClausesHold
INVARIANT TypeOK
CHECK_DEADLOCK FALSE
