SPECIFICATION Spec
INVARIANT NormalSlotChoice
CHECK_DEADLOCK FALSE
