--------------------------- MODULE MC_C05_Universe ---------------------------
(* The small universe of linear systems used by MC_C05 (model checking) and   *)
(* MC_C05_export (scenario export for replay on the real code).                *)
EXTENDS BC

Ns == {1, 2, 3}
Cells(n)    == {<<i, j>> : i \in 1..n, j \in 1..n}
ValueAt(i, j, zeros) == IF <<i, j>> \in zeros THEN 0 ELSE 7 * i + j        \* injective, non-zero unless explicit zero
MatOf(n, pat, zeros) ==
  LET rows == [i \in 1..n |-> SortedSeq({j \in 1..n : <<i, j>> \in pat})]
      lens == [i \in 1..n |-> Len(rows[i])]
      flat == FlattenSeq([i \in 1..n |-> [q \in DOMAIN rows[i] |-> <<i, rows[i][q]>>]])
  IN [n |-> n, m |-> n,
      ptr |-> [i \in 1..(n + 1) |-> SumOver(lens, 1..(i - 1))],
      idx |-> [k \in DOMAIN flat |-> flat[k][2]],
      dat |-> [k \in DOMAIN flat |-> ValueAt(flat[k][1], flat[k][2], zeros)]]
\* every ordered subset (sequence without repetition) of 1..n
OrderedSubsets(n) == {s \in UNION {[1..k -> 1..n] : k \in 0..n} : IsInjectiveSeq(s)}

XVec(n) == [i \in 1..n |-> 11 + 2 * i]
BVec(n) == [i \in 1..n |-> 3 * i - 1]
ZVec(k) == [r \in 1..k |-> 5 * r + 1]

==============================================================================
