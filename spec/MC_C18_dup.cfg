SPECIFICATION Spec
CONSTANT DupModel = "old"
INVARIANT ClausesHold
CHECK_DEADLOCK FALSE
