"""C08 - quadrature rules deliver their advertised degree on every reference cell.

The space is finite and enumerated completely: every reference cell kind x every order n in -1..NMAX[kind]
(NMAX = largest tabulated order + 3; cells without tables use the bound of the simplex of the same dimension)
x every monomial the order promises.  The harness calls the real get_quadrature, computes the moments
sum_i w_i x_i^alpha in exact rational arithmetic from the returned floats (the allowed fixed linear
functional of pi) and logs them as fixed-point limbs.  TLC (spec/TraceC08.tla -> Quadrature.tla, Numeric.tla)
compares with the closed form RefMoment and decides every clause.

M : spec/MC_C08.cfg - design level: the specification's own Gauss-Legendre rules and the transcription of the
    tensor-product constructions satisfy the same clauses; RefMoment is cross-checked (rational closed form,
    square = two triangles, tetrahedron by integrating out z).
"""
import itertools
import os

import numpy as np

from ..core import guarded as _core_guarded, MachineryError
from ..numeric import exact_moments, fr, fx_req

KINDS = ['point', 'line', 'tri', 'quad', 'tet', 'hex', 'wedge']
# largest tabulated order: triangle 19, tetrahedron 9 (prism = triangle x segment: 19); + 3
NMAX = {'point': 3, 'line': 22, 'tri': 22, 'quad': 22, 'tet': 12, 'hex': 16, 'wedge': 22}
DIM = {'point': 0, 'line': 1, 'tri': 2, 'quad': 2, 'tet': 3, 'hex': 3, 'wedge': 3}
FACTORS = {'quad': ['line', 'line'], 'hex': ['line', 'line', 'line'], 'wedge': ['tri', 'line']}


def guarded(fn, seconds):
    """core.guarded with a generous alarm; an expired alarm says something about the MACHINE (load, a slow box), not
    about the library -- none of the calls driven here can loop -- so it is a machinery failure (exit 2), never an
    observation a clause could turn into a VIOLATION."""
    res, err = _core_guarded(fn, 10 * seconds)
    if err == 'Timeout':
        raise MachineryError('per-call alarm expired (%d s): machine too slow or overloaded' % (10 * seconds))
    return res, err

RULE = ('scenario = one (reference cell, order) pair; the whole finite space kinds x orders -1..NMAX x promised '
        'monomials is enumerated. Non-trivial = the library returned a rule (not an exception) and the order '
        'promises more than the constant; distinct = distinct (kind, n).')


def refdom(kind):
    from skfem import refdom as R
    return {'point': R.RefPoint, 'line': R.RefLine, 'tri': R.RefTri, 'quad': R.RefQuad, 'tet': R.RefTet,
            'hex': R.RefHex, 'wedge': R.RefWedge}[kind]


def monomials(kind, n):
    m = max(n, 0)
    d = DIM[kind]
    if kind == 'point':
        return [()]
    if kind in ('tri', 'tet', 'wedge'):            # prism: total degree, as the statement says for every cell
        return [a for a in itertools.product(range(m + 1), repeat=d) if sum(a) <= m]
    return list(itertools.product(range(m + 1), repeat=d))


def min_slack(kind, X):
    """Exact minimum over nodes of the slack of the inequalities defining the closed reference cell."""
    d, N = X.shape
    if d == 0:
        return 0
    best = None
    for i in range(N):
        x = [fr(X[j, i]) for j in range(d)]
        if kind in ('line', 'quad', 'hex'):
            s = min(min(x), min(1 - v for v in x))
        elif kind in ('tri', 'tet'):
            s = min(min(x), 1 - sum(x))
        else:  # wedge
            s = min(x[0], x[1], 1 - x[0] - x[1], x[2], 1 - x[2])
        best = s if best is None else min(best, s)
    return best


def _rule_fx(kind, n):
    """The factor rule the library returns for (kind, n), as Fx nodes/weights."""
    from skfem.quadrature import get_quadrature
    res, err = guarded(lambda: get_quadrature(refdom(kind), n), 20)
    if err:
        return {'err': err, 'x': [], 'w': []}, None
    X, W = res
    return {'err': '', 'x': [[fx_req(X[c, i]) for c in range(X.shape[0])] for i in range(X.shape[1])],
            'w': [fx_req(w) for w in W]}, (np.asarray(X), np.asarray(W))


def tensor_part(kind, n, X, W):
    fs, raws = [], []
    for fk in FACTORS[kind]:
        f, raw = _rule_fx(fk, n)
        fs.append(f)
        raws.append(raw)
    ix = []
    for k in range(X.shape[1]):
        row, c0 = [], 0
        for fk, raw in zip(FACTORS[kind], raws):
            dk = DIM[fk]
            if raw is None:
                row.append(0)
            else:
                dist = np.abs(raw[0] - X[c0:c0 + dk, k][:, None]).max(axis=0)
                row.append(int(np.argmin(dist)) + 1)          # nearest factor node (a projection, no tolerance)
            c0 += dk
        ix.append(row)
    return {'f': fs, 'ix': ix,
            'X': [[fx_req(X[c, k]) for c in range(X.shape[0])] for k in range(X.shape[1])],
            'W': [fx_req(w) for w in W]}


EMPTY_TS = {'f': [], 'ix': [], 'X': [], 'W': []}


def execute(rec):
    from skfem.quadrature import get_quadrature
    kind, n = rec['kind'], int(rec['n'])
    ev = {'a': 'GetQuadrature', 'kind': kind, 'n': n, 'err': '', 'dim': DIM[kind], 'npts': 0,
          'sumw': [0] * 5, 'slack': [0] * 5, 'mom': [], 'ts': EMPTY_TS}
    res, err = guarded(lambda: get_quadrature(refdom(kind), n), 20)
    if err:
        ev['err'] = err
        return [ev]

    def project():
        X, W = res
        X = np.asarray(X, dtype=np.float64)
        W = np.asarray(W, dtype=np.float64)
        if X.ndim != 2 or W.ndim != 1 or X.shape[1] != W.shape[0] or X.shape[0] != DIM[kind] \
                or not (np.isfinite(X).all() and np.isfinite(W).all()):
            raise ValueError('malformed rule')
        mons = monomials(kind, n)
        M = exact_moments(X, W, mons)
        ev['npts'] = int(W.shape[0])
        ev['sumw'] = fx_req(sum(fr(w) for w in W))
        ev['slack'] = fx_req(min_slack(kind, X))
        ev['mom'] = [list(a) + fx_req(M[a]) for a in mons]
        if kind in FACTORS:
            ev['ts'] = tensor_part(kind, n, X, W)
    _, perr = guarded(project, 120)
    if perr:                                   # a returned object that is not a rule is an observation too
        ev['err'] = 'Malformed:' + perr
        ev['mom'] = []
        ev['ts'] = EMPTY_TS
    return [ev]


def scenario(rec):
    return {'id': f'C08-{rec["kind"]}-{rec["n"]}', 'recipe': rec,
            'tags': {'kind': rec['kind'], 'n': rec['n']}, 'events': execute(rec)}


def recipes():
    return [{'driver': 'quadrature', 'kind': k, 'n': n} for k in KINDS for n in range(-1, NMAX[k] + 1)]


def model(ctx):
    if os.path.exists(os.path.join(os.path.dirname(__file__), '..', '..', 'spec', 'MC_C08.cfg')):
        ctx.model_must_hold('MC_C08', 'MC_C08.cfg', timeout=600, workers=4)


def all_scenarios():
    """One scenario per (kind, order); the projections are independent, so they are spread over a few processes."""
    recs = recipes()
    try:
        import multiprocessing as mp
        order = sorted(range(len(recs)), key=lambda j: -(recs[j]['n'] + 2) ** (DIM[recs[j]['kind']] + 1))
        with mp.get_context('fork').Pool(min(8, os.cpu_count() or 1)) as pool:
            done = pool.map(scenario, [recs[j] for j in order], chunksize=1)
        out = [None] * len(recs)
        for j, sc in zip(order, done):
            out[j] = sc
        return out
    except (OSError, ImportError):
        return [scenario(r) for r in recs]


def run(ctx):
    model(ctx)
    scs = all_scenarios()
    ctx.validate('TraceC08', scs, jvms=8)
    offered = [s for s in scs if s['events'][0]['err'] == '']
    ctx.notes['distinct_nontrivial'] = sum(1 for s in offered if s['recipe']['n'] >= 1)
    ctx.notes['rules_offered'] = len(offered)
    ctx.notes['rules_refused'] = len(scs) - len(offered)
    ctx.notes['moments_compared'] = sum(len(s['events'][0]['mom']) for s in scs)
    ctx.notes['orders'] = {k: [-1, NMAX[k]] for k in KINDS}
    ctx.notes['tolerances'] = {'TolQuad': '2^-42 * |reference cell| + 64 * 2^-56', 'TolNode': '2^-48'}
    return ctx.finish(rule=RULE, assumptions=[
        'orders are enumerated up to NMAX (line/tri/quad/wedge 22, tet 12, hex 16, point 3); segment, quadrilateral '
        'and hexahedron rules are generated for any order, larger orders are not examined',
        'prism rules are asked to integrate total degree <= n (not the larger product space the library\'s rule also integrates)',
        'mode L: an error below 2^-42 of the cell measure is invisible',
        'TLC 1.8.0 and the CommunityModules Json module are trusted'],
        exhaustive=True)


def replay(ctx, doc):
    sc = doc['scenario']
    ctx.validate('TraceC08', [scenario(sc['recipe'])])
    return ctx.finish(rule=RULE)
