"""Projection helpers for the numeric layer (mode L): exact rational functionals of returned float arrays.

Nothing here compares against an expected value.  Floats are converted exactly (float.as_integer_ratio),
all arithmetic is integer / fractions.Fraction, results leave as fixed-point limbs (project.fx).
"""
import operator
from fractions import Fraction

import numpy as np

from .project import fx


def scaled_ints(v):
    """Exact integers m_i and exponent s with v_i = m_i / 2^s for a sequence of finite floats."""
    rs = [float(x).as_integer_ratio() for x in v]
    s = max([d.bit_length() - 1 for _, d in rs], default=0)
    return [n << (s - (d.bit_length() - 1)) for n, d in rs], s


def exact_moments(X, W, monomials):
    """{alpha: Fraction(sum_i W_i prod_j X[j,i]^alpha_j)} computed exactly from the floats.
    X: (d, N) array, W: (N,), monomials: iterable of d-tuples.  This is the fixed linear functional of the
    weights that DESIGN 4.1 allows pi to apply (the abstract observation of a quadrature rule)."""
    X = np.asarray(X, dtype=np.float64)
    W = np.asarray(W, dtype=np.float64)
    d, N = X.shape
    mons = sorted(set(tuple(int(a) for a in m) for m in monomials))
    mw, sw = scaled_ints(W)
    if d == 0:
        tot = Fraction(sum(mw), 1 << sw)
        return {m: tot for m in mons}
    mx, sx = [], []
    for j in range(d):
        m, s = scaled_ints(X[j])
        mx.append(m)
        sx.append(s)
    maxdeg = [max(a[j] for a in mons) for j in range(d)]
    P = []
    for j in range(d):
        pj = [[1] * N]
        for _ in range(maxdeg[j]):
            pj.append(list(map(operator.mul, pj[-1], mx[j])))
        P.append(pj)
    out = {}
    prev = None
    part = [None] * (d + 1)
    part[0] = mw
    for a in mons:
        k = 0
        if prev is not None:
            while k < d - 1 and a[k] == prev[k]:
                k += 1
        for j in range(k, d - 1):
            part[j + 1] = list(map(operator.mul, part[j], P[j][a[j]]))
        s = sum(map(operator.mul, part[d - 1], P[d - 1][a[d - 1]]))
        sh = sw + sum(sx[j] * a[j] for j in range(d))
        out[a] = Fraction(s, 1 << sh)
        prev = a
    return out


def fr(x):
    return Fraction(float(x))


def fx_req(x):
    """fx() that must succeed (None -> ValueError caught by the caller as an observation)."""
    r = fx(x)
    if r is None:
        raise OverflowError('value not representable in Fx')
    return r
