----------------------------- MODULE Refinement -----------------------------
(* Refinement of meshes (properties C12 uniform, C13 adaptive): relational     *)
(* post-conditions RefineOK / AdaptOK, numbering-free (children, facets and     *)
(* tags are identified by the integer point sets they designate).               *)
(*                                                                               *)
(* A mesh record is  [kind, cls, p, t, hassub, sub, hasbnd, bnd]  with           *)
(*   sub : sequence of <<name, cells>>,  bnd : sequence of <<name, facets>>,     *)
(*   a facet being the sequence of its vertex ids.                               *)
(* Transcriptions of the code's algorithms live in RefineImpl.tla.               *)
EXTENDS GeomRefine

NCorners(kind) == CASE kind = "line" -> 2 [] kind = "tri" -> 3 [] kind = "quad" -> 4
                    [] kind = "tet" -> 4 [] kind = "hex" -> 8 [] kind = "wedge" -> 6
Names(tags)      == {tags[q][1] : q \in DOMAIN tags}
TagOf(tags, n)   == tags[CHOOSE q \in DOMAIN tags : tags[q][1] = n][2]

MeshWF(m) == /\ Len(m.p) > 0 /\ Len(m.t) > 0
             /\ \A v \in DOMAIN m.p : Len(m.p[v]) = DimOf(m.kind)
             /\ \A k \in DOMAIN m.t : Len(m.t[k]) = NCorners(m.kind)
             /\ \A k \in DOMAIN m.t : \A i \in DOMAIN m.t[k] : m.t[k][i] \in DOMAIN m.p
             /\ \A q \in DOMAIN m.sub : \A c \in DOMAIN m.sub[q][2] : m.sub[q][2][c] \in DOMAIN m.t
             /\ \A q \in DOMAIN m.bnd : \A f \in DOMAIN m.bnd[q][2] :
                   \A i \in DOMAIN m.bnd[q][2][f] : m.bnd[q][2][f][i] \in DOMAIN m.p

\* parents of a child cell: the old cells whose closed hull contains it
Parents(pre, post) == [j \in DOMAIN post.t |-> {k \in DOMAIN pre.t : CellInCell(post, j, pre, k)}]

ChildInsideParent(par)      == \A j \in DOMAIN par : par[j] # {}
SameDomain(pre, post)       == TotalMeasure(post) = TotalMeasure(pre)
\* together with ChildInsideParent and SameDomain this excludes overlaps compensated by gaps: the new boundary
\* lies on the old boundary
BoundaryPreserved(pre, post) ==
  LET d == DimOf(pre.kind)
      oldb == {GeoKey(pre, key) : key \in BoundaryFacetKeys(pre)}
  IN \A key \in BoundaryFacetKeys(post) : \E F \in oldb : FacetInFacet(d, GeoKey(post, key), F)
OldVerticesKept(pre, post)  == Len(post.p) >= Len(pre.p) /\ \A v \in DOMAIN pre.p : post.p[v] = pre.p[v]
Count(pre, post, k)         == Len(post.t) = (2 ^ (DimOf(pre.kind) * k)) * Len(pre.t)
MarkedSubdivided(pre, post, marked) ==
  LET cells == {{post.p[post.t[j][i]] : i \in DOMAIN post.t[j]} : j \in DOMAIN post.t} IN
  \A q \in DOMAIN marked : {pre.p[pre.t[marked[q]][i]] : i \in DOMAIN pre.t[marked[q]]} \notin cells

\* a sub-domain designates the union of its cells: afterwards exactly the children of its cells
SubSame(pre, post, par, n) ==
  /\ n \in Names(post.sub)
  /\ VSet(TagOf(post.sub, n)) = {j \in DOMAIN post.t : par[j] \cap VSet(TagOf(pre.sub, n)) # {}}
\* a named boundary designates a set of facets (point sets): afterwards exactly the facets of the new mesh that lie
\* in one of them (a facet is identified by its vertex set, which the code's own `facets` table supplied)
BndSame(pre, post, n) ==
  LET d == DimOf(pre.kind)
      old == {{pre.p[f[i]] : i \in DOMAIN f} : f \in VSet(TagOf(pre.bnd, n))}
      new == {{post.p[f[i]] : i \in DOMAIN f} : f \in VSet(TagOf(post.bnd, n))}
      all == {GeoKey(post, key) : key \in AllFacetKeys(post)}
  IN /\ n \in Names(post.bnd)
     /\ new = {G \in all : \E F \in old : FacetInFacet(d, G, F)}

\* C12: names survive with the same designation, or are dropped WITH a warning
SubdomainsCarriedOrDropped(pre, post, par, warned) ==
  \A n \in Names(pre.sub) : IF n \in Names(post.sub) THEN SubSame(pre, post, par, n) ELSE warned = 1
BoundariesCarriedOrDropped(pre, post, warned) ==
  \A n \in Names(pre.bnd) : IF n \in Names(post.bnd) THEN BndSame(pre, post, n) ELSE warned = 1
\* C13: sub-domains must survive
SubdomainsCarried(pre, post, par) == \A n \in Names(pre.sub) : SubSame(pre, post, par, n)
\* names are never invented
NoNewNames(pre, post) == Names(post.sub) \subseteq Names(pre.sub) /\ Names(post.bnd) \subseteq Names(pre.bnd)

\* valid result: no duplicate vertices, and every vertex is used -- except vertices that were already unused in the
\* operand (they keep their indices: OldVerticesKept), e.g. stray trailing nodes of a mesh file
UsedVertices(m) == UNION {VSet(m.t[k]) : k \in DOMAIN m.t}
ValidRelative(pre, post) ==
  /\ \A k \in DOMAIN post.t : \A i \in DOMAIN post.t[k] : post.t[k][i] \in DOMAIN post.p
  /\ \A v, w \in UsedVertices(post) : v # w => post.p[v] # post.p[w]
  /\ UsedVertices(post) \cup ((DOMAIN pre.p) \ UsedVertices(pre)) = DOMAIN post.p

CommonClauses(e) ==
  LET pre == e.pre post == e.post par == Parents(pre, post) IN
  [ Valid |-> ValidRelative(pre, post),
    NoDegenerate |-> NoDegenerateCells(post),
    Conforming |-> Conforming(post),
    ChildInsideParent |-> ChildInsideParent(par),
    SameDomain |-> SameDomain(pre, post),
    BoundaryPreserved |-> BoundaryPreserved(pre, post),
    OldVerticesKept |-> OldVerticesKept(pre, post),
    SameClass |-> post.cls = pre.cls /\ post.kind = pre.kind,
    NoNewNames |-> NoNewNames(pre, post) ]

\* uniform refinement, k times (C12)
RefineClauses(e) ==
  IF e.err # "" THEN [NoError |-> FALSE]
  ELSE IF ~(MeshWF(e.pre) /\ MeshWF(e.post)) THEN [ResultWellFormed |-> MeshWF(e.post), HarnessInputWellFormed |-> MeshWF(e.pre)]
  ELSE LET par == Parents(e.pre, e.post) IN
       CommonClauses(e) @@
       [ NoError |-> TRUE, ResultWellFormed |-> TRUE,
         Count |-> Count(e.pre, e.post, e.k),
         SubdomainsSameDesignation |-> SubdomainsCarriedOrDropped(e.pre, e.post, par, e.warned_s),
         BoundariesSameDesignation |-> BoundariesCarriedOrDropped(e.pre, e.post, e.warned_b) ]

\* adaptive refinement of the marked cells (C13)
AdaptClauses(e) ==
  IF e.err # "" THEN [NoError |-> e.err = "Timeout", Terminates |-> e.err # "Timeout"]
  ELSE IF ~(MeshWF(e.pre) /\ MeshWF(e.post)) THEN [ResultWellFormed |-> MeshWF(e.post), HarnessInputWellFormed |-> MeshWF(e.pre)]
  ELSE LET par == Parents(e.pre, e.post) IN
       CommonClauses(e) @@
       [ NoError |-> TRUE, Terminates |-> TRUE, ResultWellFormed |-> TRUE,
         MarkedSubdivided |-> MarkedSubdivided(e.pre, e.post, e.marked),
         SubdomainsSameDesignation |-> SubdomainsCarried(e.pre, e.post, par) ]
==============================================================================
