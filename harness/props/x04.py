"""X04 - trilinear forms (extended coverage beyond the listed properties; NOT registered in MANIFEST.json).

`TrilinearForm` is the three-index instance of the assembly algorithm.  For small meshes and every combination of three
element types of a cell type the COO index triples are compared, position by position, with the three cell-to-DOF tables
(exact), and the tensor is tied to the weak form by two laws on fixed-point numbers: its contraction with three random
coefficient vectors equals the integrand evaluated on the interpolated functions (library `Functional`), and equals
v^T A(w) u with A assembled as a `BilinearForm` that carries the third function as a coefficient field.
Verdicts: spec/TraceX04.tla against spec/Trilinear.tla.
"""
import itertools
import json

import numpy as np

from ..core import guarded
from ..project import fx

RULE = ('scenario = (mesh, three elements, integrand, cell subset, coefficient seed); '
        'distinct = distinct recipes.')

MESHES = {
    'line': lambda f: f.MeshLine(np.array([0., 0.5, 2., 3.])),
    'tri': lambda f: f.MeshTri.init_tensor(np.array([0., 1., 3.]), np.array([0., 2., 3.])),
    'quad': lambda f: f.MeshQuad(np.array([[0., 2., 2.5, 0., 4., 4.5], [0., 0., 2., 1.5, 0., 2.5]]),
                                 np.array([[0, 1, 2, 3], [1, 4, 5, 2]]).T),
    'tet': lambda f: f.MeshTet(),
}
ELEMS = {
    'line': ['ElementLineP0', 'ElementLineP1', 'ElementLineP2'],
    'tri': ['ElementTriP0', 'ElementTriP1', 'ElementTriP2', 'ElementTriCR'],
    'quad': ['ElementQuad0', 'ElementQuad1', 'ElementQuad2'],
    'tet': ['ElementTetP0', 'ElementTetP1'],
}
FORMS = {
    'uvw': lambda u, v, w, p: u * v * w,
    'u_gvgw': lambda u, v, w, p: u * sum(v.grad[i] * w.grad[i] for i in range(v.grad.shape[0])),
    'gu0_v_w_x': lambda u, v, w, p: u.grad[0] * v * w * (1.0 + p.x[0]),
    # not symmetric under any exchange of two arguments
    'u_gv0_w2': lambda u, v, w, p: u * v.grad[0] * w * (2.0 + p.x[0]),
    'u2_v_gw0': lambda u, v, w, p: (1.0 + p.x[0]) * u * v * w.grad[-1] + u.grad[0] * v * w,
}


def execute(rec):
    import skfem as fem
    from skfem.assembly import TrilinearForm, BilinearForm, Functional
    ev = {'a': 'Tri', 'err': '', 'nt': 0, 'nbu': 0, 'nbv': 0, 'nbw': 0, 'nu': 0, 'nv': 0, 'nw': 0, 'edu': [], 'edv': [],
          'edw': [], 'idx': [], 'shape': [], 'lshape': [], 'contr': fx(0.0), 'direct': fx(0.0), 'viabil': fx(0.0), 'mag': 1}

    def call():
        m = MESHES[rec['kind']](fem)
        kw = {'intorder': 6}
        if rec.get('cells') is not None:
            kw['elements'] = np.array(rec['cells'], dtype=np.int32)
        bu, bv, bw = (fem.Basis(m, getattr(fem, n)(), **kw) for n in rec['elems'])
        form = FORMS[rec['form']]
        d = TrilinearForm(form).coo_data(bu, bv, bw)
        T = d.toarray()
        rng = np.random.default_rng(rec['seed'])
        u, v, w = (np.round(rng.uniform(-1, 1, b.N) * 8) / 8 for b in (bu, bv, bw))
        contr = float(np.einsum('ijk,i,j,k', T, w, v, u))
        direct = float(Functional(lambda p: form(p['uu'], p['vv'], p['ww'], p)).assemble(
            bu, uu=bu.interpolate(u), vv=bv.interpolate(v), ww=bw.interpolate(w)))
        A = BilinearForm(lambda a, b, p: form(a, b, p['ww'], p)).assemble(bu, bv, ww=bw.interpolate(w))
        viabil = float(v @ (A @ u))
        absT = float(np.abs(T).sum())
        return bu, bv, bw, d, contr, direct, viabil, absT
    out, err = guarded(call, 60)
    if err:
        ev['err'] = err
        return [ev]
    bu, bv, bw, d, contr, direct, viabil, absT = out
    tab = lambda b: [[int(x) + 1 for x in col] for col in b.element_dofs.T]
    ev.update(nt=int(bu.nelems), nbu=int(bu.Nbfun), nbv=int(bv.Nbfun), nbw=int(bw.Nbfun), nu=int(bu.N), nv=int(bv.N),
              nw=int(bw.N), edu=tab(bu), edv=tab(bv), edw=tab(bw),
              idx=[[int(x) + 1 for x in col] for col in np.asarray(d.indices).T],
              shape=[int(x) for x in d.shape], lshape=[int(x) for x in d.local_shape],
              contr=fx(contr), direct=fx(direct), viabil=fx(viabil), mag=int(absT) + 1)
    return [ev]


def generate(tier, seed):
    recs = []
    rng = np.random.default_rng(77 + seed)
    for kind, names in ELEMS.items():
        combos = list(itertools.product(names, repeat=3))
        if tier == 'quick':
            combos = [combos[i] for i in sorted(rng.choice(len(combos), size=min(8, len(combos)), replace=False))]
        for c in combos:
            for form in FORMS:
                if form not in ('uvw', 'u_gv0_w2') and tier == 'quick' and rng.random() < 0.5:
                    continue
                cells = None
                if rng.random() < 0.4:
                    cells = [0] if kind == 'tet' else [1, 0] if rng.random() < 0.5 else [1]
                recs.append({'driver': 'trilinear', 'kind': kind, 'elems': list(c), 'form': form, 'cells': cells,
                             'seed': int(rng.integers(1, 10 ** 6))})
    return recs


def run(ctx):
    recs = generate(ctx.tier, ctx.seed)
    scs = [{'id': f'X04-{k}', 'recipe': r, 'tags': {'kind': r['kind'], 'form': r['form']}, 'events': execute(r)}
           for k, r in enumerate(recs)]
    ctx.validate('TraceX04', scs)
    ctx.notes['distinct_nontrivial'] = len({json.dumps(r, sort_keys=True) for r in recs})
    return ctx.finish(rule=RULE, assumptions=['extended coverage: not one of the listed properties'], exhaustive=False)


def replay(ctx, doc):
    sc = doc['scenario']
    ctx.validate('TraceX04', [{'id': sc['id'], 'recipe': sc['recipe'], 'tags': sc.get('tags', {}), 'events': execute(sc['recipe'])}])
    return ctx.finish(rule=RULE)
