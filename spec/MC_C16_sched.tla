----------------------------- MODULE MC_C16_sched -----------------------------
(* spec -> code: every behaviour of AssemblyThreads for the small shapes, as a  *)
(* schedule = sequence of worker indices; the w-th worker owns Len(Chunks[w])    *)
(* pairs and takes two steps (Read, Write) per pair, so the behaviours are       *)
(* exactly the interleavings of 2*Len(Chunks[w]) tokens per worker.              *)
EXTENDS ArraySplit

RECURSIVE Inter(_)
Inter(cnt) == IF \A w \in DOMAIN cnt : cnt[w] = 0 THEN {<<>>}
              ELSE UNION {{<<w>> \o s : s \in Inter([cnt EXCEPT ![w] = @ - 1])} : w \in {v \in DOMAIN cnt : cnt[v] > 0}}
Tokens(nu, nv, nth) == [w \in 1..nth |-> 2 * ChunkLenP(nu * nv, nth, w)]

Quick    == {<<1,1,1>>, <<1,1,2>>, <<1,3,1>>, <<1,3,2>>, <<1,3,3>>, <<1,3,5>>, <<3,1,2>>, <<2,2,2>>, <<2,2,3>>}
Thorough == Quick \cup {<<1,3,4>>, <<3,1,3>>, <<2,2,4>>, <<2,2,6>>, <<2,3,2>>, <<3,2,2>>}
Configs  == IF IOEnv.C16_LEVEL = "thorough" THEN Thorough ELSE Quick
Scen == UNION {{[NU |-> c[1], NV |-> c[2], NTH |-> c[3], sched |-> s] : s \in Inter(Tokens(c[1], c[2], c[3]))} : c \in Configs}
ASSUME JsonSerialize(IOEnv.OUT_FILE, SetToSeq(Scen))
VARIABLE u
Init == u = 0
Next == u' = u
Spec == Init /\ [][Next]_u
==============================================================================
