"""pytest plugin (lives in /verif, loaded with `-p harness.suite_io` next to harness.suite_plugin): the repository's own
tests as drivers for C17 and C18.  Wrappers around the save / load entry points and around the mesh-surgery operations
record what the tests do on small meshes; the recorded events have exactly the format of the events the drivers
harness/props/c17.py and c18.py write, and are judged by the same trace specifications (TraceC17 / TraceC18).

  c18 : restrict, remove_elements, +, @, to_meshtri (both styles), to_meshtet, mirrored, translated, scaled,
        remove_unused_nodes, remove_duplicate_nodes, extrusion *      (morphed is NOT recorded: its arguments are
        callables, and taking the returned point array as the expected image would make the clause vacuous)
  c17 : Mesh.save / Mesh.load, to_meshio / from_meshio, to_dict / from_dict, skfem.io.json, save_npz / load_npz:
        an export followed by an import of the same file / object gives a round-trip event ("RT"); an export that is
        never read back gives an "Export" event (ExportDoesNotAlterMesh, UserArraysNotModified only)

Guard: SKFEM_VERIF=1 and SUITE_OUT must be set, otherwise the plugin is inert.  Recording never disturbs a test: every
original call is made with the caller's arguments (restrict is asked for its vertex map in addition, which only changes
its return statement) and everything the plugin does besides is inside try/except.  Bounded and de-duplicated.
Output at session end:  <SUITE_OUT>.io.<pid>.json = {"c17": [...], "c18": [...], "io_skipped": [{reason: count}]}.
"""
import hashlib
import json
import os

import numpy as np

OUT = os.environ.get('SUITE_OUT')
MAXC = int(os.environ.get('SUITE_MAX_CELLS', '64'))
ENABLED = bool(OUT) and os.environ.get('SKFEM_VERIF') == '1'
LIMIT = {'c17': 400, 'c18': 700}
_events = {'c17': [], 'c18': []}
_skipped = {}
_seen = set()
_depth = [0]
FIRST_ORDER = ('MeshLine1', 'MeshTri1', 'MeshQuad1', 'MeshTet1', 'MeshHex1', 'MeshWedge1')
IO_CLASSES = ('MeshTri1', 'MeshQuad1', 'MeshTet1', 'MeshHex1', 'MeshTri2', 'MeshQuad2', 'MeshTet2', 'MeshHex2')


def _skip(reason):
    _skipped[reason] = _skipped.get(reason, 0) + 1


def _key(*xs):
    h = hashlib.sha1()
    for a in xs:
        if isinstance(a, np.ndarray):
            h.update(str((a.dtype.str, a.shape)).encode())
            h.update(np.ascontiguousarray(a).tobytes())
        else:
            h.update(repr(a).encode())
    return h.hexdigest()


def _test():
    return os.environ.get('PYTEST_CURRENT_TEST', '')[:120]


def _tagkey(m):
    out = []
    for d in (m._boundaries, m._subdomains):
        for k in sorted(d or {}):
            out += [k, np.asarray(d[k]), np.asarray(getattr(d[k], 'ori', None) if getattr(d[k], 'ori', None) is not None
                                                     else [])]
    return out


# ================================================================================================ C18

def _small(m):
    return type(m).__name__ in FIRST_ORDER and 1 <= m.t.shape[1] <= 2 * MAXC and m.p.shape[1] <= 8 * MAXC


def _cellsets(m, nv):
    return {frozenset(tuple(float(x) for x in m.p[:, v]) for v in m.t[:nv, k]) for k in range(m.t.shape[1])}


def _convex_quads(m):
    p, t = m.p, m.t
    s = []
    for i in range(4):
        a, b, c = p[:, t[i]], p[:, t[(i + 1) % 4]], p[:, t[(i + 2) % 4]]
        s.append(np.sign((b[0] - a[0]) * (c[1] - b[1]) - (b[1] - a[1]) * (c[0] - b[0])))
    s = np.array(s)
    return bool(((s > 0).all(axis=0) | (s < 0).all(axis=0)).all())


def _planar_faces(m):
    rd = m.elem.refdom
    for f in rd.facets:
        f = list(dict.fromkeys(int(i) for i in f))
        if len(f) < 4:
            continue
        q = m.p[:, m.t[f]]                      # dim x 4 x nt
        d = np.einsum('ik,ik->k', np.cross((q[:, 1] - q[:, 0]).T, (q[:, 2] - q[:, 0]).T).T, q[:, 3] - q[:, 0])
        if np.abs(d).max() > 1e-12:
            return False
    return True


def _c18_event(op, pres, posts, par, ck_pre, ck_post, trace_kind=None):
    """the event of harness/props/c18.py: execute(), for one recorded call; None if there is no exact 32-bit-safe
    integer (or lattice) form of the coordinates."""
    from harness.props import c18
    from harness.project import exact_int, fx
    from harness.tags_common import common_scale, points_enc, kind_of
    arrays = [x.p for x in pres] + [x.p for x in posts]
    lat = 0
    if 'p0_raw' in par:
        arrays_s = arrays + [np.array([par['p0_raw']], dtype=np.float64).T % 1]
    else:
        arrays_s = arrays
    oblique = op == 'mirrored' and sum(1 for x in par['nrm'] if x) > 1
    if oblique:
        s = common_scale([x.p for x in pres] + [np.array([par['p0_raw']], dtype=np.float64).T], maxpow=4, maxabs=2**20)
        if s is None:
            return None
        lat = scale = s * par['nn']
        dim = pres[0].p.shape[0]
        ext = max(float(np.abs(a).max()) for a in arrays) * lat
        if lat >= 2**15 or ext > {1: 10**4, 2: 2048, 3: 200}[dim]:
            return None
    else:
        scale = c18._safe_scale(arrays_s)
        if not scale:
            return None
    ev = {'a': 'Op', 'op': op, 'err': '', 'tags': {'op': op}, 'pre': [], 'post': [], 'par': dict(c18.NOPAR),
          'ck_pre': ck_pre, 'ck_post': ck_post, 'scale': int(scale), 'self': 1, 'lat': int(lat), 'test': _test(),
          'lib': dict(c18.LIB0)}
    pts = [[] for _ in arrays] if lat else points_enc(arrays, scale)
    ev['pre'] = [c18._am(x, pts[j]) for j, x in enumerate(pres)]
    ev['post'] = [c18._am(x, pts[len(pres) + j], kind=trace_kind if kind_of(x) == 'other' else None)
                  for j, x in enumerate(posts)]
    if lat:
        for am, x in zip(ev['pre'] + ev['post'], pres + posts):
            am['pfx'] = [[fx(v) for v in col] for col in np.asarray(x.p, dtype=np.float64).T]
            if any(v is None for col in am['pfx'] for v in col):
                return None
    P = ev['par']
    if 'elements' in par:
        P['elements'] = [int(x) + 1 for x in par['elements']]
    if 'ix' in par:
        P['ix'] = [int(x) + 1 for x in np.asarray(par['ix'])]
    for k in ('skips', 'skipb', 'nrm', 'nn', 'fnum', 'fden'):
        if k in par:
            P[k] = par[k]
    if 'd_raw' in par:
        P['d'] = [exact_int(x, scale) for x in par['d_raw']]
        if None in P['d']:
            return None
    if 'p0_raw' in par:
        P['p0'] = [exact_int(x, scale) for x in par['p0_raw']]
        if None in P['p0']:
            return None
    return ev


def _emit18(op, pres, posts, par, ck_pre, ck_post, key):
    if len(_events['c18']) >= LIMIT['c18']:
        return _skip('c18:limit')
    if key in _seen:
        return
    _seen.add(key)
    if any(x.t.shape[1] > 4 * MAXC for x in posts):
        return _skip('c18:%s:result too big' % op)
    ev = _c18_event(op, pres, posts, par, ck_pre, ck_post)
    if ev is None:
        return _skip('c18:%s:coordinates not exact at a 32-bit-safe scale' % op)
    _events['c18'].append(ev)


def _install_c18():
    from skfem.mesh.mesh import Mesh
    from skfem.mesh.mesh_quad_1 import MeshQuad1
    from skfem.mesh.mesh_hex_1 import MeshHex1
    from skfem.mesh.mesh_wedge_1 import MeshWedge1
    from skfem.mesh.mesh_line_1 import MeshLine1
    from skfem.mesh.mesh_tri_1 import MeshTri1
    from harness.tags_common import mesh_checksums, kind_of
    from harness.project import NVERT
    from harness.props.c18 import _frac_pow2

    def wrap(cls, name, handler):
        """handler(self, args, kwargs) -> None (do not record) or (call, finish): `call()` performs the original call
        and returns what the caller gets; `finish(result)` records.  Nested calls are not recorded."""
        orig = getattr(cls, name)

        def wrapper(self, *args, **kwargs):
            if _depth[0] > 0:
                return orig(self, *args, **kwargs)
            plan = None
            try:
                if _small(self):
                    plan = handler(orig, self, args, kwargs)
            except Exception:
                plan = None
            if plan is None:
                _depth[0] += 1
                try:
                    return orig(self, *args, **kwargs)
                finally:
                    _depth[0] -= 1
            call, finish = plan
            _depth[0] += 1
            try:
                result = call()           # exceptions of the library propagate to the test untouched
            finally:
                _depth[0] -= 1
            _depth[0] += 1
            try:
                finish(result)
            except Exception:             # recording must never disturb the test
                _skip('c18:%s:recording failed' % name)
            finally:
                _depth[0] -= 1
            return result[0] if isinstance(result, _Unwrap) else result
        wrapper.__name__ = getattr(orig, '__name__', name)
        wrapper.__doc__ = getattr(orig, '__doc__', None)
        setattr(cls, name, wrapper)

    class _Unwrap(tuple):
        """(value for the caller, extra)"""

    # ---- restrict / remove_elements
    def h_restrict(orig, self, args, kwargs):
        names = ('elements', 'return_mapping', 'skip_boundaries', 'skip_subdomains')
        kw = dict(zip(names, args))
        kw.update(kwargs)
        if set(kw) - set(names) or 'elements' not in kw:
            return None
        el = np.asarray(self.normalize_elements(kw['elements'])).ravel()
        if el.dtype.kind not in 'iu' or len(np.unique(el)) != len(el) or len(el) == 0:
            _skip('c18:restrict:cell subset with repetitions / empty / not an index array')
            return None
        want = bool(kw.get('return_mapping', False))
        ck0 = mesh_checksums(self)

        def call():
            kw2 = dict(kw, return_mapping=True)          # only changes restrict's return statement
            out, ix = orig(self, **kw2)
            return _Unwrap(((out, ix) if want else out, (out, ix)))

        def finish(res):
            out, ix = res[1]
            par = {'elements': el, 'ix': ix, 'skipb': int(bool(kw.get('skip_boundaries', False))),
                   'skips': int(bool(kw.get('skip_subdomains', False)))}
            _emit18('restrict', [self], [out], par, [ck0], [mesh_checksums(self)],
                    _key('restrict', self.p, self.t, el, par['skipb'], par['skips'], *_tagkey(self)))
        return call, finish

    def h_remove(orig, self, args, kwargs):
        if len(args) + len(kwargs) != 1:
            return None
        arg = args[0] if args else kwargs.get('elements')
        el = np.asarray(self.normalize_elements(arg)).ravel()
        if el.dtype.kind not in 'iu' or len(np.unique(el)) != len(el) or len(el) in (0, self.t.shape[1]):
            _skip('c18:remove_elements:cell subset with repetitions / empty / everything')
            return None
        ck0 = mesh_checksums(self)
        return (lambda: orig(self, *args, **kwargs),
                lambda out: _emit18('remove_elements', [self], [out], {'elements': el}, [ck0], [mesh_checksums(self)],
                                    _key('remove', self.p, self.t, el, *_tagkey(self))))

    # ---- joins
    def h_add(orig, self, args, kwargs):
        if len(args) != 1 or kwargs or type(args[0]) is not type(self) or not _small(args[0]):
            return None
        o = args[0]
        nv = NVERT[kind_of(self)]
        if _cellsets(self, nv) & _cellsets(o, nv):
            _skip('c18:add:operands have a cell in common')
            return None
        ck0 = [mesh_checksums(self), mesh_checksums(o)]
        return (lambda: orig(self, o),
                lambda out: _emit18('add', [self, o], [out], {}, ck0, [mesh_checksums(self), mesh_checksums(o)],
                                    _key('add', self.p, self.t, o.p, o.t)))

    def h_matmul(orig, self, args, kwargs):
        if len(args) != 1 or kwargs:
            return None
        others = [args[0]] if isinstance(args[0], Mesh) else list(args[0]) if isinstance(args[0], list) else None
        if not others or not all(isinstance(o, Mesh) and _small(o) for o in others):
            return None
        ops = [self] + others
        ck0 = [mesh_checksums(x) for x in ops]
        return (lambda: orig(self, args[0]),
                lambda out: _emit18('matmul', ops, list(out), {}, ck0, [mesh_checksums(x) for x in ops],
                                    _key('matmul', *[a for x in ops for a in (x.p, x.t)])))

    # ---- splits
    def h_tri(orig, self, args, kwargs):
        kw = dict(zip(('x', 'style'), args))
        kw.update(kwargs)
        style = kw.get('style')
        if set(kw) - {'x', 'style'} or style not in (None, 'x'):
            return None
        if len(np.unique(self.t)) != self.p.shape[1] or not _convex_quads(self):
            _skip('c18:to_meshtri:operand with unused vertices or non-convex cells')
            return None
        op = 'to_meshtri_x' if style == 'x' else 'to_meshtri'
        ck0 = mesh_checksums(self)

        def finish(out):
            r = out[0] if isinstance(out, tuple) else out
            _emit18(op, [self], [r], {}, [ck0], [mesh_checksums(self)], _key(op, self.p, self.t, *_tagkey(self)))
        return (lambda: orig(self, *args, **kwargs)), finish

    def h_tet(orig, self, args, kwargs):
        if args or kwargs:
            return None
        if not _planar_faces(self):
            _skip('c18:to_meshtet:cells with non-planar faces')
            return None
        ck0 = mesh_checksums(self)
        return (lambda: orig(self),
                lambda out: _emit18('to_meshtet', [self], [out], {}, [ck0], [mesh_checksums(self)],
                                    _key('tet', self.p, self.t)))

    # ---- maps on the points (parameters that are data)
    def h_translated(orig, self, args, kwargs):
        if len(args) != 1 or kwargs:
            return None
        d = [float(x) for x in args[0]]
        if len(d) != self.p.shape[0]:
            return None
        ck0 = mesh_checksums(self)
        return (lambda: orig(self, args[0]),
                lambda out: _emit18('translated', [self], [out], {'d_raw': d}, [ck0], [mesh_checksums(self)],
                                    _key('tr', self.p, self.t, d, *_tagkey(self))))

    def h_scaled(orig, self, args, kwargs):
        if len(args) != 1 or kwargs:
            return None
        f = args[0]
        fl = [float(f)] * self.p.shape[0] if isinstance(f, float) else [float(x) for x in f]
        if len(fl) != self.p.shape[0] or any(x == 0 for x in fl):
            return None
        nd = [_frac_pow2(x) for x in fl]
        if any(b > 2**10 or abs(a) > 2**10 for a, b in nd):
            _skip('c18:scaled:factor is not a small dyadic number')
            return None
        ck0 = mesh_checksums(self)
        par = {'fnum': [a for a, _ in nd], 'fden': [b for _, b in nd]}
        return (lambda: orig(self, f),
                lambda out: _emit18('scaled', [self], [out], par, [ck0], [mesh_checksums(self)],
                                    _key('sc', self.p, self.t, fl, *_tagkey(self))))

    def h_mirrored(orig, self, args, kwargs):
        kw = dict(zip(('normal', 'point'), args))
        kw.update(kwargs)
        if set(kw) - {'normal', 'point'} or 'normal' not in kw:
            return None
        n = [float(x) for x in kw['normal']]
        if len(n) != self.p.shape[0]:
            return None
        if sum(1 for x in n if x) == 1:
            nrm = [int(np.sign(x)) for x in n]                 # axis-parallel: the length of the normal is irrelevant
        elif all(x == round(x) and abs(x) <= 4 for x in n):
            nrm = [int(x) for x in n]
        else:
            _skip('c18:mirrored:normal neither axis-parallel nor a small integer vector')
            return None
        p0 = [0.0] * len(n) if kw.get('point') is None else [float(x) for x in kw['point']]
        par = {'nrm': nrm, 'nn': int(sum(x * x for x in nrm)), 'p0_raw': p0}
        ck0 = mesh_checksums(self)
        return (lambda: orig(self, *args, **kwargs),
                lambda out: _emit18('mirrored', [self], [out], par, [ck0], [mesh_checksums(self)],
                                    _key('mi', self.p, self.t, n, p0, *_tagkey(self))))

    def h_same(op):
        def h(orig, self, args, kwargs):
            if args or kwargs:
                return None
            ck0 = mesh_checksums(self)
            return (lambda: orig(self),
                    lambda out: _emit18(op, [self], [out], {}, [ck0], [mesh_checksums(self)],
                                        _key(op, self.p, self.t, *_tagkey(self))))
        return h

    # ---- extrusion
    def h_mul(orig, self, args, kwargs):
        if len(args) != 1 or kwargs or not isinstance(args[0], Mesh) or not _small(args[0]):
            return None
        o = args[0]
        ks, ko = kind_of(self), kind_of(o)
        if (ks, ko) == ('line', 'tri'):
            first, second = o, self
        elif (ks, ko) in (('tri', 'line'), ('line', 'line')):
            first, second = self, o
        else:
            return None
        if first.t.shape[1] * second.t.shape[1] > 4 * MAXC:
            return None
        ck0 = [mesh_checksums(first), mesh_checksums(second)]

        def finish(out):
            ev_key = _key('mul', first.p, first.t, second.p, second.t)
            n0 = len(_events['c18'])
            _emit18('extrude', [first, second], [out], {}, ck0, [mesh_checksums(first), mesh_checksums(second)], ev_key)
            if len(_events['c18']) > n0:
                _events['c18'][-1]['self'] = 1
        return (lambda: orig(self, o)), finish

    wrap(Mesh, 'restrict', h_restrict)
    wrap(Mesh, 'remove_elements', h_remove)
    wrap(Mesh, '__add__', h_add)
    wrap(Mesh, '__matmul__', h_matmul)
    wrap(MeshQuad1, 'to_meshtri', h_tri)
    wrap(MeshHex1, 'to_meshtet', h_tet)
    wrap(MeshWedge1, 'to_meshtet', h_tet)
    wrap(Mesh, 'translated', h_translated)
    wrap(Mesh, 'scaled', h_scaled)
    wrap(Mesh, 'mirrored', h_mirrored)
    wrap(Mesh, 'remove_unused_nodes', h_same('remove_unused_nodes'))
    wrap(Mesh, 'remove_duplicate_nodes', h_same('remove_duplicate_nodes'))
    wrap(MeshLine1, '__mul__', h_mul)
    wrap(MeshTri1, '__mul__', h_mul)


# ================================================================================================ C17

_pending = {}          # key (path / id of the exported object) -> record of the export


def _io_ok(m):
    return type(m).__name__ in IO_CLASSES and 1 <= m.t.shape[1] <= 6 * MAXC


def _fmt_of(path, kwargs):
    ext = os.path.splitext(str(path))[1].lower()
    ff = kwargs.get('file_format')
    if ext == '.msh':
        return 'gmsh22' if ff == 'gmsh22' else 'gmsh41' if ff in (None, 'gmsh') else None
    if ext in ('.vtk', '.vtu') and ff is None:
        return ext[1:] + ('-ascii' if kwargs.get('binary') is False else '')
    return None


def _export_begin(m, fmt, pd, cd):
    """everything that has to be read off BEFORE the export call."""
    from harness.props import c17
    from harness.tags_common import conn_tables, mesh_am, mesh_checksums
    pd, cd = pd or {}, cd or {}
    pkeys, ckeys = c17._own(pd), c17._own(cd)
    rec = {'fmt': fmt, 'mesh': m, 'ck0': mesh_checksums(m), 'conn': conn_tables(m), 'p0': m.doflocs.copy(),
           'pre': mesh_am(m, None, with_nodes=True), 'pd': pd, 'cd': cd, 'pkeys': pkeys, 'ckeys': ckeys,
           'ud0': c17._ud_crc(pd, cd, pkeys, ckeys),
           'pd_ref': {k: np.array(pd[k], copy=True) for k in pkeys},
           'cd_ref': {k: [np.array(np.asarray(cd[k][0]), copy=True)] for k in ckeys},
           'key': _key(fmt, m.doflocs, m.t, type(m).__name__, *_tagkey(m)), 'test': _test()}
    return rec


def _export_end(rec):
    """after the export call: the Export event (turned into a round trip if the file / object is read back)."""
    from harness.props import c17
    from harness.tags_common import common_scale, mesh_checksums, points_enc
    m = rec['mesh']
    ev = c17._new_event(rec['fmt'], 1)
    ev['a'] = 'Export'
    ev['tags']['family'] = 'suite'
    ev['test'] = rec['test']
    pre = rec['pre']
    scale = common_scale([rec['p0']], maxabs=2**20)
    pre['p'] = points_enc([rec['p0']], scale)[0]
    ev['enc'] = 'int*%d' % scale if scale else 'bits'
    ev['pre'], ev['conn'] = pre, rec['conn']
    ev['ck_pre'], ev['ck_post'] = rec['ck0'], mesh_checksums(m)
    ev['udck_pre'], ev['udck_post'] = rec['ud0'], c17._ud_crc(rec['pd'], rec['cd'], rec['pkeys'], rec['ckeys'])
    rec['ev'] = ev
    if rec['key'] in _seen or len(_events['c17']) >= LIMIT['c17']:
        rec['dup'] = True
        return
    _seen.add(rec['key'])
    _events['c17'].append(ev)


def _import_end(rec, m2, pd2, cd2, have_data):
    """the exported file / object was read back: the Export event becomes a round-trip event."""
    from harness.props import c17
    from harness.tags_common import common_scale, mesh_am, points_enc
    if rec.get('dup') or 'ev' not in rec:
        return
    ev = rec['ev']
    post = mesh_am(m2, None, with_nodes=True)
    p0 = rec['p0']
    scale = common_scale([p0, m2.doflocs], maxabs=2**20) if p0.shape[0] == m2.doflocs.shape[0] else None
    ev['pre']['p'], post['p'] = points_enc([p0, m2.doflocs], scale)
    ev['enc'] = 'int*%d' % scale if scale else 'bits'
    ev['post'] = post
    if have_data:
        ev['ud_pre'], ev['ud_post'] = c17._ud_lists(rec['pd_ref'], rec['cd_ref'], pd2, cd2)
    ev['a'] = 'RT'


def _install_c17():
    import skfem.io.meshio as smio
    import skfem.io.json as sjson
    from skfem.mesh.mesh import Mesh

    def guarded_export(begin, call, key_of):
        """begin() -> rec or None; call() -> result of the original; key_of(result) -> pending key or None."""
        if _depth[0] > 0:
            return call()
        rec = None
        try:
            rec = begin()
        except Exception:
            rec = None
            _skip('c17:recording failed before the export')
        _depth[0] += 1
        try:
            result = call()
        finally:
            _depth[0] -= 1
        if rec is not None:
            _depth[0] += 1
            try:
                _export_end(rec)
                k = key_of(result)
                if k is not None:
                    _pending[k] = rec
                    rec['hold'] = result            # keeps ids of in-memory objects from being reused
            except Exception:
                _skip('c17:recording failed after the export')
            finally:
                _depth[0] -= 1
        return result

    def guarded_import(key, call, unpack):
        """unpack(result) -> (mesh, point data, cell data, have_data)"""
        if _depth[0] > 0:
            return call()
        _depth[0] += 1
        try:
            result = call()
        finally:
            _depth[0] -= 1
        try:
            rec = _pending.pop(key, None) if key is not None else None
        except Exception:
            rec = None
        if rec is not None:
            _depth[0] += 1
            try:
                m2, pd2, cd2, have = unpack(result)
                _import_end(rec, m2, pd2, cd2, have)
            except Exception:
                _skip('c17:recording failed after the import')
            finally:
                _depth[0] -= 1
        return result

    def plain_flags(m, kwargs):
        """load options under which the statement still promises the full round trip for this mesh."""
        extra = set(kwargs) - {'ignore_orientation', 'ignore_interior_facets'}
        if extra:
            return False
        if kwargs.get('ignore_orientation') or kwargs.get('ignore_interior_facets'):
            return not any(getattr(v, 'ori', None) is not None and np.asarray(v.ori).any()
                           for v in (m._boundaries or {}).values())
        return True

    # ---- Mesh.save / Mesh.load
    orig_save = Mesh.save

    def save(self, filename, point_data=None, cell_data=None, **kwargs):
        def begin():
            fmt = _fmt_of(filename, kwargs)
            if fmt is None or not _io_ok(self) or set(kwargs) - {'file_format', 'binary'}:
                _skip('c17:save:format / class / size outside the recorded range')
                return None
            return _export_begin(self, fmt, point_data, cell_data)
        return guarded_export(begin, lambda: orig_save(self, filename, point_data, cell_data, **kwargs),
                              lambda res: ('file', os.path.abspath(str(filename))))
    Mesh.save = save

    orig_load = Mesh.load.__func__

    def load(cls, filename, out=None, **kwargs):
        key = ('file', os.path.abspath(str(filename)))
        rec = _pending.get(key)
        if rec is not None and not plain_flags(rec['mesh'], kwargs):
            _pending.pop(key, None)
            _skip('c17:load:options under which the round trip is not promised')
            key = None

        def unpack(m2):
            # the data of the file as meshio reads it (what from_file hands to from_meshio); the caller's `out` list
            # is left alone.  Not available any more -> the user-data clause is not evaluated for this event
            try:
                import meshio
                mio = meshio.read(filename)
                return m2, mio.point_data, mio.cell_data, True
            except Exception:
                return m2, None, None, False
        return guarded_import(key, lambda: orig_load(cls, filename, out, **kwargs), unpack)
    Mesh.load = classmethod(load)

    # ---- to_meshio / from_meshio (module functions; Mesh.save / load reach them nested, which is not recorded)
    orig_to = smio.to_meshio

    def to_meshio(mesh, point_data=None, cell_data=None, encode_cell_data=True, encode_point_data=False):
        def begin():
            if not _io_ok(mesh) or not encode_cell_data:
                _skip('c17:to_meshio:class / size outside the recorded range or tags not encoded')
                return None
            return _export_begin(mesh, 'mem', point_data, cell_data)
        return guarded_export(begin, lambda: orig_to(mesh, point_data, cell_data, encode_cell_data, encode_point_data),
                              lambda mio: ('obj', id(mio)))
    smio.to_meshio = to_meshio

    orig_from = smio.from_meshio

    def from_meshio(*args, **kwargs):
        if not 1 <= len(args) <= 2 or (set(kwargs) & {'m', 'out'}):
            return orig_from(*args, **kwargs)
        m = args[0]
        key = ('obj', id(m))
        rec = _pending.get(key)
        if rec is not None and (rec.get('hold') is not m or not plain_flags(rec['mesh'], kwargs)
                                or kwargs.get('int_data_to_sets') or kwargs.get('force_meshio_type')):
            _pending.pop(key, None)
            key = None
        return guarded_import(key, lambda: orig_from(*args, **kwargs),
                              lambda m2: (m2, getattr(m, 'point_data', None), getattr(m, 'cell_data', None), True))
    smio.from_meshio = from_meshio

    # ---- to_dict / from_dict, skfem.io.json (statement: first-order meshes)
    orig_to_dict = Mesh.to_dict

    def to_dict(self):
        def begin():
            if not _io_ok(self) or type(self).__name__.endswith('2'):
                _skip('c17:to_dict:class / size outside the recorded range')
                return None
            return _export_begin(self, 'dict', None, None)
        return guarded_export(begin, lambda: orig_to_dict(self), lambda d: ('obj', id(d)))
    Mesh.to_dict = to_dict

    orig_from_dict = Mesh.from_dict.__func__

    def from_dict(cls, data):
        key = ('obj', id(data))
        rec = _pending.get(key)
        if rec is not None and (rec.get('hold') is not data or cls is not type(rec['mesh'])):
            _pending.pop(key, None)
            key = None
        return guarded_import(key, lambda: orig_from_dict(cls, data), lambda m2: (m2, None, None, False))
    Mesh.from_dict = classmethod(from_dict)

    orig_jto = sjson.to_file

    def jto(mesh, filename):
        def begin():
            if not _io_ok(mesh) or type(mesh).__name__.endswith('2'):
                return None
            return _export_begin(mesh, 'json', None, None)
        return guarded_export(begin, lambda: orig_jto(mesh, filename),
                              lambda res: ('file', os.path.abspath(str(filename))))
    sjson.to_file = jto

    orig_jfrom = sjson.from_file

    def jfrom(filename):
        return guarded_import(('file', os.path.abspath(str(filename))), lambda: orig_jfrom(filename),
                              lambda m2: (m2, None, None, False))
    sjson.from_file = jfrom

    # ---- save_npz / load_npz
    orig_snpz = Mesh.save_npz

    def npz_path(filename):
        f = os.path.abspath(str(filename))
        return f if f.endswith('.npz') else f + '.npz'

    def save_npz(self, filename):
        def begin():
            if not _io_ok(self) or not isinstance(filename, (str, os.PathLike)):
                _skip('c17:save_npz:class / size / target outside the recorded range')
                return None
            return _export_begin(self, 'npz', None, None)
        return guarded_export(begin, lambda: orig_snpz(self, filename), lambda res: ('file', npz_path(filename)))
    Mesh.save_npz = save_npz

    orig_lnpz = Mesh.load_npz.__func__

    def load_npz(cls, filename):
        key = ('file', npz_path(filename)) if isinstance(filename, (str, os.PathLike)) else None
        rec = _pending.get(key) if key else None
        if rec is not None and cls is not type(rec['mesh']):
            _pending.pop(key, None)
            key = None
        return guarded_import(key, lambda: orig_lnpz(cls, filename), lambda m2: (m2, None, None, False))
    Mesh.load_npz = classmethod(load_npz)


def pytest_configure(config):
    if not ENABLED:
        return
    try:
        _install_c18()
    except Exception:
        _skip('c18:install failed')
    try:
        _install_c17()
    except Exception:
        _skip('c17:install failed')


def pytest_sessionfinish(session, exitstatus):
    if ENABLED:
        try:
            with open(f'{OUT}.io.{os.getpid()}.json', 'w') as f:
                json.dump({'c17': _events['c17'], 'c18': _events['c18'],
                           'io_skipped': [dict(_skipped, pid=os.getpid())] if _skipped else []}, f)
        except Exception:
            pass
