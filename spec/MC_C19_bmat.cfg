SPECIFICATION Spec
INVARIANT BmatOffsetsHold
CHECK_DEADLOCK FALSE
