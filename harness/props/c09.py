"""C09 - shape functions: derivatives are true derivatives; duality; partition of unity  (mode L + M).

The specification spec/ShapeFunctions.tla owns
  * the Lagrange differentiation operator (exact rational weights of the interpolating polynomial through integer
    node offsets, first and second derivative, any position of the evaluation point) and the grad / div / curl /
    Hessian combinations,
  * the element tables: family (= transformation class), polynomial degree per direction / in total, duality class
    and normalisation, partition-of-unity class, wrapper instances, classes not driven and why,
  * the clauses ReferenceDerivative, MappedDerivative, GlobalDerivative, MappingRule, WrapperInherits, Duality,
    PartitionOfUnity.
M : spec/MC_C09.tla - the weights are exact on every admissible window (integer arithmetic), the Fx pipeline
    reproduces exact derivatives, the Piola identities hold for every integer matrix / monomial field of the
    universes (exact rationals, through the same stencil); it also EXPORTS the tables.
L : this driver is generic: it reads the exported tables, builds every class / wrapper instance named there, samples
    lbasis / gbasis on equispaced nodes along every axis through lattice points (nodes inside the closed cell,
    windows chosen among those the specification admits), records the delivered fields, the mapping's Jacobians
    (affine, orientation-reversing, general multilinear and second-order curved cells; points shared by the cells
    and per-cell points = both branches of every gbasis), the functionals, and hands everything to TLC
    (spec/TraceC09.tla).  Completeness: every class of
    skfem.element.__all__ must be in the element table or in the not-driven table.
Evaluation forms and histories (the clauses are the same, tags xs / hist say how the numbers were obtained):
    xs = shared   points shared by the cells, X of shape (dim, npts)
    xs = percell  per-element point arrays (dim, 1 or ncells, npts): the same points replicated, or every cell with its
                  own stencil nodes;  xs = multi  one call on several cells with different points per cell
    Agree events  shared vs replicated points must give the same fields (EvaluationFormsAgree)
    hist = 1 / 2  the stencil nodes are visited one after the other through ONE point buffer overwritten in place / two
                  alternating buffers, all on the one element instance of the scenario (ElementLinePp / ElementQuadP keep
                  Legendre tables, ElementGlobal keeps its inverse Vandermonde matrices: for the latter every call is
                  followed by a call on another mesh)
    every mesh contains a negatively oriented cell (det DF < 0) and both orientations are among the chosen cells.
    tl = 1        the cell was evaluated through a cell list of exactly nt entries (permuted, with a repeat, the cell not
                  at its own position) -- every second chosen cell, for the Map / Deriv / Dual / PoU events
    CellList events  explicit cell lists of every shape (natural, permutation, nt entries with repeats, subsets sorted /
                  unsorted / with repeats, single cell, longer than nt, owners of the boundary facets; int32 / int64;
                  shared and per-element points) against the single-cell evaluations (CellListCommutes)
Python decides nothing: it chooses where to sample, calls the library and changes representation (fx).
"""
import json
import os

import numpy as np
from fractions import Fraction

from .. import universe as U
from ..core import guarded as _guarded, MachineryError
from ..par import Pool
from ..project import exact_ints
from ..shape_common import (DIM, build, spec_name, strip_dg, leaves, nbfun, lattice, pick_window, inv_exact,
                            fxs, as_field, field_dict, field_records)

def guarded(fn, seconds=60.0):
    """core.guarded, but what depends on the MACHINE is never an observation about the library: the per-call alarm (the
    calls made here are loop-free array expressions; the limits are ten times what a loaded machine needed) and resource
    exhaustion end the run as a machinery failure (exit 2) instead of becoming an event error judged by NoUnexpectedError."""
    res, err = _guarded(fn, 10.0 * seconds)
    if err.split(':')[-1] in ('Timeout', 'MemoryError', 'OSError', 'BrokenPipeError', 'RecursionError'):
        raise MachineryError('C09 driver: ' + err + ' in a library / projection call (machine load?)')
    return res, err


class HookUnavailable(Exception):
    """the run-time wrapper on private attributes of ElementGlobal could not be installed / used"""


RULE = ('scenario = one element instance (class, parameter, wrapper) on the reference cell or on the chosen cells of '
        'one mesh; events = per local index the sampled stencils, per cell and point the transformation data, the '
        'functional matrices, the lattice sums; distinct = distinct (element instance, local index); non-trivial = '
        'the function is not constant (degree >= 1) or carries a functional.')

HS_REF = (8, 16, 32, 64, 128)
HS_PHYS = (4, 8, 16, 32, 64, 128)
HS_SECOND = (4, 8, 16, 32)


# ================================================================================================ tables (from TLC)
def load_tables(ctx, level):
    out = os.path.join(ctx.scratch, 'c09_tables.json')
    ctx.model_must_hold('MC_C09', 'MC_C09.cfg', timeout=3000, workers=8,
                        env={'OUT_FILE': out, 'C09_LEVEL': level},
                        label='differentiation weights exact; Fx pipeline; Piola identities on integer matrices; tables')
    if not os.path.exists(out):
        raise MachineryError('MC_C09 did not export the element tables')
    return json.load(open(out))


def spec_info(spec, T):
    rows = {(r['cls'], int(r['p'])): r for r in T['elements']}
    L = [rows[(s[1], int(s[2]))] for s in leaves(spec)]
    s0 = strip_dg(spec)
    nmax = int(T['nmax'])
    ok = {}
    for m, n, a in T['windows']:
        ok.setdefault(int(m), {}).setdefault(int(n), []).append(int(a))
    dd, td = max(r['dd'] for r in L), max(r['td'] for r in L)
    info = {'kind': L[0]['kind'], 'dd': dd, 'td': td, 'fams': sorted({r['fam'] for r in L}),
            'allglobal': int(all(r['fam'] == 'Global' for r in L)), 'anyglobal': int(any(r['fam'] == 'Global' for r in L)),
            'skeleton': int(any(r['fam'] == 'Skeleton' for r in L)), 'leaf': int(s0[0] == 'cls'),
            'geo': 'rect' if any(r['geo'] == 'rect' for r in L) else 'any', 'wrap': s0[0] if s0[0] != 'cls' else '',
            'n_dir': min(dd + 2, nmax), 'n_tot': min(td + 2, nmax)}
    if info['leaf']:
        r = rows[(s0[1], int(s0[2]))]
        info.update(fam=r['fam'], pou=int(r['pou']), dual=r['dual'])
    else:
        info.update(fam='', pou=0, dual='none')
    need = {info['n_dir'], info['n_tot']}
    info['okwin'] = {str(m): {str(n): sorted(ok.get(m, {}).get(n, [])) for n in need} for m in (1, 2)}
    return info


# ================================================================================================ meshes
def _lin(p, M):
    return (np.array(M, dtype=float) @ p)


def mesh_recipe(kind, geo, seed):
    """explicit integer (dyadic for 'nonaffine') coordinates and connectivity, local vertex orders shuffled."""
    rng = np.random.default_rng(seed)
    if kind == 'line':
        p = np.array([[0., 2., 3., 7.]])
        t = np.array([[0, 1], [2, 1], [2, 3]]).T
        return {'kind': kind, 'p': p.tolist(), 't': t.tolist(), 'geo': geo}
    if geo == 'curved':
        mr = mesh_recipe(kind, 'affine', seed)
        mr.update(geo='curved', curve=1 + int(rng.integers(4)))
        return mr
    if kind == 'tri':
        p, t = U.tri_lattice(2, 2, diags=[int(x) for x in rng.integers(0, 2, 4)])
        p = _lin(p, [[2, 1], [0, 1]] if rng.integers(2) else [[1, 0], [1, 2]])
    elif kind == 'quad':
        p, t = U.quad_grid(2, 2)
        if geo == 'rect':
            p = _lin(p, [[2, 0], [0, 1]])
        elif geo == 'affine':
            p = _lin(p, [[2, 1], [1, 2]] if rng.integers(2) else [[1, 1], [0, 2]])
        else:
            p = _lin(p, [[2, 0], [0, 2]])
            p[:, 4] += (0.5, 0.25)                       # centre vertex: four general convex quadrilaterals
            p[:, 1] += (0.25, 0.0)
    elif kind == 'tet':
        p, t = U.tet_cubes(1, 6)
        p = _lin(p, [[1, 1, 0], [0, 1, 0], [0, 1, 2]] if rng.integers(2) else [[2, 0, 1], [0, 1, 0], [0, 0, 1]])
    elif kind == 'hex':
        p, t = U.hex_grid(2, 1, 1)
        if geo == 'rect':
            p = _lin(p, [[1, 0, 0], [0, 2, 0], [0, 0, 1]])
        elif geo == 'affine':
            p = _lin(p, [[1, 1, 0], [0, 1, 0], [0, 1, 2]] if rng.integers(2) else [[2, 0, 1], [0, 1, 0], [0, 0, 1]])
        else:
            p = _lin(p, [[2, 0, 0], [0, 2, 0], [0, 0, 2]])
            for v in range(p.shape[1]):
                if p[0, v] == 2.0 and p[1, v] == 2.0:     # the shared face is warped
                    p[:, v] += (0.25, 0.0, 0.5) if p[2, v] == 2.0 else (0.0, 0.25, 0.0)
    elif kind == 'wedge':
        p2, t2 = U.tri_lattice(1, 1)
        p, t = U.wedge_extrude(p2, t2, 1)
        p = _lin(p, [[1, 1, 0], [0, 1, 0], [0, 1, 2]])
    else:
        raise ValueError(kind)
    t = U.apply_local_orders(kind, t, rng)
    t = both_orientations(kind, p, t, rng)
    return {'kind': kind, 'p': p.tolist(), 't': t.tolist(), 'geo': geo}


_HEXMIR = [int(np.where((U.REF_HEX == np.array([1 - c[0], c[1], c[2]])).all(axis=1))[0][0]) for c in U.REF_HEX]
MIRROR = {'tri': [0, 2, 1], 'tet': [0, 1, 3, 2], 'quad': [0, 3, 2, 1], 'wedge': [0, 2, 1, 3, 5, 4], 'hex': _HEXMIR}
FRAME = {'tri': (0, 1, 2), 'tet': (0, 1, 2, 3), 'quad': (0, 1, 3), 'wedge': (0, 1, 2, 3), 'hex': (7, 4, 5, 6)}


def both_orientations(kind, p, t, rng):
    """Mirror the local vertex order of one cell if necessary, so that the mesh has positively AND negatively oriented
    cells (clockwise triangles / quadrilaterals, reflected tetrahedra / hexahedra / prisms): det DF < 0 is the
    situation in which |det DF| and det DF, or a missing orientation factor, differ."""
    fr = FRAME[kind]
    sg = []
    for c in range(t.shape[1]):
        v = p[:, t[list(fr), c]]
        sg.append(np.sign(np.linalg.det(v[:, 1:] - v[:, [0]])))
    t = t.copy()
    if not any(x < 0 for x in sg) or not any(x > 0 for x in sg):
        c = int(rng.integers(t.shape[1]))
        t[:, c] = t[MIRROR[kind], c]
    return t


SECOND = {'tri': 'MeshTri2', 'quad': 'MeshQuad2', 'tet': 'MeshTet2', 'hex': 'MeshHex2'}


def build_mesh(mr):
    kw = {'sort_t': False} if mr['kind'] == 'tri' else {}
    m = U.make(mr['kind'], np.array(mr['p'], dtype=np.float64), np.array(mr['t'], dtype=np.int64), **kw)
    if mr.get('curve'):
        # second-order (isoparametric) mesh whose non-vertex nodes are displaced by dyadic amounts <= 1/16
        import skfem
        from dataclasses import replace
        m = getattr(skfem, SECOND[mr['kind']]).from_mesh(m)
        P = np.array(m.p, dtype=np.float64)
        nv = int(np.max(m.t[:len(mr['t'])])) + 1
        for i in range(nv, P.shape[1]):
            for c in range(P.shape[0]):
                P[c, i] += (((i * (c + 2) + int(mr['curve'])) % 5) - 2) / 32.0
        m = replace(m, doflocs=P)
    return m


def choose_cells(mesh, mapping, kind, ncell):
    d = DIM[kind]
    Xc = np.full((d, 1), 0.25)
    det = np.asarray(mapping.detDF(Xc))[:, 0]
    order, seen = [], set()
    for sgn in (1, -1):
        for k in range(len(det)):
            if np.sign(det[k]) == sgn:
                order.append(k)
                seen.add(k)
                break
    order += [k for k in range(len(det)) if k not in seen]
    return order[:ncell]


# ================================================================================================ sampling plans
def plan_points(kind, X0s, dirs, n, okwin, rng, hs, D=8, centred=False):
    """For every point (numerators over D) and every direction a window inside the closed cell.
    dirs(X0) -> list of direction vectors (Fractions, reference coordinates).  Returns (plans, Xall):
    plans[q] = {'X0', 'win': [[a, n, H]..], 'idx': [[columns of Xall]..], 'i0': column of the point itself}."""
    cols, plans = [], []
    for X0i in X0s:
        X0 = [Fraction(int(v), D) for v in X0i]
        wins, idx, ok = [], [], True
        base = len(cols)
        loc = []
        for r in dirs(X0):
            w = pick_window(kind, X0, r, n, okwin, rng, hs, centred)
            if w is None:
                ok = False
                break
            a, nn, H = w
            ids = []
            for j in range(nn):
                loc.append([float(x + Fraction(a + j, H) * rc) for x, rc in zip(X0, r)])
                ids.append(base + len(loc) - 1)
            wins.append([a, nn, H])
            idx.append(ids)
        if not ok:
            continue
        cols += loc
        plans.append({'X0': [int(v) for v in X0i], 'win': wins, 'idx': idx, 'i0': idx[0][-wins[0][0]]})
    if not cols:
        return [], np.zeros((len(X0s[0]) if X0s else 1, 0))
    return plans, np.array(cols, dtype=np.float64).T


def unit_dirs(d):
    return lambda X0: [[Fraction(1 if a == b else 0) for b in range(d)] for a in range(d)]


def deriv_event(base, src, dst, plans, S, Dd, second=False):
    """S, Dd: arrays (ncomp, npts) of the source / delivered field on the columns of the plan."""
    nc = S.shape[0]
    pts = []
    for pl in plans:
        lines = [[[None] * 0 for _ in pl['idx']] for _ in range(nc)]
        for c in range(nc):
            for d, ids in enumerate(pl['idx']):
                lines[c][d] = fxs(S[c, ids])
        pts.append({'win': pl['win'], 'lines': lines, 'got': fxs(Dd[:, pl['i0']])})
    ev = dict(base)
    ev.update(a='Deriv', src=src, dst=dst, nc=int(nc), pts=pts, err='')
    ev['tags'] = dict(base.get('tags', {}), dst=dst, src=src)
    return ev


def err_event(base, a, err, **kw):
    ev = dict(base)
    ev.update(a=a, err=err)
    ev.update(kw)
    return ev


EMPTY = {'Deriv': dict(src='value', dst='dphi', nc=1, pts=[]),
         'Map': dict(DF=[], iDF=[], det=[0] * 5, L=[], G=[]),
         'Wrap': dict(wrap='', N=0, outer=[], inner=[]),
         'Dual': dict(how='nodal', N=0, rows=[], M=[], X=[], verts=[], ents=[], S=[], lay=[], cnt=[], names=[], F=[],
                      pt=[], ord=1),
         'PoU': dict(N=0, V=[]), 'Agree': dict(N=0, A=[], B=[]),
         'CellList': dict(nt=1, idx=[], R=[], lists=[])}


def pairs_of(fields):
    """(src, dst) pairs among the delivered fields (which law applies is decided by DerivOp in the specification)."""
    out = []
    for dst in ('grad', 'div', 'curl'):
        if dst in fields:
            out.append(('value', dst))
    chain = ['grad', 'hess', 'grad3', 'grad4', 'grad5', 'grad6']
    for a, b in zip(chain, chain[1:]):
        if a in fields and b in fields:
            out.append((a, b))
    return out


# ================================================================================================ reference driver
def exec_ref(rec):
    spec, info = rec['spec'], rec['info']
    kind, d = info['kind'], DIM[info['kind']]
    base = {'spec': spec, 'kind': kind, 'dim': d, 'mode': 'ref', 'affine': 0, 'verts': [], 'part': 1, 'i': 0,
            'tags': {'mode': 'ref'}}
    built, err = guarded(lambda: (lambda e: (e, nbfun(e)))(build(spec)), 30)
    if err:
        return [err_event(base, 'Deriv', 'Build:' + err, **EMPTY['Deriv'])]
    e, N = built
    events = []
    lat = lattice(kind)
    rng = np.random.default_rng(int(rec['seed']))
    fam = info['fam']
    # ---- ReferenceDerivative: every local index, sampled lattice points, every axis
    if fam in ('H1', 'Hdiv', 'Hcurl'):
        n = int(info['n_dir'])
        okw = info['okwin']['1'][str(n)]
        for i in range(N):
            b = dict(base, i=i + 1, tags={'mode': 'ref', 'i': i + 1})
            sel = lat if rec['npts'] <= 0 or rec['npts'] >= len(lat) else \
                [lat[j] for j in sorted(rng.choice(len(lat), size=rec['npts'], replace=False))]
            plans, X = plan_points(kind, sel, unit_dirs(d), n, okw, rng, HS_REF)

            def call(i=i, X=X):
                phi, dphi = e.lbasis(X, i)
                S, _ = as_field(phi, X.shape[1])
                Dd, _ = as_field(dphi, X.shape[1])
                return S, Dd
            res, err = guarded(call, 60)
            if err:
                events.append(err_event(b, 'Deriv', err, **EMPTY['Deriv']))
                continue
            ev, err = guarded(lambda: deriv_event(b, 'value', 'dphi', plans, res[0], res[1]), 120)
            events.append(ev if not err else err_event(b, 'Deriv', 'Malformed:' + err, **EMPTY['Deriv']))
        # ---- the same clause under call histories on the SAME instance: the nodes are visited one after the other
        #      through one point buffer overwritten in place (hist = 1) / two alternating buffers (hist = 2); in every
        #      buffer state all local indices are evaluated (what a finite-difference loop over a reused array does)
        for nbuf in (1, 2):
            sel = [lat[j] for j in sorted(rng.choice(len(lat), size=min(2, len(lat)), replace=False))]
            plans, X = plan_points(kind, sel, unit_dirs(d), n, okw, rng, HS_REF)
            if not plans:
                continue
            b = dict(base, tags={'mode': 'ref', 'hist': nbuf})
            hidx = sorted(int(v) for v in rng.choice(N, size=min(N, int(rec.get('nhist', N))), replace=False))

            def evaluate(buf, hidx=hidx):
                out = []
                for i in hidx:
                    phi, dphi = e.lbasis(buf, i)
                    out.append({'value': as_field(phi, buf.shape[1]), 'dphi': as_field(dphi, buf.shape[1])})
                return [{k: (np.array(v[0]), v[1]) for k, v in r.items()} for r in out]
            res, err = guarded(lambda: history_fields(evaluate, plans, X, nbuf), 120)
            if err:
                events.append(err_event(b, 'Deriv', err, **EMPTY['Deriv']))
                continue
            for r, i in enumerate(hidx):
                bi = dict(b, i=i + 1, tags={'mode': 'ref', 'hist': nbuf, 'i': i + 1})
                ev, err = guarded(lambda: deriv_event(bi, 'value', 'dphi', plans, res[r]['value'][0], res[r]['dphi'][0]), 120)
                events.append(ev if not err else err_event(bi, 'Deriv', 'Malformed:' + err, **EMPTY['Deriv']))
    # ---- Duality (nodal): phi_i at the DOF locations that exist -- handed over in a buffer that held other points
    #      of the same shape in the previous calls (overwritten in place)
    if info['dual'] == 'nodal':
        b = dict(base, how='nodal', N=N, tags={'how': 'nodal'})

        def call():
            dl = np.asarray(e.doflocs, dtype=np.float64)
            rows = [j for j in range(dl.shape[0]) if np.isfinite(dl[j]).all()]
            bufs = Buffers((dl.shape[1], len(rows)), 1)
            X = bufs.load(np.array([lat[j % len(lat)] for j in range(len(rows))], dtype=np.float64).T / 8.0)
            for i in range(N):
                e.lbasis(X, i)
            X = bufs.load(dl[rows].T)
            M = np.array([as_field(e.lbasis(X, i)[0], len(rows))[0][0] for i in range(N)])        # M[i][r]
            return {'rows': [j + 1 for j in rows], 'M': [fxs(M[:, r]) for r in range(len(rows))],
                    'X': [fxs(dl[j]) for j in rows]}
        res, err = guarded(call, 60)
        ev = err_event(b, 'Dual', err, **EMPTY['Dual'])
        if not err:
            ev.update(res)
        ev.update(how='nodal', N=N)
        events.append(ev)
    # ---- PartitionOfUnity on the whole lattice
    if info['pou'] == 1 and fam != 'Global':
        b = dict(base, N=N, tags={})

        def call():
            bufs = Buffers((d, len(lat)), 1)
            X = bufs.load(np.array(lat[::-1], dtype=np.float64).T / 16.0)          # other points first, same buffer
            for i in range(N):
                e.lbasis(X, i)
            X = bufs.load(np.array(lat, dtype=np.float64).T / 8.0)
            V = np.array([as_field(e.lbasis(X, i)[0], X.shape[1])[0][0] for i in range(N)])
            return [fxs(V[:, q]) for q in range(X.shape[1])]
        res, err = guarded(call, 60)
        ev = err_event(b, 'PoU', err, **EMPTY['PoU'])
        if not err:
            ev['V'] = res
        ev['N'] = N
        events.append(ev)
    return events


# ================================================================================================ cell driver
def _cell_fields(e, mapping, X, i, k, tl=None):
    """fields of local index i on cell k at the points X.  tl = None: the cell list is <<k>>; tl = (list, pos): the
    library is called with the whole cell list (shared points) and position pos (where list[pos] = k) is taken."""
    if tl is None:
        tind, pos, nl = np.array([k], dtype=np.int64), 0, 1
    else:
        tind, pos, nl = tl[0], tl[1], len(tl[0])
        if int(tind[pos]) != k or X.ndim != 2:
            raise MachineryError('cell list does not hold the cell at the stated position')
    out = e.gbasis(mapping, X, i, tind=tind)
    res = []
    for df in out:
        fd = {}
        for nm, a in field_dict(df).items():
            a = np.asarray(a, dtype=np.float64)
            if a.ndim < 2 or a.shape[-2] != nl or a.shape[-1] != X.shape[-1]:
                raise ValueError('unexpected field shape')
            comp = a.shape[:-2]
            fd[nm] = (a[..., pos, :].reshape((-1, X.shape[-1])), [int(s) for s in comp])
        res.append(fd)
    return res


def list_with_repeats(k, nt, rng, dtype):
    """A cell list of EXACTLY nt entries, not in natural order, with a repeated entry where nt allows it, in which
    cell k sits at a position different from k (returns (array, position of k))."""
    if nt == 1:
        return np.array([k], dtype=dtype), 0
    perm = [int(v) for v in rng.permutation(nt)]
    pos = perm.index(k)
    if pos == k:                                      # move k away from its own position
        other = (k + 1 + int(rng.integers(nt - 1))) % nt
        perm[pos], perm[other] = perm[other], perm[pos]
        pos = other
    if nt >= 3:                                       # a repeat (k itself stays where it is)
        r = [q for q in range(nt) if q != pos]
        a, b = r[0], r[1]
        perm[a] = perm[b]
    return np.array(perm, dtype=dtype), pos


def _multi_fields(e, mapping, X3, i, cells):
    """gbasis with per-element point arrays X3 (dim, ncells, npts) on several cells at once:
    per output a dict name -> (array (ncomp, ncells, npts), component shape)."""
    out = e.gbasis(mapping, X3, i, tind=np.array(cells, dtype=np.int64))
    res = []
    for df in out:
        fd = {}
        for nm, a in field_dict(df).items():
            a = np.asarray(a, dtype=np.float64)
            if a.ndim < 2 or a.shape[-2] != len(cells) or a.shape[-1] != X3.shape[-1]:
                raise ValueError('unexpected field shape')
            fd[nm] = (a.reshape((-1, len(cells), X3.shape[-1])), [int(v) for v in a.shape[:-2]])
        res.append(fd)
    return res


def _map_records(d, DF, iDF, det, Ls, Gs):
    out = []
    for q in range(det.shape[0]):
        out.append({'DF': [fxs(DF[r, :, q]) for r in range(d)], 'iDF': [fxs(iDF[r, :, q]) for r in range(d)],
                    'det': fxs([det[q]])[0],
                    'L': [{'v': fxs(lv[:, q]), 'd': fxs(ld[:, q])} for lv, ld in Ls],
                    'G': [{'v': fxs(gv[:, q]), 'd': fxs(gd[:, q]), 'dn': dn} for gv, gd, dn in Gs]})
    return out


class Buffers:
    """The point arrays of a call history on ONE element instance: `nbuf` array objects of one shape which are
    overwritten IN PLACE (never re-allocated) and handed to the library in turn."""

    def __init__(self, shape, nbuf):
        self.bufs = [np.zeros(shape) for _ in range(nbuf)]
        self.k = 0

    def load(self, X):
        b = self.bufs[self.k % len(self.bufs)]
        self.k += 1
        b[...] = X
        return b


def history_fields(evaluate, plans, X, nbuf, between=None):
    """Visit the stencil nodes of `plans` one node index at a time: state (direction d, node j) holds, for every
    point q of the plan, node j of direction d.  evaluate(buf) -> list (over local indices / outputs) of
    (ncomp, nq) arrays ... returns the same structure assembled on the columns of X (the batched layout of the plan),
    so that the events are built exactly as for a batched evaluation."""
    nq = len(plans)
    dim = len(plans[0]['win'])
    n = plans[0]['win'][0][1]
    bufs = Buffers((X.shape[0], nq), nbuf)
    out = None
    for d in range(dim):
        for j in range(n):
            cols = [pl['idx'][d][j] for pl in plans]
            buf = bufs.load(X[:, cols])
            res = evaluate(buf)
            if between is not None:
                between(buf, j)
            if out is None:
                out = [{nm: (np.full((a.shape[0], X.shape[1]), np.nan), comp) for nm, (a, comp) in r.items()} for r in res]
            for r, o in zip(res, out):
                for nm, (a, comp) in r.items():
                    o[nm][0][:, cols] = a
    return out


def exec_cell(rec):
    spec, info, mr = rec['spec'], rec['info'], rec['mesh']
    kind, d = info['kind'], DIM[info['kind']]
    geo = mr['geo']
    affine = 0 if geo in ('nonaffine', 'curved') else 1
    base0 = {'spec': spec, 'kind': kind, 'dim': d, 'affine': affine, 'verts': [], 'part': 1, 'i': 0,
             'mode': 'glob' if info['allglobal'] else 'map', 'tags': {}}

    def prepare():
        mesh = build_mesh(mr)
        mapping = mesh.mapping()
        e = build(spec)
        # every library call whose result the sampling plan needs is made here, under the guard: an exception of the
        # library (e.g. a degenerate second-order mesh) is an observation (Build: ...), not a harness crash
        cells = choose_cells(mesh, mapping, kind, int(rec['ncell']))
        iA_of = {}
        if affine:
            for k in cells:
                DFk = np.asarray(mapping.DF(np.full((d, 1), 0.25), tind=np.array([k], dtype=np.int64)))[:, :, 0, 0]
                iA_of[k] = inv_exact(DFk)
        m2 = None
        if info['anyglobal'] and rec.get('mesh2'):
            mesh2 = build_mesh(rec['mesh2'])
            m2 = (mesh2, mesh2.mapping())
        return mesh, mapping, e, nbfun(e), cells, iA_of, m2
    built, err = guarded(prepare, 60)
    if err:
        return [err_event(base0, 'Deriv', 'Build:' + err, **EMPTY['Deriv'])]
    mesh, mapping, e, N, cells, iA_of, m2 = built
    rng = np.random.default_rng(int(rec['seed']))
    lat = lattice(kind)
    events = []
    wrapper = info['wrap'] in ('Vector', 'Composite')
    fam = info['fam']
    nt = int(mesh.t.shape[1])
    tls = {}
    for c, k in enumerate(cells):
        # every second chosen cell is evaluated through a cell list of exactly nt entries (permuted, with repeats)
        tls[k] = list_with_repeats(int(k), nt, rng, np.int32 if c % 4 == 1 else np.int64) if c % 2 == 1 else None
    for k in cells:
        verts = exact_ints(mesh.p[:, mesh.t[:, k]].T) if affine else None
        base = dict(base0, verts=verts if verts is not None else [], tags={'cell': int(k), 'tl': 1 if tls[k] else 0})
        if affine and verts is None:
            raise MachineryError('generated coordinates are not integers')
        # ---------------- MappingRule: lbasis + Jacobians + gbasis at points of the cell, every local index
        if not wrapper and fam in ('H1', 'Hdiv', 'Hcurl', 'Matrix', 'Skeleton'):
            sel = [lat[j] for j in sorted(rng.choice(len(lat), size=min(int(rec['nmap']), len(lat)), replace=False))]
            X = np.array(sel, dtype=np.float64).T / 8.0
            if fam == 'Skeleton':                       # also the midpoints of the reference facets
                rd = e.refdom
                mids = np.array([np.asarray(rd.p, dtype=float)[:, f].mean(axis=1) for f in rd.facets]).T
                X = np.hstack((X, mids))

            def call(X=X, k=k, percell=False):
                # percell: the same points handed over as (dim, 1 cell, npts) -- the second branch of every gbasis
                tind = np.array([k], dtype=np.int64)
                XX = X[:, None, :] if percell else X
                DF = np.asarray(mapping.DF(XX, tind=tind))[:, :, 0, :]
                iDF = np.asarray(mapping.invDF(XX, tind=tind))[:, :, 0, :]
                det = np.asarray(mapping.detDF(XX, tind=tind))[0, :]
                Ls, Gs = [], []
                for i in range(N):
                    phi, dphi = e.lbasis(X, i)
                    lv, _ = as_field(phi, X.shape[1])
                    ld = as_field(dphi, X.shape[1])[0] if dphi is not None else np.zeros((0, X.shape[1]))
                    fd = _cell_fields(e, mapping, XX, i, k, None if percell else tls[k])[0]
                    dn = [nm for nm in ('grad', 'div', 'curl') if nm in fd]
                    gd = fd[dn[0]][0] if dn else np.zeros((0, X.shape[1]))
                    Ls.append((lv, ld))
                    Gs.append((fd['value'][0], gd, dn[0] if dn else ''))
                out = []
                for q in range(X.shape[1]):
                    out.append({'DF': [fxs(DF[r, :, q]) for r in range(d)], 'iDF': [fxs(iDF[r, :, q]) for r in range(d)],
                                'det': fxs([det[q]])[0],
                                'L': [{'v': fxs(lv[:, q]), 'd': fxs(ld[:, q])} for lv, ld in Ls],
                                'G': [{'v': fxs(gv[:, q]), 'd': fxs(gd[:, q]), 'dn': dn} for gv, gd, dn in Gs]})
                return out
            for percell in (False, True):
                res, err = guarded(lambda: call(percell=percell), 120)
                if err:
                    events.append(err_event(base, 'Map', err, **EMPTY['Map']))
                    events[-1]['tags'] = {'cell': int(k), 'xs': 'percell' if percell else 'shared'}
                else:
                    for q, r in enumerate(res):
                        ev = err_event(base, 'Map', '', **r)
                        ev['tags'] = {'cell': int(k), 'q': q, 'xs': 'percell' if percell else 'shared', 'tl': 1 if (tls[k] and not percell) else 0}
                        events.append(ev)
        # ---------------- MappedDerivative / GlobalDerivative on affine cells, every local index, global axes
        if affine and not info['skeleton'] and (info['allglobal'] or not info['anyglobal']) and fam != 'Matrix':
            n = int(info['n_dir'] if info['allglobal'] else info['n_tot'])
            okw1 = info['okwin']['1'][str(n)]
            okw2 = info['okwin']['2'][str(n)]
            iA = iA_of[k]
            dirs = (lambda X0, iA=iA: [[iA[r][c] for r in range(d)] for c in range(d)])     # columns of invDF
            for i in range(N):
                b = dict(base, i=i + 1, tags={'cell': int(k), 'tl': 1 if tls[k] else 0, 'i': i + 1})
                sel = [lat[j] for j in sorted(rng.choice(len(lat), size=min(int(rec['nder']), len(lat)), replace=False))]
                plans, X = plan_points(kind, sel, dirs, n, okw1, rng, HS_PHYS)
                if not plans:
                    continue
                res, err = guarded(lambda i=i, X=X, k=k: _cell_fields(e, mapping, X, i, k, tls[k]), 120)
                if err:
                    events.append(err_event(b, 'Deriv', err, **EMPTY['Deriv']))
                    continue
                for part, fd in enumerate(res, 1):
                    bp = dict(b, part=part)
                    for src, dst in pairs_of(fd):
                        ev, err = guarded(lambda: deriv_event(bp, src, dst, plans, fd[src][0], fd[dst][0]), 120)
                        events.append(ev if not err else err_event(bp, 'Deriv', 'Malformed:' + err, **EMPTY['Deriv']))
                    # second derivative of a scalar value directly (diagonal of the Hessian), own windows (h >= 1/32)
                    if 'hess' in fd and fd['value'][1] == [] and okw2:
                        plans2, X2 = plan_points(kind, sel[:2], dirs, n, okw2, rng, HS_SECOND, centred=True)
                        if plans2:
                            r2, err = guarded(lambda i=i, X2=X2, k=k: _cell_fields(e, mapping, X2, i, k, tls[k]), 120)
                            if err:
                                events.append(err_event(bp, 'Deriv', err, **EMPTY['Deriv']))
                            else:
                                f2 = r2[part - 1]
                                events.append(deriv_event(bp, 'value', 'hess', plans2, f2['value'][0], f2['hess'][0]))
        # ---------------- Duality: facet fluxes / edge circulations of the lowest-order vector elements
        if affine and not wrapper and info['dual'] in ('flux', 'circ'):
            rd = e.refdom
            ents = rd.facets if (info['dual'] == 'flux' or d == 2) else rd.edges
            bary = {2: [(.75, .25), (.5, .5), (.25, .75)], 3: [(.5, .25, .25), (.25, .5, .25), (.25, .25, .5)],
                    4: [(.25, .25, .25, .25), (.5, .25, .125, .125), (.125, .125, .25, .5)]}
            b = dict(base, how=info['dual'], N=N, tags={'cell': int(k), 'tl': 1 if tls[k] else 0, 'how': info['dual']})

            def call(k=k):
                S = []
                P = np.asarray(rd.p, dtype=np.float64)
                for f in ents:
                    X = np.array([P[:, f] @ np.array(lam) for lam in bary[len(f)]]).T
                    vals = [_cell_fields(e, mapping, X, i, k, tls[k])[0]['value'][0] for i in range(N)]
                    S.append([[fxs(vals[i][:, q]) for i in range(N)] for q in range(X.shape[1])])
                return S
            res, err = guarded(call, 120)
            ev = err_event(b, 'Dual', err, **EMPTY['Dual'])
            ev.update(how=info['dual'], N=N, verts=base['verts'], ents=[[int(v) + 1 for v in f] for f in ents])
            if not err:
                ev['S'] = res
            events.append(ev)
        # ---------------- Duality of global elements: named DOFs (public doflocs / dofnames) and the own gdof
        if fam == 'Global' and not wrapper and spec[0] == 'cls':
            rd = e.refdom
            b = dict(base, how='named', N=N, tags={'cell': int(k), 'tl': 1 if tls[k] else 0, 'how': 'named'})

            def call(k=k):
                dl = np.asarray(e.doflocs, dtype=np.float64)
                uniq, pt = [], []
                for j in range(dl.shape[0]):
                    key = tuple(dl[j])
                    if key not in uniq:
                        uniq.append(key)
                    pt.append(uniq.index(key) + 1)
                X = np.array(uniq, dtype=np.float64).T
                order = None
                F = [[None] * N for _ in uniq]
                for i in range(N):
                    fd = _cell_fields(e, mapping, X, i, k, tls[k])[0]
                    names = [nm for nm in ('value', 'grad', 'hess', 'grad3', 'grad4') if nm in fd]
                    order = len(names)
                    allf = np.vstack([fd[nm][0] for nm in names])
                    for u in range(len(uniq)):
                        F[u][i] = fxs(allf[:, u])
                return {'F': F, 'pt': pt, 'ord': int(order)}
            res, err = guarded(call, 300)
            ev = err_event(b, 'Dual', err, **EMPTY['Dual'])
            ev.update(how='named', N=N, verts=base['verts'], ents=[[int(v) + 1 for v in f] for f in rd.facets],
                      lay=[int(e.nodal_dofs), int(e.edge_dofs), int(e.facet_dofs), int(e.interior_dofs)],
                      cnt=[int(rd.nnodes), int(rd.nedges), int(rd.nfacets)], names=[str(s) for s in e.dofnames])
            if not err:
                ev.update(res)
            events.append(ev)
        # ---------------- PartitionOfUnity of Lagrange-type global elements
        if fam == 'Global' and info['pou'] == 1 and not wrapper:
            b = dict(base, N=N, tags={'cell': int(k)})

            def call(k=k):
                X = np.array(lat, dtype=np.float64).T / 8.0
                V = np.array([_cell_fields(e, mapping, X, i, k, tls[k])[0]['value'][0][0] for i in range(N)])
                return [fxs(V[:, q]) for q in range(X.shape[1])]
            res, err = guarded(call, 120)
            ev = err_event(b, 'PoU', err, **EMPTY['PoU'])
            ev['N'] = N
            if not err:
                ev['V'] = res
            events.append(ev)
    tcells = np.array(cells, dtype=np.int64)
    # ---------------- MappingRule with per-element point arrays on SEVERAL cells at once, different points per cell
    if not wrapper and fam in ('H1', 'Hdiv', 'Hcurl', 'Matrix', 'Skeleton'):
        def call():
            npt = 2
            Xs = [np.array([lat[j] for j in sorted(rng.choice(len(lat), size=npt, replace=False))], dtype=np.float64).T / 8.0
                  for _ in cells]
            X3 = np.stack(Xs, axis=1)                                   # (dim, ncells, npts)
            DF = np.asarray(mapping.DF(X3, tind=tcells))
            iDF = np.asarray(mapping.invDF(X3, tind=tcells))
            det = np.asarray(mapping.detDF(X3, tind=tcells))
            G = [_multi_fields(e, mapping, X3, i, cells)[0] for i in range(N)]
            out = []
            for c in range(len(cells)):
                Ls, Gs = [], []
                for i in range(N):
                    phi, dphi = e.lbasis(Xs[c], i)
                    lv, _ = as_field(phi, npt)
                    ld = as_field(dphi, npt)[0] if dphi is not None else np.zeros((0, npt))
                    dn = [nm for nm in ('grad', 'div', 'curl') if nm in G[i]]
                    gd = G[i][dn[0]][0][:, c, :] if dn else np.zeros((0, npt))
                    Ls.append((np.array(lv), np.array(ld)))
                    Gs.append((G[i]['value'][0][:, c, :], gd, dn[0] if dn else ''))
                out.append(_map_records(d, DF[:, :, c, :], iDF[:, :, c, :], det[c, :], Ls, Gs))
            return out
        res, err = guarded(call, 120)
        if err:
            events.append(err_event(base0, 'Map', err, **EMPTY['Map']))
            events[-1]['tags'] = {'xs': 'multi'}
        else:
            for k, recs_k in zip(cells, res):
                for q, r in enumerate(recs_k):
                    ev = err_event(base0, 'Map', '', **r)
                    ev['tags'] = {'cell': int(k), 'q': q, 'xs': 'multi'}
                    events.append(ev)
    deriv_ok = affine and not info['skeleton'] and (info['allglobal'] or not info['anyglobal']) and fam != 'Matrix'
    if deriv_ok:
        n = int(info['n_dir'] if info['allglobal'] else info['n_tot'])
        okw1 = info['okwin']['1'][str(n)]
        dirs_of, verts_of = {}, {}
        for k in cells:
            iA = iA_of[k]
            dirs_of[k] = (lambda X0, iA=iA: [[iA[r][c] for r in range(d)] for c in range(d)])
            verts_of[k] = exact_ints(mesh.p[:, mesh.t[:, k]].T)
        # ------------ MappedDerivative / GlobalDerivative with per-element point arrays: every cell has its own nodes
        pidx = range(N) if N <= int(rec.get('npc', N)) else \
            sorted(int(v) for v in rng.choice(N, size=int(rec['npc']), replace=False))
        for i in pidx:
            per = []
            for k in cells:
                sel = [lat[j] for j in sorted(rng.choice(len(lat), size=1, replace=False))]
                per.append(plan_points(kind, sel, dirs_of[k], n, okw1, rng, HS_PHYS))
            if any(not pl for pl, _ in per):
                continue
            M = max(X.shape[1] for _, X in per)
            X3 = np.stack([np.hstack((X, np.repeat(X[:, -1:], M - X.shape[1], axis=1))) for _, X in per], axis=1)
            b = dict(base0, i=i + 1, tags={'i': i + 1, 'xs': 'percell'})
            res, err = guarded(lambda i=i, X3=X3: _multi_fields(e, mapping, X3, i, cells), 120)
            if err:
                events.append(err_event(b, 'Deriv', err, **EMPTY['Deriv']))
                continue
            for c, k in enumerate(cells):
                for part, fd in enumerate(res, 1):
                    bp = dict(b, part=part, verts=verts_of[k], tags={'i': i + 1, 'xs': 'percell', 'cell': int(k)})
                    for src, dst in pairs_of(fd):
                        ev, err = guarded(lambda: deriv_event(bp, src, dst, per[c][0], fd[src][0][:, c, :],
                                                              fd[dst][0][:, c, :]), 120)
                        events.append(ev if not err else err_event(bp, 'Deriv', 'Malformed:' + err, **EMPTY['Deriv']))
        # ------------ the same under a call history on the SAME instance (one buffer overwritten in place / two
        #              alternating buffers); for global elements every call is followed by a call on ANOTHER mesh
        mapping2 = m2[1] if m2 is not None else None
        for nbuf, k in zip((1, 2), (cells[-1], cells[0])):
            sel = [lat[j] for j in sorted(rng.choice(len(lat), size=1, replace=False))]
            plans, X = plan_points(kind, sel, dirs_of[k], n, okw1, rng, HS_PHYS)
            if not plans:
                continue
            b = dict(base0, verts=verts_of[k], tags={'cell': int(k), 'hist': nbuf})
            hidx = sorted(int(v) for v in rng.choice(N, size=min(N, int(rec.get('nhist', N))), replace=False))

            def evaluate(buf, k=k, hidx=hidx):
                out = []
                for i in hidx:
                    out += [{nm: (np.array(a), comp) for nm, (a, comp) in fd.items()}
                            for fd in _cell_fields(e, mapping, buf, i, k)]
                return out

            def between(buf, j):
                # (every switch of the mesh makes ElementGlobal rebuild its tables: for large elements only once per axis)
                if mapping2 is not None and (j == 0 or N <= 32):
                    e.gbasis(mapping2, buf, 0, tind=np.array([0], dtype=np.int64))
            res, err = guarded(lambda: history_fields(evaluate, plans, X, nbuf, between), 300)
            if err:
                events.append(err_event(b, 'Deriv', err, **EMPTY['Deriv']))
                continue
            nparts = len(res) // len(hidx)
            for r, i in enumerate(hidx):
                for part in range(1, nparts + 1):
                    fd = res[r * nparts + part - 1]
                    bp = dict(b, i=i + 1, part=part, tags={'cell': int(k), 'hist': nbuf, 'i': i + 1})
                    for src, dst in pairs_of(fd):
                        ev, err = guarded(lambda: deriv_event(bp, src, dst, plans, fd[src][0], fd[dst][0]), 120)
                        events.append(ev if not err else err_event(bp, 'Deriv', 'Malformed:' + err, **EMPTY['Deriv']))
    # ---------------- EvaluationFormsAgree: shared points vs the same points replicated per cell, all chosen cells
    if not info['skeleton']:
        b = dict(base0, N=N, tags={'how': 'agree'})

        def call():
            X = np.array([lat[j] for j in sorted(rng.choice(len(lat), size=2, replace=False))], dtype=np.float64).T / 8.0
            X3 = np.ascontiguousarray(np.repeat(X[:, None, :], len(cells), axis=1))
            A = [[field_records(df) for df in e.gbasis(mapping, X, i, tind=tcells)] for i in range(N)]
            B = [[field_records(df) for df in e.gbasis(mapping, X3, i, tind=tcells)] for i in range(N)]
            return A, B
        res, err = guarded(call, 300)
        ev = err_event(b, 'Agree', err, N=N, A=[], B=[])
        if not err:
            ev.update(A=res[0], B=res[1])
        events.append(ev)
    # ---------------- CellListCommutes: explicit cell lists of every shape against the single-cell evaluations
    if not info['skeleton']:
        b = dict(base0, nt=nt, tags={'how': 'celllist'})
        ncl = int(rec.get('ncl', 8))
        idx = list(range(N)) if N <= ncl else sorted(int(v) for v in rng.choice(N, size=ncl, replace=False))

        def cell_lists():
            full = list(range(nt))
            perm = [int(v) for v in rng.permutation(nt)]
            if perm == full and nt > 1:
                perm = full[1:] + full[:1]
            rep = [int(v) for v in rng.integers(0, nt, size=nt)]
            if nt > 1:
                rep[0] = rep[-1] = (rep[0] + 1) % nt if rep[0] == 0 else rep[0]      # a repeat, first entry not cell 0
            m = max(1, nt // 2)
            sub = sorted(int(v) for v in rng.choice(nt, size=m, replace=False))
            unsorted = [int(v) for v in rng.permutation(sub)][::-1] if m > 1 else [nt - 1]
            subrep = (unsorted + unsorted[:1])[:max(2, m)] if nt > 2 else [nt - 1, nt - 1][:max(1, nt - 1)]
            longer = [int(v) for v in rng.integers(0, nt, size=nt + 1 + nt // 2)]
            out = [('natural', full, 'int64', 0), ('natural32', full, 'int32', 0), ('permutation', perm, 'int64', 0),
                   ('nt-with-repeats', rep, 'int32', 0), ('subset-sorted', sub, 'int64', 0),
                   ('subset-unsorted', unsorted, 'int64', 0), ('subset-repeats', subrep, 'int64', 0),
                   ('single', [int(rng.integers(nt))], 'int64', 0), ('longer', longer, 'int64', 0),
                   ('permutation-percell', perm[::-1] if perm[::-1] != full else perm, 'int64', 1)]
            bf, err = guarded(lambda: np.asarray(mesh.f2t[0, mesh.boundary_facets()]), 30)
            if not err and len(bf):                 # the cells a FacetBasis of the boundary evaluates (facet_basis.py:94-107)
                own = [int(v) for v in bf]
                out.append(('boundary-facet-owners', own, 'int32', 0))
                out.append(('nt-boundary-facet-owners', (own * (nt // len(own) + 1))[:nt], 'int32', 0))
            return out

        def call():
            X = np.array([lat[j] for j in sorted(rng.choice(len(lat), size=int(rec.get('nclpts', 2)), replace=False))],
                         dtype=np.float64).T / 8.0
            R = [[[field_records(df) for df in e.gbasis(mapping, X, i, tind=np.array([c], dtype=np.int64))] for i in idx]
                 for c in range(nt)]
            lists = []
            for name, L, dt, percell in cell_lists():
                tind = np.array(L, dtype=getattr(np, dt))
                XX = np.ascontiguousarray(np.repeat(X[:, None, :], len(L), axis=1)) if percell else X
                F, err = guarded(lambda: [[field_records(df) for df in e.gbasis(mapping, XX, i, tind=tind)] for i in idx], 120)
                lists.append({'name': name, 'tind': [v + 1 for v in L], 'err': err, 'F': F if not err else []})
            return R, lists
        res, err = guarded(call, 600)
        ev = err_event(b, 'CellList', err, nt=nt, idx=[i + 1 for i in idx], R=[], lists=[])
        if not err:
            ev.update(R=res[0], lists=res[1])
        events.append(ev)
    # ---------------- Duality through the element's own functionals gdof (element_global.py:167-189)
    if info['fam'] == 'Global' and not wrapper and spec[0] == 'cls':
        b = dict(base0, how='gdof', N=N, tags={'how': 'gdof'})

        def call():
            M = own_functionals(spec, mesh, mapping, e, N)
            if M.shape != (nt, N, N) or not np.isfinite(M).all():
                raise HookUnavailable('unexpected result of _eval_dofs')
            return [[fxs(M[k, j, :]) for j in range(N)] for k in cells]
        res, err = guarded(call, 600)
        if err:
            # This observation goes through PRIVATE attributes (_pbasis, _eval_dofs) of a scratch instance; if that
            # route fails (renamed / restructured internals, or a functional evaluated where the wrapper cannot follow)
            # nothing is claimed: no event, counted in the evidence.  The named-DOF duality (public API) stands.
            events.append({'a': 'Skip', 'what': 'gdof-hook', 'err': err})
        else:
            for k, M in zip(cells, res):
                ev = err_event(b, 'Dual', '', **EMPTY['Dual'])
                ev.update(how='gdof', N=N, M=M)
                ev['tags'] = {'how': 'gdof', 'cell': int(k)}
                events.append(ev)
    # ---------------- WrapperInherits
    if wrapper:
        s0 = strip_dg(spec)
        b = dict(base0, wrap=s0[0], N=N, tags={'how': 'wrap'})

        def call():
            sel = [lat[j] for j in sorted(rng.choice(len(lat), size=min(3, len(lat)), replace=False))]
            X = np.array(sel, dtype=np.float64).T / 8.0
            tind = np.array(cells, dtype=np.int64)
            outer = [[field_records(df) for df in e.gbasis(mapping, X, i, tind=tind)] for i in range(N)]
            inner = []
            for sub in s0[1:]:
                ei = build(sub)
                inner.append([field_records(ei.gbasis(mapping, X, j, tind=tind)[0]) for j in range(nbfun(ei))])
            return outer, inner
        res, err = guarded(call, 300)
        ev = err_event(b, 'Wrap', err, **EMPTY['Wrap'])
        ev.update(wrap=s0[0], N=N)
        if not err:
            ev.update(outer=res[0], inner=res[1])
        events.append(ev)
    return events


def own_functionals(spec, mesh, mapping, e, N):
    """M[cell, j, i] = gdof(., ., j) applied to the DELIVERED fields of function i: the element's own _eval_dofs is run
    on a second instance whose power basis is replaced by callables that evaluate gbasis of `e` at the requested global
    points (run-time wrapper on a private attribute of a scratch instance; /repo is not touched)."""
    d = mesh.p.shape[0]
    X0 = np.full((d, 1), 0.25)
    e.gbasis(mapping, X0, 0)                      # initialises the tables of e
    e2 = build(spec)
    e2.gbasis(mapping, X0, 0)
    if not isinstance(getattr(e2, '_pbasis', None), dict) or not callable(getattr(e2, '_eval_dofs', None)):
        raise HookUnavailable('ElementGlobal internals changed')
    keys = list(e2._pbasis.keys())
    nt = mesh.t.shape[1]
    cache = {}

    def fields_at(i, x):
        xx = np.array([np.asarray(c, dtype=np.float64) * np.ones(nt) for c in x])[:, :, None]
        key = (i, xx.tobytes())
        if key not in cache:
            cache[key] = e.gbasis(mapping, mapping.invF(xx), i)[0]
        return cache[key]

    def mk(diff, i):
        def f(*x):
            fld = fields_at(i, x)
            arr = np.asarray(fld.get(0)) if len(diff) == 0 else \
                np.asarray(getattr(fld, {1: 'grad', 2: 'hess', 3: 'grad3', 4: 'grad4'}[len(diff)]))
            return arr[tuple(diff) + (slice(None), 0)]
        return f
    e2._pbasis = {diff: [mk(diff, i) for i in range(N)] for diff in keys}
    return np.asarray(e2._eval_dofs(mesh))


# ================================================================================================ scenarios
def execute(rec):
    return exec_ref(rec) if rec['driver'] == 'ref' else exec_cell(rec)


def scenario(rec):
    name = spec_name(rec['spec'])
    geo = rec['mesh']['geo'] if rec['driver'] == 'cell' else 'ref'
    leaf = strip_dg(rec['spec'])
    evs = execute(rec)
    return {'id': f"C09-{name}-{rec['driver']}-{geo}" + (f"-v{rec['variant']}" if rec.get('variant') else ''), 'recipe': rec,
            'tags': {'elem': name, 'cls': leaf[1] if leaf[0] == 'cls' else leaf[0], 'driver': rec['driver'], 'geo': geo,
                     'kind': rec['info']['kind'], 'fam': rec['info']['fam']},
            'events': [ev for ev in evs if ev.get('a') != 'Skip'],
            'skipped': [ev for ev in evs if ev.get('a') == 'Skip']}


def recipes(T, tier, seed):
    quick = tier == 'quick'
    specs = [['cls', r['cls'], int(r['p'])] for r in T['elements']] + [w for w in T['wrappers']]
    out = []
    for n, spec in enumerate(specs):
        info = spec_info(spec, T)
        kind = info['kind']
        if info['leaf'] and info['fam'] != 'Global':
            out.append({'driver': 'ref', 'spec': spec, 'info': info, 'seed': seed + 1000 + n,
                        'npts': 4 if quick else 0, 'nhist': 4 if quick else 64})
        geos = ['rect'] if info['geo'] == 'rect' else \
            (['affine', 'nonaffine'] if kind in ('quad', 'hex') and not info['anyglobal'] else ['affine'])
        if info['leaf'] and not info['anyglobal'] and kind in SECOND:
            geos.append('curved')                     # MappingRule on second-order isoparametric cells
        big = info['td'] >= 6 or (info['allglobal'] and DIM[kind] == 3)
        nvar = 1 if (quick or kind == 'line' or (big and info['allglobal'])) else 3      # mesh variants per geometry class
        for g, geo in enumerate(geos):
            for v in range(nvar):
                r = {'driver': 'cell', 'spec': spec, 'info': info, 'seed': seed + 5000 + 40 * n + 4 * g + v,
                     'mesh': mesh_recipe(kind, geo, seed + 100 + 29 * n + 4 * g + v), 'variant': v,
                     'ncell': 2 if (quick or big) else 3,               # always a positively and a negatively oriented cell
                     'nmap': 2 if quick else 4, 'nder': 1 if quick else (2 if big else 4),
                     # local indices per call history / per-element stencil (all of them unless the element is large)
                     'nhist': (2 if big else 4) if quick else (6 if big else 16),
                     'npc': (8 if big else 64) if quick else (16 if big else 64),
                     'ncl': (2 if big else 4) if quick else (8 if big else 16), 'nclpts': 1 if quick else 2}
                if info['anyglobal']:
                    r['mesh2'] = mesh_recipe(kind, geo, seed + 100 + 29 * n + 4 * g + v + 17)
                out.append(r)
    return out


def completeness(T):
    """every class exported by skfem.element is in the element table or in the not-driven table."""
    import inspect
    import skfem.element as E
    exported = {}
    for nm in E.__all__:
        c = getattr(E, nm)
        if inspect.isclass(c) and issubclass(c, E.Element):
            exported.setdefault(c.__name__, []).append(nm)
    table = {r['cls'] for r in T['elements']}
    nd = {r['cls']: r['why'] for r in T['notdriven']}
    missing = sorted(set(exported) - table - set(nd))
    return exported, table, nd, missing


def _check_harness(ctx):
    for f in ctx.failures:
        if f['clause'] == 'HarnessInputWellFormed':
            raise MachineryError('harness produced a malformed C09 event: ' + f['scenario']['id'] +
                                 ' pos ' + str(f['pos']))


def run(ctx):
    pool = Pool(min(12, max(2, (os.cpu_count() or 4) - 4)))
    try:
        T = load_tables(ctx, ctx.tier)
        exported, table, nd, missing = completeness(T)
        recs = recipes(T, ctx.tier, ctx.seed)
        order = sorted(range(len(recs)), key=lambda j: -(recs[j]['info']['td'] + 1) ** DIM[recs[j]['info']['kind']])
        done = pool.map(scenario, [recs[j] for j in order], chunksize=1)
    finally:
        pool.close()
    scs = [None] * len(recs)
    for j, sc in zip(order, done):
        scs[j] = sc
    ctx.validate('TraceC09', scs, jvms=8)
    _check_harness(ctx)
    # ------------------------------------------------------------------ evidence
    driven = {}
    pairs = set()
    for sc in scs:
        nm = sc['tags']['elem']
        driven.setdefault(nm, set())
        for ev in sc['events']:
            if ev.get('err') == '':
                driven[nm].add(ev['a'] + (':' + ev['mode'] if ev['a'] == 'Deriv' else '') +
                               (':' + ev['how'] if ev['a'] == 'Dual' else ''))
            if ev['a'] == 'Deriv' and ev.get('i'):
                pairs.add((nm, ev['i']))
    not_driven = [{'cls': c, 'why': w} for c, w in sorted(nd.items())]
    not_driven += [{'cls': c, 'why': 'exported class missing from the tables of spec/ShapeFunctions.tla'} for c in missing]
    partial = []
    for r in T['elements']:
        if r['fam'] == 'Skeleton':
            partial.append({'cls': r['cls'], 'why': 'functions are indicator functions of facets (not polynomials in the '
                            'cell; the delivered grad is a placeholder): only MappingRule and nodal duality are driven'})
        if r['fam'] == 'Matrix':
            partial.append({'cls': r['cls'], 'why': 'delivers no derivative field: only MappingRule (matrix Piola) is driven'})
    ctx.notes['distinct_nontrivial'] = len(pairs)
    ctx.notes['classes_exported'] = len(exported)
    ctx.notes['classes_in_table'] = len(table & set(exported))
    ctx.notes['element_instances_driven'] = len(driven)
    ctx.notes['driven'] = {k: sorted(v) for k, v in sorted(driven.items())}
    ctx.notes['not_driven'] = not_driven
    ctx.notes['partially_driven'] = partial
    ctx.notes['tolerances'] = {'TolDeriv': f"2^-{T['tol']['deriv']} x (1/h)^m x sum|w_j| x max|v_j|",
                               'TolMap': f"2^-{T['tol']['map']} x magnitudes of the factors",
                               'TolDual': f"2^-{T['tol']['dual']}", 'TolGlob': f"2^-{T['tol']['glob']} (ElementGlobal)",
                               'TolAgree': '2^-38 x largest entry of the compared fields (evaluation forms, cell lists, wrappers)',
                               'calibration': 'worst observed residual / magnitude on the unchanged tree (seeds 0..2): stencil '
                               '2^-50.5 (ElementGlobal 2^-40.5), transformation 2^-53.6, nodal duality 2^-51.4, gdof 2^-37.4, '
                               'forms / cell lists 2^-54; every tolerance is >= 2^11.5 above'}
    ctx.notes['observations_skipped'] = [dict(sk, scenario=sc['id']) for sc in scs for sk in sc.get('skipped', [])]
    ctx.notes['exported_classes_missing_from_tables'] = missing      # then the enumeration is not exhaustive
    return ctx.finish(rule=RULE, assumptions=[
        'polynomial degrees per class are those of the table in spec/ShapeFunctions.tla (read from the element sources; '
        'over-estimates are harmless, the stencils use one node more than degree + 1)',
        'points per cell are sampled (quick) / the interior dyadic lattice (thorough); cells are the chosen cells of small '
        'integer-coordinate meshes (affine, orientation reversing; general convex quadrilaterals / hexahedra and second-order '
        'curved cells for MappingRule only: there the mapped functions are not polynomials in the global coordinates)',
        'lowest-order duality is claimed for RT1 / N1 classes only (BDM1, RT2, N2, N3, HHJ: derivative and mapping clauses only)',
        'mode L: a relative error below the named tolerances is invisible',
        'signs of vector-valued functions (orientation) are not judged here (C03); value and derivative must share the sign',
        'TLC 1.8.0 and the CommunityModules Json module are trusted'], exhaustive=not missing)


def replay(ctx, doc):
    sc = doc['scenario']
    if sc.get('recipe', {}).get('driver') in ('ref', 'cell'):
        ctx.validate('TraceC09', [scenario(sc['recipe'])])
        _check_harness(ctx)
    elif sc.get('recipe', {}).get('driver') == 'model':
        load_tables(ctx, 'quick')
    return ctx.finish(rule=RULE)
