SPECIFICATION Spec
CONSTANT Sigs <- SigsNamed
INVARIANT NameRowsHold
CHECK_DEADLOCK FALSE
