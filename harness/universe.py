"""Small mesh universes with integer coordinates (Python side), renumberings and admissible local orders.

The TLA+ side (spec/MC_Universe.tla) defines the lattice universes TLC enumerates exhaustively; this module
generates the same families plus the random tier (integer Delaunay meshes) for the code -> spec direction.
"""
import itertools

import numpy as np

REF_HEX = np.array([[1, 1, 1], [1, 1, 0], [1, 0, 1], [0, 1, 1], [1, 0, 0], [0, 1, 0], [0, 0, 1], [0, 0, 0]])


def hex_rotations():
    """The 24 vertex permutations induced by proper rotations of the reference hexahedron."""
    out = []
    c = REF_HEX * 2 - 1
    for perm in itertools.permutations(range(3)):
        for signs in itertools.product((1, -1), repeat=3):
            R = np.zeros((3, 3), dtype=int)
            for i, (j, s) in enumerate(zip(perm, signs)):
                R[i, j] = s
            if round(np.linalg.det(R)) != 1:
                continue
            img = c @ R.T
            sigma = [int(np.where((c == row).all(axis=1))[0][0]) for row in img]
            out.append(sigma)
    return out


HEX_ROT = hex_rotations()


def mesh_class(kind):
    import skfem
    return {'line': skfem.MeshLine, 'tri': skfem.MeshTri, 'quad': skfem.MeshQuad, 'tet': skfem.MeshTet,
            'hex': skfem.MeshHex, 'wedge': skfem.MeshWedge1}[kind]


# ---------------------------------------------------------------- structured generators (p: dim x nv ints, t: nnodes x nt)

def line_points(xs):
    xs = np.asarray(xs, dtype=float)
    p = xs[None, :]
    t = np.vstack((np.arange(len(xs) - 1), np.arange(1, len(xs))))
    return p, t


def tri_lattice(nx, ny, diags=None, jiggle=None):
    """(nx x ny) squares on the integer lattice, each split by diagonal 0 ('/') or 1 ('\\')."""
    P = np.array([[i, j] for j in range(ny + 1) for i in range(nx + 1)], dtype=float).T
    vid = lambda i, j: j * (nx + 1) + i
    T = []
    n = 0
    for j in range(ny):
        for i in range(nx):
            a, b, c, d = vid(i, j), vid(i + 1, j), vid(i + 1, j + 1), vid(i, j + 1)
            dg = 0 if diags is None else diags[n]
            n += 1
            if dg == 0:
                T += [[a, b, c], [a, c, d]]
            else:
                T += [[a, b, d], [b, c, d]]
    p = P.copy()
    if jiggle is not None:
        for (v, dx, dy) in jiggle:
            p[:, v] += (dx, dy)
    return p, np.array(T).T


def quad_grid(nx, ny, jiggle=None):
    P = np.array([[i, j] for j in range(ny + 1) for i in range(nx + 1)], dtype=float).T
    vid = lambda i, j: j * (nx + 1) + i
    T = [[vid(i, j), vid(i + 1, j), vid(i + 1, j + 1), vid(i, j + 1)] for j in range(ny) for i in range(nx)]
    p = P.copy()
    if jiggle is not None:
        for (v, dx, dy) in jiggle:
            p[:, v] += (dx, dy)
    return p, np.array(T).T


def hex_grid(nx, ny, nz):
    P = np.array([[i, j, k] for k in range(nz + 1) for j in range(ny + 1) for i in range(nx + 1)], dtype=float).T
    vid = lambda i, j, k: (k * (ny + 1) + j) * (nx + 1) + i
    T = []
    for k in range(nz):
        for j in range(ny):
            for i in range(nx):
                T.append([vid(i + int(a), j + int(b), k + int(c)) for (a, b, c) in REF_HEX])
    return P, np.array(T).T


def tet_cubes(n=1, split=6):
    """n unit cubes in a row, each split into 6 (Kuhn) or 5 tetrahedra."""
    P, H = hex_grid(n, 1, 1)
    T = []
    for c in range(H.shape[1]):
        h = H[:, c]
        # local cube corners by coordinates relative to the cube's min corner
        mn = P[:, h].min(axis=1)
        loc = {tuple((P[:, v] - mn).astype(int)): v for v in h}
        if split == 6:
            for perm in itertools.permutations(range(3)):
                path = [(0, 0, 0)]
                cur = [0, 0, 0]
                for ax in perm:
                    cur[ax] = 1
                    path.append(tuple(cur))
                T.append([loc[q] for q in path])
        else:
            flip = (c % 2 == 1)

            def q(x, y, z):
                return loc[(1 - x, y, z)] if flip else loc[(x, y, z)]
            T += [[q(0, 0, 0), q(1, 0, 0), q(0, 1, 0), q(0, 0, 1)],
                  [q(1, 1, 0), q(1, 0, 0), q(0, 1, 0), q(1, 1, 1)],
                  [q(1, 0, 1), q(1, 0, 0), q(0, 0, 1), q(1, 1, 1)],
                  [q(0, 1, 1), q(0, 1, 0), q(0, 0, 1), q(1, 1, 1)],
                  [q(1, 0, 0), q(0, 1, 0), q(0, 0, 1), q(1, 1, 1)]]
    return P, np.array(T).T


def wedge_extrude(p2, t2, nz=1):
    """Prisms by extruding a triangulation (p2: 2 x nv, t2: 3 x nt) by nz unit layers."""
    nv = p2.shape[1]
    P = np.hstack([np.vstack((p2, np.full((1, nv), float(k)))) for k in range(nz + 1)])
    T = []
    for k in range(nz):
        for c in range(t2.shape[1]):
            a = t2[:, c]
            T.append(list(a + k * nv) + list(a + (k + 1) * nv))
    return P, np.array(T).T


# ---------------------------------------------------------------- sub-meshes, renumbering, local orders

def submesh(p, t, cells):
    t = t[:, list(cells)]
    used = np.unique(t)
    new = -np.ones(p.shape[1], dtype=int)
    new[used] = np.arange(len(used))
    return p[:, used], new[t]


def renumber(p, t, perm):
    """perm[old] = new."""
    perm = np.asarray(perm)
    p2 = np.empty_like(p)
    p2[:, perm] = p
    return p2, perm[t]


def permute_cells(t, order):
    return t[:, list(order)]


def local_orders(kind):
    if kind in ('line', 'tri', 'tet'):
        n = {'line': 2, 'tri': 3, 'tet': 4}[kind]
        return [list(s) for s in itertools.permutations(range(n))]
    if kind == 'quad':
        return [[(i + s) % 4 for i in range(4)] for s in range(4)]
    if kind == 'hex':
        return HEX_ROT
    if kind == 'wedge':
        return [[(i + s) % 3 for i in range(3)] + [3 + (i + s) % 3 for i in range(3)] for s in range(3)]
    raise ValueError(kind)


def apply_local_orders(kind, t, rng):
    lo = local_orders(kind)
    t2 = t.copy()
    for c in range(t.shape[1]):
        t2[:, c] = t[lo[rng.integers(len(lo))], c]
    return t2


def positive_orient(kind, p, t):
    """Make simplices / quads positively oriented where the library's finders or maps prefer it (not required
    by the properties; used only to produce a second family of inputs)."""
    return t


# ---------------------------------------------------------------- random tier

def delaunay_int(dim, npts, box, rng):
    """Integer-coordinate Delaunay mesh (scipy.spatial.Delaunay), degenerate simplices removed.
    Degenerate point sets (Qhull errors) are re-drawn."""
    from scipy.spatial import Delaunay
    for _ in range(50):
        pts = set()
        while len(pts) < npts:
            pts.add(tuple(int(x) for x in rng.integers(0, box + 1, size=dim)))
        P = np.array(sorted(pts), dtype=float)
        try:
            tri = Delaunay(P)
        except Exception:
            continue
        keep = []
        for s in tri.simplices:
            M = (P[s[1:]] - P[s[0]])
            if abs(round(np.linalg.det(M))) > 0:
                keep.append(s)
        if not keep:
            continue
        T = np.array(keep)
        return submesh(P.T, T.T, range(T.shape[0]))
    return np.zeros((dim, 0)), np.zeros((dim + 1, 0), dtype=int)


def represent(P, T, rep):
    """The same arrays handed over differently (see make)."""
    if rep == 1:
        T = T.astype(np.int32)
    elif rep == 2:
        P, T = np.asfortranarray(P), np.asfortranarray(T)
    elif rep == 3:
        P2 = np.zeros((P.shape[0], 2 * P.shape[1]))
        P2[:, ::2] = P
        T2 = np.zeros((T.shape[0], 2 * T.shape[1]), dtype=T.dtype)
        T2[:, ::2] = T
        P, T = P2[:, ::2], T2[:, ::2]
    elif rep == 4:
        P, T = P.copy(), T.copy()
        P.setflags(write=False)
        T.setflags(write=False)
    return P, T


def make(kind, p, t, rep=0, **kw):
    """rep selects how the SAME arrays are handed over: 0 int64 C-contiguous, 1 int32, 2 Fortran order,
    3 non-contiguous views of larger arrays, 4 read-only arrays."""
    P = np.array(p, dtype=np.float64)
    T = np.array(t, dtype=np.int64)
    if rep == 1:
        T = T.astype(np.int32)
    elif rep == 2:
        P, T = np.asfortranarray(P), np.asfortranarray(T)
    elif rep == 3:
        P2 = np.zeros((P.shape[0], 2 * P.shape[1]))
        P2[:, ::2] = P
        T2 = np.zeros((T.shape[0], 2 * T.shape[1]), dtype=np.int64)
        T2[:, ::2] = T
        P, T = P2[:, ::2], T2[:, ::2]
    elif rep == 4:
        P.setflags(write=False)
        T.setflags(write=False)
    return mesh_class(kind)(P, T, **kw)
