"""C18 - mesh surgery keeps geometry valid and carries tags to the same entities.

M : spec/MC_C18*.cfg - TLC runs the transcriptions (spec/Surgery.tla, part 2) of restrict / remove_elements / + /
    remove_unused_nodes / remove_duplicate_nodes / to_meshtri / to_meshtet over small meshes x every cell subset x
    tag subsets and compositions of two operations, and checks every relational clause SurgeryClauses on them.
R/V : universe meshes x cell subsets x tag subsets and random compositions (length <= 5) of all surgery operations,
    interleaved with refinement, are executed on the real classes; every operation is one event (operands before,
    results, parameters, returned index maps, checksums of the operands around the call) validated by
    spec/TraceC18.tla, which evaluates every clause of Surgery.tla on every event.
"""
import dataclasses
import itertools
import json
import os

import numpy as np

from .. import universe as U
from ..core import guarded, MachineryError
from ..project import exact_int, fx
from ..tags_common import common_scale, mesh_am, mesh_checksums, points_enc, quiet, kind_of

RULE = ('scenario = an initial mesh (integer / dyadic coordinates) with named sub-domains and boundaries and a '
        'composition of <= 5 surgery operations (restrict, remove_elements, +, @, remove_unused_nodes, '
        'remove_duplicate_nodes, to_meshtri both styles, to_meshtet, extrusion, scaled, translated, mirrored, morphed, '
        'oriented, trace), possibly interleaved with refined(); one event per operation. Non-trivial = the operand '
        'has >= 2 cells; distinct = distinct (initial mesh, tags, operation sequence with parameters).')

CLS = {'line': 'MeshLine1', 'tri': 'MeshTri1', 'quad': 'MeshQuad1', 'tet': 'MeshTet1', 'hex': 'MeshHex1',
       'wedge': 'MeshWedge1'}
FACETKIND = {'tri': 'line', 'quad': 'line', 'tet': 'tri', 'hex': 'quad', 'line': 'point', 'wedge': 'quad'}
NOPAR = {'elements': [], 'ix': [], 'skips': 0, 'skipb': 0, 'fnum': [], 'fden': [], 'd': [], 'nrm': [], 'p0': [], 'nn': 0,
         'A': [], 'b': [], 'facets': [], 'fv': [], 'ret': [], 'proj': [], 'sign': [], 'xmap': []}
MAXABS = {1: 10**4, 2: 4096, 3: 200}
MAXCELLS = 72


# ---------------------------------------------------------------- meshes from recipes

def make_mesh(spec):
    import skfem
    from skfem.generic_utils import OrientedBoundary
    cls = getattr(skfem, CLS[spec['kind']])
    m = cls(np.array(spec['p'], dtype=np.float64), np.array(spec['t'], dtype=np.int64))
    bnd = None
    if spec.get('bnd') is not None:
        bnd = {}
        for name, b in spec['bnd'].items():
            f = np.array(b['f'], dtype=np.int64)
            bnd[name] = f if b.get('ori') is None else OrientedBoundary(f, np.array(b['ori'], dtype=np.int64))
    if spec.get('bndv'):
        # facets given as vertex tuples (TLC-exported scenarios): look the ids up in the code's own facet table
        # (as vertex SETS: the code keys a prism's triangles with one vertex repeated)
        key = {frozenset(int(v) for v in m.facets[:, f]): f for f in range(m.facets.shape[1])}
        bnd = dict(bnd or {})
        for name, fv in spec['bndv'].items():
            bnd[name] = np.array([key[frozenset(v)] for v in fv], dtype=np.int64)
    sub = None
    if spec.get('sub') is not None:
        sub = {name: np.array(ix, dtype=np.int64) for name, ix in spec['sub'].items()}
    if bnd is None and sub is None:
        return m
    return dataclasses.replace(m, _boundaries=bnd, _subdomains=sub)


def _frac_pow2(x):
    """x = num / den with den a power of two (exact for dyadic floats)."""
    from fractions import Fraction
    q = Fraction(float(x))
    return int(q.numerator), int(q.denominator)


def _morph_funcs(A, b):
    fs = []
    for i, row in enumerate(A):
        ident = all((row[j] == (1 if i == j else 0)) for j in range(len(row))) and b[i] == 0
        if ident and i % 2 == 1:
            fs.append(None)              # morphed() skips None entries
        else:
            fs.append(lambda p, row=row, bi=b[i]: sum(row[j] * p[j] for j in range(len(row))) + bi)
    return fs


def _other_operand(m, spec):
    """second operand of + / @ / *: a fresh mesh from the recipe, or (spec['from_self']) the chain's current mesh run
    through library transformations - a translated, negatively scaled or mirrored image of itself, which meets the
    original along an interface whose coordinates are equal as NUMBERS (e.g. 0.0 and -0.0, the product 0.0 * -1)."""
    if 'from_self' not in spec:
        return make_mesh(spec)
    o = m
    for t in spec['from_self']:
        if t['op'] == 'translated':
            o = o.translated([float(x) for x in t['d']])
        elif t['op'] == 'scaled':
            o = o.scaled([float(x) for x in t['f']])
        elif t['op'] == 'mirrored':
            n = [0.0] * m.p.shape[0]
            n[t['axis']] = 1.0
            pt = tuple(float(t['c']) if i == t['axis'] else 0.0 for i in range(m.p.shape[0]))
            o = o.mirrored(tuple(n), pt)
        else:
            raise ValueError(t['op'])
    return o


def _flip_zero_sign(q):
    """numerically the same point: every zero coordinate with the other sign (0.0 <-> -0.0)."""
    q = np.array(q, dtype=np.float64)
    z = q == 0
    q[z] = -q[z]
    return q


def apply_step(m, st):
    """Execute one step on the real classes.  Returns (operands, results, par (raw), next mesh)."""
    import skfem
    op = st['op']
    par = {}
    if op == 'refine':
        r = m.refined(1)
        return [m], [r], par, r
    if op == 'setup':
        r = _setup(m, st)
        return [m], [r], par, r
    if op == 'restrict':
        el = np.array(st['elements'], dtype=np.int64)
        r, ix = m.restrict(el, return_mapping=True, skip_boundaries=bool(st.get('skipb')),
                           skip_subdomains=bool(st.get('skips')))
        par.update(elements=st['elements'], ix=ix, skipb=int(bool(st.get('skipb'))), skips=int(bool(st.get('skips'))))
        return [m], [r], par, r
    if op == 'remove_elements':
        r = m.remove_elements(np.array(st['elements'], dtype=np.int64))
        par.update(elements=st['elements'])
        return [m], [r], par, r
    if op == 'add':
        o = _other_operand(m, st['other'])
        ck = mesh_checksums(o)
        r = (o + m) if st.get('swap') else (m + o)
        par['_cko'] = (ck, mesh_checksums(o))
        par['self'] = 2 if st.get('swap') else 1
        return ([o, m] if st.get('swap') else [m, o]), [r], par, r
    if op == 'matmul':
        o = _other_operand(m, st['other'])
        ck = mesh_checksums(o)
        rs = m @ o
        par['_cko'] = (ck, mesh_checksums(o))
        return [m, o], list(rs), par, rs[0]
    if op == 'remove_unused_nodes':
        r = m.remove_unused_nodes()
        return [m], [r], par, r
    if op == 'remove_duplicate_nodes':
        r = m.remove_duplicate_nodes()
        return [m], [r], par, r
    if op in ('to_meshtri', 'to_meshtri_x'):
        style = 'x' if op == 'to_meshtri_x' else None
        if st.get('withx'):
            r, X = m.to_meshtri(x=np.arange(m.t.shape[1]), style=style)
            par['xmap'] = X
        else:
            r = m.to_meshtri(style=style)
        return [m], [r], par, r
    if op == 'to_meshtet':
        r = m.to_meshtet()
        return [m], [r], par, r
    if op == 'extrude':
        o = make_mesh(st['other'])
        ck = mesh_checksums(o)
        r = (o * m) if st.get('swap') else (m * o)
        par['_cko'] = (ck, mesh_checksums(o))
        # operands in the order (cross-section, line): the product cell is (x of the first, z of the second)
        first, second = (m, o)
        if kind_of(m) == 'line' and kind_of(o) == 'tri':
            first, second = o, m
        elif st.get('swap'):
            first, second = o, m
        par['self'] = 1 if first is m else 2
        return [first, second], [r], par, r
    if op == 'scaled':
        f = st['f']
        r = m.scaled(float(f) if st.get('scalar') else [float(x) for x in f])
        fl = [f] * m.p.shape[0] if st.get('scalar') else f
        nd = [_frac_pow2(x) for x in fl]
        par.update(fnum=[a for a, _ in nd], fden=[b for _, b in nd])
        return [m], [r], par, r
    if op == 'translated':
        r = m.translated([float(x) for x in st['d']])
        par['d_raw'] = st['d']
        return [m], [r], par, r
    if op == 'mirrored':
        # reflection through the plane with the integer normal st['n'] through the point st['p0'] (None: the origin)
        n = [int(x) for x in st['n']]
        pt = None if st.get('p0') is None else tuple(float(x) for x in st['p0'])
        r = m.mirrored(tuple(float(x) for x in n), pt) if pt is not None else m.mirrored(tuple(float(x) for x in n))
        par.update(nrm=n, nn=int(sum(x * x for x in n)), p0_raw=[0.0] * len(n) if pt is None else list(pt))
        return [m], [r], par, r
    if op == 'morphed':
        r = m.morphed(*_morph_funcs(st['A'], st['b']))
        par.update(A=st['A'], b_raw=st['b'])
        return [m], [r], par, r
    if op == 'oriented':
        sign = m.orientation()
        r = m.oriented()
        par['sign'] = [int(s) for s in sign]
        return [m], [r], par, r
    if op == 'trace':
        sel = st['sel']
        if sel['how'] == 'ids':
            arg = np.array(sel['f'], dtype=np.int64)
        elif sel['how'] == 'name':
            arg = sel['name']
        else:
            arg = None
        facets_in = m.normalize_facets(arg)
        kw = {}
        if st.get('mtype'):
            kw['mtype'] = getattr(skfem, st['mtype'])
        proj = st.get('proj')
        if proj is not None:
            kw['project'] = lambda p: p[proj]
        r, ret = m.trace(arg, **kw)
        par.update(facets=[int(f) + 1 for f in np.asarray(facets_in)],
                   fv=[[int(v) + 1 for v in m.facets[:, int(f)]] for f in np.asarray(facets_in)],
                   ret=[int(f) + 1 for f in np.asarray(ret)],
                   proj=[int(i) + 1 for i in (proj if proj is not None else range(m.p.shape[0]))])
        return [m], [r], par, m            # the chain continues with the traced mesh itself
    raise ValueError(op)


def _setup(m, st):
    """harness-side state changes (no clause is attached to them)."""
    what = st['what']
    if what == 'inject_unused':
        # extra points that no cell uses, inserted so that the order of the old vertices is kept
        p, t = m.p, m.t
        pos = sorted(st['pos'])
        extra = np.array(st['pts'], dtype=np.float64).T
        keep = np.ones(p.shape[1] + len(pos), dtype=bool)
        keep[pos] = False
        newid = np.nonzero(keep)[0]
        p2 = np.zeros((p.shape[0], p.shape[1] + len(pos)))
        p2[:, newid] = p
        p2[:, pos] = extra
        return dataclasses.replace(m, doflocs=p2, t=newid[t])
    if what == 'inject_duplicates':
        # some cells get their own copy of a vertex; tags are dropped (facets fall apart)
        p, t = m.p, m.t.copy()
        add = []
        for (cell, loc) in st['where']:
            v = t[loc, cell]
            t[loc, cell] = p.shape[1] + len(add)
            add.append(_flip_zero_sign(p[:, v]) if (st.get('signed_zero') and len(add) % 2 == 0) else p[:, v])
        p2 = np.hstack((p, np.array(add).T))
        return type(m)(p2, t)
    if what == 'concat_transformed_self':
        # the raw concatenation of the mesh and a transformed image of itself (what + builds before it merges): the
        # vertices on the common interface exist twice; input of remove_duplicate_nodes
        o = _other_operand(m, {'from_self': st['from_self']})
        return type(m)(np.hstack((m.p, o.p)), np.hstack((m.t, o.t + m.p.shape[1])))
    if what == 'use':
        # the mesh is USED before it is operated on: everything that is built lazily and cached on the object gets
        # built (reference mapping, search tree of the element finder, facet / edge tables, DOF numbering ...).
        # The same object goes on; failures of these warm-up calls are not the subject here.
        import skfem
        elem = {'line': 'ElementLineP1', 'tri': 'ElementTriP1', 'quad': 'ElementQuad1', 'tet': 'ElementTetP1',
                'hex': 'ElementHex1', 'wedge': 'ElementWedge1'}.get(kind_of(m))
        uses = [lambda: m.mapping(), lambda: m.element_finder(), lambda: m.f2t, lambda: m.boundary_facets(),
                lambda: m.dofs, lambda: skfem.Basis(m, getattr(skfem, elem)()),
                lambda: skfem.FacetBasis(m, getattr(skfem, elem)()), lambda: m.orientation(),
                lambda: m.edges, lambda: m.boundary_nodes(),
                lambda: m.facets_satisfying(lambda x: x[0] < 1e9, normal=np.eye(m.p.shape[0])[0]),
                lambda: m.element_finder()(*m.p[:, m.t[:, 0]].mean(axis=1, keepdims=True))]
        for u in uses:
            try:
                u()
            except Exception:
                pass
        return m
    if what == 'retag':
        bnd = {name: np.array(f, dtype=np.int64) for name, f in st['bnd'].items()}
        sub = {name: np.array(f, dtype=np.int64) for name, f in st['sub'].items()}
        return dataclasses.replace(m, _boundaries=bnd, _subdomains=sub)
    if what == 'tag_by_function':
        ax, val = st['axis'], st['val']
        return m.with_boundaries({st['name']: lambda x: x[ax] == val}, boundaries_only=bool(st.get('bonly', 1))) \
                .with_subdomains({st['name'] + '_s': lambda x: x[ax] < val})
    if what == 'renumber':
        perm = np.array(st['perm'])
        p2 = np.empty_like(m.p)
        p2[:, perm] = m.p
        return type(m)(p2, perm[m.t])
    raise ValueError(what)


# ---------------------------------------------------------------- events

LIB0 = {'ok': 0, 'cent': [], 'det': [], 'w': [], 'wx': [], 'find': [], 'facets': []}
LIBMAXCELLS = 48


def lib_observation(m, scale):
    """the mesh seen THROUGH THE LIBRARY (spec/TraceC18.tla, Lib* clauses): images of the reference centroid under
    mapping(), detDF there, Functional(1) / Functional(x_i) per cell on a Basis over the mesh, element_finder() at those
    centroids, the facets table.  Floats are logged as Fx numbers; nothing is compared here."""
    import skfem
    kind = kind_of(m)
    elem = {'line': 'ElementLineP1', 'tri': 'ElementTriP1', 'quad': 'ElementQuad1', 'tet': 'ElementTetP1',
            'hex': 'ElementHex1', 'wedge': 'ElementWedge1'}.get(kind)
    nt = m.t.shape[1]
    if elem is None or not scale or nt > LIBMAXCELLS or NNODES[kind] * scale > 32767:
        return dict(LIB0)
    dim, d = m.p.shape[0], {'line': 1, 'tri': 2, 'quad': 2}.get(kind, 3)
    if dim != d:
        return dict(LIB0)
    dfact = {1: 1, 2: 2, 3: 6}[d]
    big = float(np.abs(m.p).max()) * scale + 1
    out = dict(LIB0)
    mp = m.mapping()
    X = m.elem.refdom.p.mean(axis=1)[:, None]
    cent = mp.F(X)[:, :, 0]
    out['cent'] = [[fx(v) for v in col] for col in cent.T]
    if kind in ('line', 'tri', 'tet', 'quad') and (2 if kind == 'quad' else 1) * scale ** d <= 32767:
        out['det'] = [fx(v) for v in mp.detDF(X)[:, 0]]
    try:
        found = m.element_finder()(*cent)
        out['find'] = [int(k) + 1 if 0 <= int(k) < nt else 0 for k in np.asarray(found).ravel()]
    except Exception:                      # judged by LibFinder (0 is no cell)
        out['find'] = [0] * nt
    if dfact * scale ** d <= 32767 and dfact * big ** d < 2**30:
        basis = skfem.Basis(m, getattr(skfem, elem)())
        out['w'] = [fx(v) for v in skfem.Functional(lambda w: 1. + 0. * w.x[0]).elemental(basis)]
        if kind in ('line', 'tri', 'tet') and dfact * (d + 1) * scale ** (d + 1) <= 32767 \
                and dfact * (d + 1) * big ** (d + 1) < 2**30:
            wx = [skfem.Functional(lambda w, i=i: w.x[i]).elemental(basis) for i in range(dim)]
            out['wx'] = [[fx(wx[i][k]) for i in range(dim)] for k in range(nt)]
    out['facets'] = [[int(v) + 1 for v in col] for col in m.facets.T]
    flat = [v for row in out['cent'] for v in row] + out['det'] + out['w'] + [v for row in out['wx'] for v in row]
    if any(v is None for v in flat):
        return dict(LIB0)
    out['ok'] = 1
    return out


NNODES = {'line': 2, 'tri': 3, 'quad': 4, 'tet': 4, 'hex': 8, 'wedge': 6}


def _am(mesh, pts, kind=None):
    if kind is None and kind_of(mesh) != 'other':
        return mesh_am(mesh, pts)
    # raw Mesh returned by trace(): no facets, no tags
    return {'kind': kind, 'cls': type(mesh).__name__, 'p': pts,
            't': [[int(v) + 1 for v in col] for col in mesh.t.T],
            'nf': 0, 'hass': 0, 'hasb': 0, 'sub': [], 'bnd': []}


def execute(rec):
    """Run the composition of the recipe on the real code; one event per step."""
    raw = []
    with quiet():
        m, err0 = guarded(lambda: make_mesh(rec['mesh']), 30)
    dead = err0
    for st in rec['steps']:
        item = {'op': st['op'], 'err': '', 'st': st}
        raw.append(item)
        if dead:
            item['err'] = 'previous:' + dead
            continue
        cur = m

        def call():
            with quiet():
                ck_self = mesh_checksums(cur)      # the second operand of + / @ / * is checksummed in apply_step
                pres, posts, par, nxt = apply_step(cur, st)
                return ck_self, pres, posts, par, nxt
        res, err = guarded(call, 60)
        if err:
            item['err'] = err
            dead = err
            continue
        ck_self, pres, posts, par, nxt = res
        item.update(pres=pres, posts=posts, par=par, ck_self=ck_self, cur=cur)
        m = nxt
    # one common scale for the whole scenario, so that consecutive events log identical records
    arrays = []
    for it in raw:
        if not it['err']:
            arrays += [x.p for x in it['pres']] + [x.p for x in it['posts']]
            if 'p0_raw' in it['par']:          # the plane point has to be representable at the scenario's scale as well
                q = np.array([it['par']['p0_raw']], dtype=np.float64).T
                arrays.append(q % 1)                       # (only its fractional part matters for the scale)
    scale = _safe_scale(arrays) if arrays else 1
    lat = 0
    if rec.get('lattice'):
        # reflections through oblique planes: the code's coordinates are not exact (it normalises the normal); they are
        # logged as Fx numbers and TLC snaps them to the lattice Z / lat (lat = scale of the exact part * the product
        # of the |normal|^2 of the oblique reflections), see spec/TraceC18.tla
        scale = lat = _lattice_scale(rec, arrays)
    events = []
    for it in raw:
        st = it['st']
        ev = {'a': 'Op', 'op': it['op'], 'err': it['err'], 'tags': {'op': it['op']}, 'pre': [], 'post': [],
              'par': dict(NOPAR), 'ck_pre': [], 'ck_post': [], 'scale': int(scale or 0), 'self': 1, 'lat': int(lat or 0),
              'lib': dict(LIB0)}
        events.append(ev)
        if it['err']:
            continue
        if not scale:
            ev['op'], ev['skipped'] = 'setup', 1     # no exact 32-bit-safe integer form: not judged, counted
            continue
        pres, posts, par = it['pres'], it['posts'], it['par']
        with quiet():
            if lat:
                pts = [[] for _ in pres + posts]
            else:
                pts = points_enc([x.p for x in pres] + [x.p for x in posts], scale)
            ev['pre'] = [_am(x, pts[j]) for j, x in enumerate(pres)]
            tk = FACETKIND.get(kind_of(pres[0])) if it['op'] == 'trace' else None
            ev['post'] = [_am(x, pts[len(pres) + j], kind=tk if (tk and kind_of(x) == 'other') else None)
                          for j, x in enumerate(posts)]
            if lat:
                for rec_am, x in zip(ev['pre'] + ev['post'], pres + posts):
                    rec_am['pfx'] = [[fx(v) for v in col] for col in np.asarray(x.p, dtype=np.float64).T]
                    if any(v is None for col in rec_am['pfx'] for v in col):
                        ev['err'], rec_am['pfx'] = 'NonFiniteCoordinates', []
            # operands after the call: the chain's current mesh is the same object, further operands are rebuilt
            ev['ck_pre'] = [it['ck_self']] + ([par['_cko'][0]] if '_cko' in par else [])
            ev['ck_post'] = [mesh_checksums(it['cur'])] + ([par['_cko'][1]] if '_cko' in par else [])
            if par.get('self') == 2:
                ev['ck_pre'].reverse()
                ev['ck_post'].reverse()
            if rec.get('lib') and it['op'] not in ('setup', 'refine', 'trace') and kind_of(posts[0]) != 'other':
                obs, lerr = guarded(lambda: lib_observation(posts[0], scale), 60)
                # ok = 2: the library raised when asked about its own result (judged by LibAnswers)
                ev['lib'] = dict(LIB0, ok=2) if lerr else obs
        P = ev['par']
        for k in ('elements',):
            if k in par:
                P[k] = [int(x) + 1 for x in par[k]]
        if 'ix' in par:
            P['ix'] = [int(x) + 1 for x in np.asarray(par['ix'])]
        for k in ('skips', 'skipb', 'nrm', 'nn', 'fnum', 'fden', 'facets', 'fv', 'ret', 'proj', 'sign', 'A'):
            if k in par:
                P[k] = par[k]
        if 'xmap' in par:
            P['xmap'] = [int(x) + 1 for x in np.asarray(par['xmap'])]
        exact = True
        if 'd_raw' in par:
            P['d'] = [exact_int(x, scale) for x in par['d_raw']]
            exact = exact and None not in P['d']
        if 'b_raw' in par:
            P['b'] = [exact_int(x, scale) for x in par['b_raw']]
            exact = exact and None not in P['b']
        if 'p0_raw' in par:
            P['p0'] = [exact_int(x, scale) for x in par['p0_raw']]
            exact = exact and None not in P['p0']
        if 'self' in par:
            ev['self'] = par['self']
        if not exact:
            ev['op'], ev['skipped'], ev['par'] = 'setup', 1, dict(NOPAR)
    return events


# ---------------------------------------------------------------- scenario generation (runs the real code to know
# the sizes of intermediate meshes; the recipe it produces is pure JSON and self-contained)

def _bbox(m):
    return m.p.min(axis=1), m.p.max(axis=1)


def _safe_scale(arrays):
    """common power-of-two scale under which every coordinate is an integer and d! * extent^d * 32 < 2^31
    (measures, determinants and their products with scale factors stay inside TLC's 32-bit integers)."""
    dim = max(a.shape[0] for a in arrays)
    s = common_scale(arrays, maxpow=8, maxabs=MAXABS[dim])
    if s is None:
        return None
    lo = min(float(a.min()) for a in arrays) * s
    hi = max(float(a.max()) for a in arrays) * s
    return s if (hi - lo) <= {1: 10**4, 2: 4096, 3: 200}[dim] else None


def _lattice_scale(rec, arrays):
    """lat = s * product of n.n over the oblique reflections of the recipe, s = the power of two that makes the initial
    mesh and the plane points integral; None if the coordinates would leave the 32-bit-safe range at that scale."""
    exact = [np.array(rec['mesh']['p'], dtype=np.float64)]
    den = 1
    for st in rec['steps']:
        if st['op'] == 'mirrored':
            nn = int(sum(int(x) ** 2 for x in st['n']))
            if sum(1 for x in st['n'] if x) > 1:
                den *= nn
            if st.get('p0') is not None:
                exact.append(np.array([st['p0']], dtype=np.float64).T)
        elif st['op'] == 'translated':
            exact.append(np.array([st['d']], dtype=np.float64).T)
    s = common_scale(exact, maxpow=4, maxabs=2**20)
    if s is None:
        return None
    lat = s * den
    dim = max(a.shape[0] for a in arrays)
    ext = max(float(np.abs(a).max()) for a in arrays) * lat
    return lat if (lat < 2**15 and ext <= {1: 10**4, 2: 2048, 3: 200}[dim]) else None


def _fits(meshes):
    return _safe_scale([x.p for x in meshes]) is not None


def _mesh_spec(kind, p, t, bnd=None, sub=None):
    return {'kind': kind, 'p': np.asarray(p, dtype=float).tolist(), 't': np.asarray(t).astype(int).tolist(),
            'bnd': bnd, 'sub': sub}


def random_tags(m, rng, oriented=False):
    nf, nt = m.facets.shape[1], m.t.shape[1]
    bnd, sub = {}, {}
    for name in ['gamma', 'left', 'mix'][:int(rng.integers(1, 4))]:
        mode = int(rng.integers(3))
        bf = m.boundary_facets()
        intf = np.setdiff1d(np.arange(nf), bf)
        cand = bf if mode == 0 else (intf if (mode == 1 and len(intf)) else np.arange(nf))
        k = int(rng.integers(0, min(len(cand), 8) + 1))
        f = rng.choice(cand, size=k, replace=False)
        if rng.random() < 0.5:
            f = np.sort(f)
        if len(f) and rng.random() < 0.15:
            f = np.append(f, f[int(rng.integers(len(f)))])          # a facet listed twice: the same designation
        ori = None
        if oriented and rng.random() < 0.4:
            ins = set(int(x) for x in intf)
            ori = [int(rng.integers(2)) if int(x) in ins else 0 for x in f]
        bnd[name] = {'f': [int(x) for x in f], 'ori': ori}
    for name in ['omega', 'core'][:int(rng.integers(0, 3))]:
        k = int(rng.integers(0, nt + 1))
        ix = rng.choice(nt, size=k, replace=False)
        if rng.random() < 0.5:
            ix = np.sort(ix)
        sub[name] = [int(x) for x in ix]
    return bnd, (sub if sub or rng.random() < 0.5 else None)


def _adjacent_other(m, rng, same_kind=True):
    """a second operand for + / @: lattice mesh next to the bounding box of m (touching, overlapping a side partly,
    or apart)."""
    kind = kind_of(m)
    lo, hi = _bbox(m)
    dim = m.p.shape[0]
    k2 = kind if same_kind else {'tri': 'quad', 'quad': 'tri', 'tet': 'hex', 'hex': 'tet'}.get(kind, kind)
    if k2 == 'tri':
        p, t = U.tri_lattice(1, int(rng.integers(1, 3)), None)
    elif k2 == 'quad':
        p, t = U.quad_grid(1, int(rng.integers(1, 3)))
    elif k2 == 'tet':
        p, t = U.tet_cubes(1, 6 if rng.random() < 0.5 else 5)
    elif k2 == 'hex':
        p, t = U.hex_grid(1, 1, 1)
    elif k2 == 'line':
        p, t = U.line_points([0, 1, 3])
    else:
        return None
    p = p.copy()
    ax = int(rng.integers(dim))
    mode = int(rng.integers(3))
    shift = np.array(lo, dtype=float)
    shift[ax] = hi[ax] + (0 if mode < 2 else 1)          # touching (0, 1) or apart (2)
    if mode == 1 and dim > 1:
        shift[(ax + 1) % dim] += 1                        # touching along part of a side / at a corner
    p = p + shift[:, None]
    if rng.random() < 0.3:
        # the second operand stores points that none of its cells uses (one between used ones, one behind them)
        far = p.max(axis=1) + 3
        j = int(rng.integers(p.shape[1]))
        p = np.hstack((p[:, :j], (far + 1)[:, None], p[:, j:], far[:, None]))
        t = np.where(np.asarray(t) >= j, np.asarray(t) + 1, np.asarray(t))
    return _mesh_spec(k2, p, t)


def _self_image(m, rng, variant=None):
    """transformations (library calls, see _other_operand) that map the mesh to an image of itself on the other side of
    a face of its bounding box or of a coordinate plane, so that the two meet along an interface without overlapping:
    0 translation by the extent, 1 negative scaling factor along an axis (reflection through the coordinate plane),
    2 mirrored() across a bounding-box face, 3 all factors negative (point reflection through the origin)."""
    lo, hi = _bbox(m)
    dim = m.p.shape[0]
    ax = int(rng.integers(dim))
    v = int(rng.integers(4)) if variant is None else variant
    if v == 0:
        if hi[ax] == lo[ax]:
            return None
        return [{'op': 'translated', 'd': [float(hi[ax] - lo[ax]) if i == ax else 0.0 for i in range(dim)]}]
    if v == 1:
        axes = [i for i in range(dim) if lo[i] >= 0 or hi[i] <= 0]
        if not axes:
            return None
        ax = axes[int(rng.integers(len(axes)))]
        return [{'op': 'scaled', 'f': [-1.0 if i == ax else 1.0 for i in range(dim)]}]
    if v == 2:
        return [{'op': 'mirrored', 'axis': ax, 'c': float([lo[ax], hi[ax]][int(rng.integers(2))])}]
    if all(lo[i] >= 0 for i in range(dim)) or all(hi[i] <= 0 for i in range(dim)):
        return [{'op': 'scaled', 'f': [-1.0] * dim}]
    return None


def _line_spec(rng):
    pts = sorted(set(int(x) for x in rng.integers(0, 6, size=int(rng.integers(3, 6)))))
    if len(pts) < 2:
        pts = [0, 2]
    p, t = U.line_points(pts)
    if rng.random() < 0.7:        # arbitrary vertex numbering of the same connected line mesh
        perm = rng.permutation(p.shape[1])
        p, t = U.renumber(p, t, perm)
    return _mesh_spec('line', p, t)


def propose(m, rng, allow):
    """one random step applicable to the mesh m (None if the drawn operation does not apply)."""
    kind = kind_of(m)
    nt, dim = m.t.shape[1], m.p.shape[0]
    op = allow[int(rng.integers(len(allow)))]
    if op in ('restrict', 'remove_elements'):
        if nt < 2:
            return None
        k = int(rng.integers(1, nt))
        el = rng.choice(nt, size=k, replace=False)
        if rng.random() < 0.6:
            el = np.sort(el)
        st = {'op': op, 'elements': [int(x) for x in el]}
        if op == 'restrict' and rng.random() < 0.15:
            st['skipb'] = int(rng.integers(2))
            st['skips'] = 1 - st['skipb']
        return st
    if op == 'add':
        if rng.random() < 0.5:
            fs = _self_image(m, rng)
            if fs is not None:
                return {'op': 'add', 'other': {'from_self': fs}, 'swap': int(rng.integers(2))}
        o = _adjacent_other(m, rng, True)
        if o is None or kind == 'wedge':
            return None
        return {'op': 'add', 'other': o, 'swap': int(rng.integers(2))}
    if op == 'matmul':
        if kind not in ('tri', 'quad', 'tet', 'hex'):
            return None
        if rng.random() < 0.3:
            fs = _self_image(m, rng)
            if fs is not None:
                return {'op': 'matmul', 'other': {'from_self': fs}}
        o = _adjacent_other(m, rng, False)
        return {'op': 'matmul', 'other': o}
    if op in ('remove_unused_nodes', 'remove_duplicate_nodes', 'oriented', 'refine'):
        if op == 'oriented' and kind not in ('line', 'tri', 'tet'):
            return None
        if op == 'refine' and (kind == 'wedge' or nt * (2 ** dim) > MAXCELLS):
            return None
        return {'op': op}
    if op in ('to_meshtri', 'to_meshtri_x'):
        if kind != 'quad':
            return None
        return {'op': op, 'withx': int(rng.integers(2))}
    if op == 'to_meshtet':
        return {'op': op} if kind in ('hex', 'wedge') else None
    if op == 'extrude':
        if kind == 'tri':
            return {'op': op, 'other': _line_spec(rng)}
        if kind == 'line':
            if rng.random() < 0.5:
                return {'op': op, 'other': _line_spec(rng)}
            p, t = U.tri_lattice(1, 1, (int(rng.integers(2)),))
            return {'op': op, 'other': _mesh_spec('tri', p, t)}
        return None
    if op == 'scaled':
        if rng.random() < 0.25:
            return {'op': op, 'scalar': 1, 'f': float([2.0, 0.5, 3.0][int(rng.integers(3))])}
        return {'op': op, 'f': [float([1, 2, 3, 0.5, -1, -2][int(rng.integers(6))]) for _ in range(dim)]}
    if op == 'translated':
        return {'op': op, 'd': [float(rng.integers(-3, 4)) / (2 if rng.random() < 0.2 else 1) for _ in range(dim)]}
    if op == 'mirrored':
        # axis-parallel normals of any length and sign keep every coordinate exact (oblique planes: lattice family)
        n = [0] * dim
        n[int(rng.integers(dim))] = int([1, 2, -1][int(rng.integers(3))])
        st = {'op': op, 'n': n, 'p0': None}
        if rng.random() < 0.6:
            st['p0'] = [float(rng.integers(-2, 4)) / (2 if rng.random() < 0.2 else 1) for _ in range(dim)]
        return st
    if op == 'morphed':
        while True:
            A = rng.integers(-2, 3, size=(dim, dim))
            if rng.random() < 0.4:
                A = np.eye(dim, dtype=int)
                i, j = rng.integers(dim), rng.integers(dim)
                if i != j:
                    A[i, j] = int(rng.integers(-2, 3))
            if round(abs(np.linalg.det(A))) in (1, 2, 3):
                break
        return {'op': op, 'A': A.astype(int).tolist(), 'b': [int(x) for x in rng.integers(-2, 3, size=dim)]}
    if op == 'trace':
        if kind not in ('tri', 'quad', 'tet', 'hex'):
            return None
        nf = m.facets.shape[1]
        how = int(rng.integers(4))
        st = {'op': op}
        if how == 0:
            st['sel'] = {'how': 'boundary'}
        elif how == 3:
            lo, hi = _bbox(m)
            ax = int(rng.integers(dim))
            val = [lo[ax], hi[ax]][int(rng.integers(2))]
            f = [int(x) for x in m.boundary_facets() if (m.p[ax, m.facets[:, x]] == val).all()]
            if not f:
                return None
            st['sel'] = {'how': 'ids', 'f': f}
            st['proj'] = [i for i in range(dim) if i != ax]
            st['mtype'] = CLS[FACETKIND[kind]]
        elif how == 1 and m.boundaries:
            names = sorted(m.boundaries)
            name = names[int(rng.integers(len(names)))]
            if len(m.boundaries[name]) == 0:
                return None
            st['sel'] = {'how': 'name', 'name': name}
        else:
            k = int(rng.integers(1, min(nf, 6) + 1))
            st['sel'] = {'how': 'ids', 'f': [int(x) for x in rng.choice(nf, size=k, replace=False)]}
        return st
    if op == 'setup_use':
        return {'op': 'setup', 'what': 'use'}
    if op == 'setup_unused':
        # points that no cell uses: behind the highest used vertex, between used ones, or both
        k = int(rng.integers(1, 4))
        n = m.p.shape[1] + k
        how = int(rng.integers(3))
        if how == 0:
            pos = list(range(n - k, n))
        elif how == 1:
            pos = sorted(int(x) for x in rng.choice(n, size=k, replace=False))
        else:
            pos = sorted({n - 1} | {int(x) for x in rng.choice(n - 1, size=k - 1, replace=False)})
            k = len(pos)
        lo, _ = _bbox(m)
        pts = [[float(lo[i] - 1 - j) for i in range(dim)] for j in range(k)]
        return {'op': 'setup', 'what': 'inject_unused', 'pos': pos, 'pts': pts}
    if op == 'setup_duplicates':
        k = int(rng.integers(1, 4))
        where = sorted({(int(rng.integers(nt)), int(rng.integers(m.t.shape[0]))) for _ in range(k)})
        return {'op': 'setup', 'what': 'inject_duplicates', 'where': [list(w) for w in where],
                'signed_zero': int(rng.integers(2))}
    if op == 'setup_concat_self':
        fs = _self_image(m, rng)
        if fs is None or 2 * nt > MAXCELLS:
            return None
        return {'op': 'setup', 'what': 'concat_transformed_self', 'from_self': fs}
    if op == 'setup_retag':
        if kind == 'other':
            return None
        bnd, sub = random_tags(m, rng)
        return {'op': 'setup', 'what': 'retag', 'bnd': {k: v['f'] for k, v in bnd.items()}, 'sub': sub or {}}
    if op == 'setup_function_tag':
        lo, hi = _bbox(m)
        ax = int(rng.integers(dim))
        return {'op': 'setup', 'what': 'tag_by_function', 'axis': ax, 'val': float([lo[ax], hi[ax]][int(rng.integers(2))]),
                'name': 'fn', 'bonly': int(rng.integers(2))}
    if op == 'setup_renumber':
        return {'op': 'setup', 'what': 'renumber', 'perm': [int(x) for x in rng.permutation(m.p.shape[1])]}
    return None


ALL_OPS = ['restrict', 'restrict', 'remove_elements', 'add', 'matmul', 'remove_unused_nodes',
           'remove_duplicate_nodes', 'to_meshtri', 'to_meshtri_x', 'to_meshtet', 'extrude', 'scaled', 'translated',
           'mirrored', 'morphed', 'oriented', 'trace', 'refine', 'setup_retag', 'setup_function_tag']


def compose(spec, rng, length, allow=ALL_OPS, first=None, extras=True):
    """random composition: executes on the real code while drawing so that parameters fit the intermediate meshes."""
    steps = []
    seen = []
    with quiet():
        m = make_mesh(spec)
        tries = 0
        forced = list(first or [])
        while len(steps) < length and tries < 60:
            tries += 1
            if forced:
                st = forced.pop(0)
            else:
                st = propose(m, rng, allow)
            if st is None:
                continue
            # an operation that needs a prepared operand gets its preparation first
            pre = []
            if st['op'] == 'remove_unused_nodes' and rng.random() < 0.8:
                pre = [propose(m, rng, ['setup_unused'])]
            if st['op'] == 'remove_duplicate_nodes' and rng.random() < 0.25:
                cs = propose(m, rng, ['setup_concat_self'])
                pre = [cs] if cs is not None else []
            elif st['op'] == 'remove_duplicate_nodes' and rng.random() < 0.6:
                pre = [propose(m, rng, ['setup_duplicates'])]
                if pre[0] is not None and rng.random() < 0.6:
                    # tag the mesh WITH its duplicate vertices (facets of the split cells exist twice): the names have
                    # to follow the merge
                    res, err = guarded(lambda: apply_step(m, pre[0]), 60)
                    if not err:
                        rt = propose(res[3], rng, ['setup_retag'])
                        if rt is not None:
                            pre.append(rt)
            # the parts returned by @ keep the common point array: sometimes the chain goes on with such a part as it is
            post = [{'op': 'remove_unused_nodes'}] if (st['op'] == 'matmul' and rng.random() < 0.5) else []
            if st['op'] not in ('setup', 'refine') and extras:
                front = []
                if rng.random() < 0.12 and m.p.shape[1] == len(np.unique(m.t)):
                    front.append(propose(m, rng, ['setup_unused']))
                if rng.random() < 0.35:
                    front.append({'op': 'setup', 'what': 'use'})
                pre = front + pre
            ok = True
            m2 = m
            new = []
            for s in pre + [st] + post:
                res, err = guarded(lambda s=s, m2=m2: apply_step(m2, s), 60)
                if err:
                    ok = False
                    break
                pres, posts, _, nxt = res
                new += pres + posts
                if not _fits(seen + new) or any(x.t.shape[1] > MAXCELLS for x in posts):
                    ok = False
                    break
                m2 = nxt
            if not ok:
                continue
            steps += pre + [st] + post
            seen += new
            m = m2
    return {'driver': 'surgery', 'mesh': spec, 'steps': steps}


def base_specs(tier, rng):
    out = []
    for dg in ((0, 0, 0, 0), (1, 0, 0, 1)):
        p, t = U.tri_lattice(2, 2, dg)
        out.append(('tri', p, t))
        ps, ts = U.submesh(p, t, (0, 1, 2, 3, 6, 7))
        out.append(('tri', ps, ts))
    p, t = U.tri_lattice(3, 1, (0, 1, 0))
    out.append(('tri', p, t))
    p, t = U.tri_lattice(2, 2, (0, 1, 1, 0), jiggle=[(4, 0.25, 0.5)])
    out.append(('tri', p * 4, t))
    for (nx, ny) in ((2, 1), (2, 2), (3, 2)):
        p, t = U.quad_grid(nx, ny)
        out.append(('quad', p, t))
    p, t = U.quad_grid(2, 2, jiggle=[(4, 0.25, -0.25)])
    out.append(('quad', p * 4, t))
    p, t = U.quad_grid(3, 2)
    ps, ts = U.submesh(p, t, (0, 1, 2, 5))
    out.append(('quad', ps, ts))
    for (n, split) in ((1, 6), (1, 5)):
        p, t = U.tet_cubes(n, split)
        out.append(('tet', p, t))
    for dims in ((2, 1, 1), (2, 2, 1)):
        p, t = U.hex_grid(*dims)
        out.append(('hex', p, t))
    p2, t2 = U.tri_lattice(2, 1, (0, 1))
    p, t = U.wedge_extrude(p2, t2, 1)
    out.append(('wedge', p, t))
    p, t = U.line_points([0, 1, 2, 4])
    out.append(('line', p, t))
    # locally re-ordered / renumbered variants
    var = []
    for (kind, p, t) in out:
        if kind in ('line', 'wedge'):
            continue
        p2, t2 = U.renumber(p, t, rng.permutation(p.shape[1]))
        t2 = U.permute_cells(t2, rng.permutation(t2.shape[1]))
        if kind in ('quad', 'hex', 'tri', 'tet'):
            t2 = U.apply_local_orders(kind, t2, rng)
        var.append((kind, p2, t2))
    return out + var


def _tagged_spec(kind, p, t, rng, oriented=False):
    spec = _mesh_spec(kind, p, t)
    if kind == 'line':
        return spec
    with quiet():
        m = make_mesh(spec)
        bnd, sub = random_tags(m, rng, oriented)
    spec['bnd'], spec['sub'] = bnd, sub
    return spec


OBLIQUE = {2: [(1, 1), (1, -1), (1, 2), (2, -1), (-1, 1), (2, 1), (3, 4)],
           3: [(1, 1, 0), (0, 1, -1), (1, 0, 1), (1, 1, 1), (1, -1, 1), (1, -1, 2), (1, 2, 2)]}


def partition_tags(m, rng, nb=3, ns=2):
    """EVERY facet (boundary and interior) and every cell gets exactly one name: whatever an operation adds to or
    drops from a name shows up."""
    nf, nt = m.facets.shape[1], m.t.shape[1]
    fa = rng.integers(nb, size=nf)
    ca = rng.integers(ns, size=nt)
    bnd = {'part%d' % k: {'f': [int(x) for x in np.nonzero(fa == k)[0]], 'ori': None} for k in range(nb)}
    sub = {'zone%d' % k: [int(x) for x in np.nonzero(ca == k)[0]] for k in range(ns)}
    return bnd, sub


def split_specs(tier, rng):
    """tagged quadrilateral (hexahedral, prismatic) meshes beyond the smallest cases for to_meshtri / to_meshtet:
    the library's own constructors with their numbering (refined unit square, tensor grids), hand-numbered strips,
    scrambled vertex / cell numberings and local orders; tags: the default sides, a partition of all facets and cells."""
    import skfem
    thorough = tier == 'thorough'
    out = []
    with quiet():
        base = [skfem.MeshQuad().refined(1), skfem.MeshQuad().refined(2),
                skfem.MeshQuad.init_tensor(np.arange(4.), np.arange(3.)),
                skfem.MeshQuad.init_tensor(np.arange(5.), np.arange(4.)),
                skfem.MeshQuad.init_tensor(np.arange(6.), np.arange(5.))]
        arrays = [('quad', m.p.copy(), m.t.copy()) for m in base]
    # hand-numbered strips: cells in a row, vertex numbers assigned cell by cell in varying order
    for ncell in (3, 5, 8):
        p, t = U.quad_grid(ncell, 1)
        arrays.append(('quad', p, t))
        p2, t2 = U.renumber(p, t, np.argsort(np.argsort(-p[0] + 0.5 * p[1])))
        arrays.append(('quad', p2, t2[:, ::-1]))
    for (kind, p, t) in list(arrays):
        for _ in range(3 if thorough else 1):
            p2, t2 = U.renumber(p, t, rng.permutation(p.shape[1]))
            t2 = U.permute_cells(t2, rng.permutation(t2.shape[1]))
            t2 = U.apply_local_orders(kind, t2, rng)
            arrays.append((kind, p2, t2))
    for (kind, p, t) in arrays:
        spec = _mesh_spec(kind, p, t)
        with quiet():
            m = make_mesh(spec)
            if rng.random() < 0.4:
                d = m.with_defaults()
                bnd = {k: {'f': [int(x) for x in v], 'ori': None} for k, v in d.boundaries.items()}
                bnd['inner'] = {'f': [int(x) for x in rng.permutation(np.nonzero(m.f2t[1] >= 0)[0])[:6]], 'ori': None}
                sub = {'half': [int(x) for x in np.nonzero(m.p[0, m.t].mean(axis=0) < m.p[0].mean())[0]]}
            else:
                bnd, sub = partition_tags(m, rng, nb=int(rng.integers(2, 5)))
        spec['bnd'], spec['sub'] = bnd, sub
        out.append(spec)
    # hexahedra / prisms: to_meshtet carries no tags, the partition of bigger grids is checked
    for dims in ((2, 2, 2), (3, 2, 1)):
        p, t = U.hex_grid(*dims)
        t = U.apply_local_orders('hex', t, rng)
        out.append(_mesh_spec('hex', p, t))
    p2, t2 = U.tri_lattice(2, 2, (0, 1, 1, 0))
    p, t = U.wedge_extrude(p2, t2, 2)
    out.append(_mesh_spec('wedge', p, t))
    return out


def forced(spec, rng, setups, op):
    """recipe [setup steps ..., op]: the setups ('setup_unused', 'setup_use') are drawn for the mesh as it is when their
    turn comes, then the operation for the mesh they leave.  None if the operation does not apply / does not fit."""
    steps, seen = [], []
    with quiet():
        m = make_mesh(spec)
        for name in list(setups) + [op]:
            st = None
            for _ in range(8):
                st = propose(m, rng, [name])
                if st is not None:
                    break
            if st is None:
                return None
            follow = [{'op': 'remove_unused_nodes'}] if (st['op'] == 'matmul' and rng.random() < 0.5) else []
            for s1 in [st] + follow:
                res, err = guarded(lambda s1=s1, m=m: apply_step(m, s1), 60)
                if err:
                    return None
                pres, posts, _, nxt = res
                seen += pres + posts
                if not _fits(seen) or any(x.t.shape[1] > MAXCELLS for x in posts):
                    return None
                steps.append(s1)
                m = nxt
    return {'driver': 'surgery', 'mesh': spec, 'steps': steps, 'lib': 1}


ALPHABET = ['restrict', 'remove_elements', 'add', 'matmul', 'remove_unused_nodes', 'remove_duplicate_nodes',
            'to_meshtri', 'to_meshtri_x', 'to_meshtet', 'extrude', 'scaled', 'translated', 'mirrored', 'morphed',
            'oriented', 'trace', 'refine']


def generate(tier, seed):
    rng = np.random.default_rng(seed + 18)
    thorough = tier == 'thorough'
    recs = []
    specs = base_specs(tier, rng)
    # (1) universe meshes x cell subsets x tag subsets, single restrict / remove_elements
    for (kind, p, t) in specs:
        nt = t.shape[1]
        if kind == 'line' or nt > 8:
            continue
        subsets = [s for r in range(1, nt) for s in itertools.combinations(range(nt), r)]
        k = 60 if thorough else 6
        if len(subsets) > k:
            subsets = [subsets[j] for j in rng.choice(len(subsets), k, replace=False)]
        for s in subsets:
            spec = _tagged_spec(kind, p, t, rng, oriented=True)
            el = list(s) if rng.random() < 0.7 else [int(x) for x in rng.permutation(list(s))]
            steps = [{'op': 'restrict', 'elements': el}, ]
            recs.append({'driver': 'surgery', 'mesh': spec, 'steps': steps, 'family': 'subset'})
            recs.append({'driver': 'surgery', 'mesh': spec, 'steps': [{'op': 'remove_elements', 'elements': el}],
                         'family': 'subset'})
    # (2) every operation at least once from every base mesh it applies to
    singles = ['add', 'matmul', 'remove_unused_nodes', 'remove_duplicate_nodes', 'to_meshtri', 'to_meshtri_x',
               'to_meshtet', 'extrude', 'scaled', 'translated', 'mirrored', 'morphed', 'oriented', 'trace']
    for (kind, p, t) in specs:
        for op in singles:
            for rep in range(6 if thorough else 1):
                spec = _tagged_spec(kind, p, t, rng)
                r = compose(spec, rng, 1, allow=[op], extras=False)
                if r['steps']:
                    r['lib'] = 1
                    r['family'] = 'single'
                    recs.append(r)
    # (3) random compositions interleaved with refinement
    ncomp = 2500 if thorough else 260
    for j in range(ncomp):
        kind, p, t = specs[int(rng.integers(len(specs)))]
        spec = _tagged_spec(kind, p, t, rng, oriented=(j % 3 == 0))
        r = compose(spec, rng, int(rng.integers(2, 6)))
        if r['steps']:
            r['lib'] = int(j % 2 == 0)
            r['family'] = 'composition'
            recs.append(r)
    # (6) extrusion: cross-sections x connected line meshes under arbitrary vertex numberings, both operand orders
    for j in range(40 if thorough else 10):
        if j % 3 == 2:
            spec = _line_spec(rng)
        else:
            p, t = U.tri_lattice(1 + j % 2, 1, None)
            t = U.apply_local_orders('tri', t, rng)
            spec = _mesh_spec('tri', p, t)
        other = _line_spec(rng)
        if j % 3 == 1:       # line * tri  (MeshLine1.__mul__ delegates to the triangle mesh)
            spec, other = other, spec
        recs.append({'driver': 'surgery', 'mesh': spec, 'steps': [{'op': 'extrude', 'other': other}],
                     'family': 'extrude'})
    # (10) every operation of the alphabet on an operand that (a) has been USED before (mapping, bases, element finder,
    # facet tables ... are cached on it), (b) stores points no cell uses (behind the highest used vertex, between used
    # ones), (c) both; the result is also looked at through the library (Lib* clauses).  Refinement of a used mesh is a
    # state change followed by an operation, so that its result is looked at as an operand.
    variants = [['setup_use'], ['setup_unused'], ['setup_unused', 'setup_use']]
    for n, (kind, p, t) in enumerate(specs):
        for k, op in enumerate(ALPHABET):
            if not thorough and (n + k) % 2:
                continue
            vs = variants if thorough else [variants[((n + k) // 2) % 3]]
            for setups in vs:
                spec = _tagged_spec(kind, p, t, rng)
                r = forced(spec, rng, setups, op)
                if r is None:
                    continue
                if op == 'refine':
                    with quiet():
                        tail = compose(spec, rng, len(r['steps']) + 1, allow=['translated', 'scaled', 'restrict'],
                                       first=list(r['steps']),
                                       extras=False)
                    r['steps'] = tail['steps']
                r['family'] = 'used-or-stray'
                recs.append(r)
    # (8) to_meshtri (both styles) / to_meshtet on bigger tagged meshes under many numberings
    for n, spec in enumerate(split_specs(tier, rng)):
        if spec['kind'] == 'quad':
            ops = ['to_meshtri_x', 'to_meshtri'] if (thorough or n % 2 == 0) else ['to_meshtri_x']
        else:
            ops = ['to_meshtet']
        for op in ops:
            st = {'op': op, 'withx': int(rng.integers(2))} if op != 'to_meshtet' else {'op': op}
            recs.append({'driver': 'surgery', 'mesh': spec, 'steps': [st], 'family': 'split-tagged'})
    # (9) reflections through planes that are neither axis-parallel nor through the origin (mode L on the exact
    # rational image, see TraceC18): tagged meshes, an exact first step, the reflection, and a second reflection
    # (through the same plane: the mesh comes back; or through another plane)
    for n, (kind, p, t) in enumerate(specs):
        if kind == 'line' or (not thorough and n % 2 and kind != 'hex'):
            continue
        dim = np.asarray(p).shape[0]
        for rep_ in range(3 if thorough else 1):
            spec = _tagged_spec(kind, p, t, rng, oriented=(n % 3 == 0))
            nrm = list(OBLIQUE[dim][int(rng.integers(len(OBLIQUE[dim])))])
            while True:
                p0 = [int(x) for x in rng.integers(-2, 4, size=dim)]
                if any(p0) and sum(a * b for a, b in zip(nrm, p0)) != 0:
                    break
            steps = []
            if rng.random() < 0.5:
                steps.append({'op': 'translated', 'd': [float(x) for x in rng.integers(-2, 3, size=dim)]})
            steps.append({'op': 'mirrored', 'n': nrm, 'p0': [float(x) for x in p0]})
            how = int(rng.integers(3))
            if how == 0:
                steps.append({'op': 'mirrored', 'n': [-x for x in nrm] if rng.random() < 0.5 else nrm,
                              'p0': [float(x) for x in p0]})
            elif how == 1:
                n2 = list(OBLIQUE[dim][int(rng.integers(3))])
                steps.append({'op': 'mirrored', 'n': n2, 'p0': [float(x) for x in rng.integers(-1, 3, size=dim)]})
            else:
                ax = [0] * dim
                ax[int(rng.integers(dim))] = 1
                steps.append({'op': 'mirrored', 'n': ax, 'p0': None})
            r = {'driver': 'surgery', 'mesh': spec, 'steps': steps, 'family': 'oblique-mirror', 'lattice': 1}
            with quiet():
                evs = execute(r)
            if any(e.get('skipped') for e in evs):          # would leave the 32-bit-safe range at the lattice scale
                r['steps'] = steps[:-1]
                with quiet():
                    evs = execute(r)
                if any(e.get('skipped') for e in evs):
                    continue
            recs.append(r)
    # (7) every base mesh joined (+, @) with a translated / negatively scaled / mirrored / point-reflected image of
    # itself, directly and after a first transformation, and duplicate removal on the raw concatenation
    for n, (kind, p, t) in enumerate(specs):
        if kind in ('line', 'wedge') and n % 2:
            continue
        for v in range(4):
            if not thorough and (n + v) % 2:
                continue
            spec = _tagged_spec(kind, p, t, rng)
            with quiet():
                m0 = make_mesh(spec)
                fs = _self_image(m0, rng, variant=v)
            if fs is None:
                continue
            how = (n + v) % 3
            if how == 0:
                steps = [{'op': 'add', 'other': {'from_self': fs}, 'swap': int(rng.integers(2))}]
            elif how == 1 and kind in ('tri', 'quad', 'tet', 'hex'):
                steps = [{'op': 'matmul', 'other': {'from_self': fs}}, {'op': 'remove_unused_nodes'}]
            else:
                steps = [{'op': 'setup', 'what': 'concat_transformed_self', 'from_self': fs},
                         {'op': 'remove_duplicate_nodes'}]
            recs.append({'driver': 'surgery', 'mesh': spec, 'steps': steps, 'family': 'self-image'})
    # (5) extrusion along a line mesh with several components (the product of the operands has a gap)
    gl = _mesh_spec('line', [[0., 1., 3., 4.]], [[0, 2], [1, 3]])
    p, t = U.tri_lattice(1, 1, (0,))
    recs.append({'driver': 'surgery', 'mesh': _mesh_spec('tri', p, t), 'steps': [{'op': 'extrude', 'other': gl}],
                 'family': 'extrude-gappy'})
    recs.append({'driver': 'surgery', 'mesh': gl, 'steps': [{'op': 'extrude', 'other': _mesh_spec('line', [[0., 2.]], [[0], [1]])}],
                 'family': 'extrude-gappy'})
    # (4) tagged valid meshes whose vertices are not in coordinate order: remove_duplicate_nodes renumbers them
    # (and with them the facets: the named boundaries have to follow)
    for (kind, p, t) in specs[::3]:
        if kind in ('line',):
            continue
        spec = _tagged_spec(kind, p, t, rng)
        recs.append({'driver': 'surgery', 'mesh': spec, 'steps': [{'op': 'remove_duplicate_nodes'}],
                     'family': 'dup-on-valid'})
    return recs


def scenario(sid, rec):
    ops = [s['op'] for s in rec['steps']]
    return {'id': sid, 'recipe': rec, 'tags': {'kind': rec['mesh']['kind'], 'family': rec.get('family', ''),
                                               'ops': '+'.join(ops)},
            'events': execute(rec)}


def model(ctx):
    """M: MC_C18.cfg (transcriptions of the current code) must hold; MC_C18_dup.cfg (remove_duplicate_nodes before
    commit 0832543, kept as a regression model) must be refuted by TLC.  Returns the TLC-exported scenarios for R."""
    out = os.path.join(ctx.scratch, 'c18_export.json')
    env = {'TIER': ctx.tier, 'OUT_FILE': out}
    to = 1500 if ctx.tier == 'thorough' else 400
    ctx.model_must_hold('MC_C18', 'MC_C18.cfg', env=env, timeout=to, xmx='4g',
                        label='transcriptions of restrict/remove/+/unused/duplicates/to_meshtri/to_meshtet (current code)')
    # regression models: the behaviour before each repair, kept in the specification; TLC must keep refuting them
    for cfg, note, what in (
            ('MC_C18_dup.cfg', 'old_dup_removal_refuted_by_tlc',
             'remove_duplicate_nodes before 0832543 (tag arrays kept verbatim)'),
            ('MC_C18_counts.cfg', 'old_used_vertex_count_refuted_by_tlc',
             "to_meshtri(style='x') / tri * line before e738c29 (new points numbered from the highest used vertex + 1)"),
            ('MC_C18_repeat.cfg', 'old_facet_lookup_refuted_by_tlc',
             'to_meshtri facet lookup before 229e2bb (a repeated facet id looked up twice with one shared iterator)')):
        old = ctx.tlc_model('MC_C18', cfg, env={'TIER': ctx.tier, 'OUT_FILE': ''}, timeout=to, xmx='4g',
                            label='regression model: ' + what)
        ctx.notes[note] = bool(old['violated'])
        if not old['violated']:
            raise MachineryError('%s: TLC no longer refutes the regression model (%s)' % (cfg, what))
    recs = []
    if os.path.exists(out):
        docs = json.load(open(out))
        docs.sort(key=lambda d: json.dumps(d, sort_keys=True))
        rng = np.random.default_rng(ctx.seed + 1018)
        limit = 5000 if ctx.tier == 'thorough' else 700
        if len(docs) > limit:
            docs = [docs[j] for j in sorted(rng.choice(len(docs), limit, replace=False))]
        for d in docs:
            spec = {'kind': d['kind'], 'p': np.array(d['p'], dtype=float).T.tolist(),
                    't': (np.array(d['t']).T - 1).tolist(), 'bnd': None,
                    'sub': {'s': [int(k) - 1 for k in d['sub']]},
                    'bndv': {'b': [[int(v) - 1 for v in f] for f in d['fv']]}}
            op = d['op']
            if op in ('restrict', 'remove_elements'):
                steps = [{'op': op, 'elements': [int(k) - 1 for k in d['elements']]}]
            elif op == 'add':
                # the model's second operand: the same cells shifted by the extent of the mesh along x
                p = np.array(spec['p'])
                q = p.copy()
                q[0] += p[0].max() - p[0].min()
                steps = [{'op': 'add', 'other': {'kind': d['kind'], 'p': q.tolist(), 't': spec['t'], 'bnd': None,
                                                 'sub': None}}]
            elif op == 'remove_unused_nodes':
                lo = np.array(spec['p']).min(axis=1)
                n = len(spec['p'][0])
                steps = [{'op': 'setup', 'what': 'inject_unused', 'pos': [0, n + 1],
                          'pts': [(lo - 1).tolist(), (lo - 2).tolist()]}, {'op': op}]
            else:
                steps = [{'op': op, 'withx': 1} if op.startswith('to_meshtri') else {'op': op}]
            recs.append({'driver': 'surgery', 'mesh': spec, 'steps': steps, 'family': 'TLC-universe'})
    return recs


SUITE_FILES = ['tests/test_mesh.py', 'tests/test_examples.py', 'tests/test_assembly.py', 'tests/test_basis.py']


def from_suite(ctx):
    """thorough tier: the repository's own tests as drivers (harness/suite_io.py records the surgery operations they
    perform on small first-order meshes with exact coordinates); judged by the same Op clauses."""
    from .. import suite
    rec = suite.record(ctx, files=SUITE_FILES, plugins=['harness.suite_io'])
    evs = rec.get('c18', [])
    scs = [{'id': f'C18-suite-{k}', 'recipe': {'driver': 'suite', 'test': e.get('test', '')},
            'tags': {'family': 'suite'}, 'events': [e]} for k, e in enumerate(evs)]
    ctx.validate('TraceC18', scs, jvms=8)
    ops = {}
    for e in evs:
        ops[e['op']] = ops.get(e['op'], 0) + 1
    skipped = {}
    for d in rec.get('io_skipped', []):
        for k, v in d.items():
            if k.startswith('c18:'):
                skipped[k] = skipped.get(k, 0) + v
    ctx.notes['scenarios_from_repository_tests'] = len(scs)
    ctx.notes['suite_events_by_operation'] = ops
    ctx.notes['suite_skipped'] = skipped


def _machinery_guard(ctx):
    """an event TraceC18 cannot read is a defect of the harness (exit 2), never a verdict on the library."""
    for f in ctx.failures:
        if f['clause'] == 'HarnessInputWellFormed':
            raise MachineryError('harness produced a malformed C18 event: %s position %s'
                                 % (f['scenario']['id'], f['pos']))


def run(ctx):
    recs = model(ctx)
    n_tlc = len(recs)
    recs += generate(ctx.tier, ctx.seed)
    scs = [scenario(f'C18-{k}', r) for k, r in enumerate(recs)]
    ctx.validate('TraceC18', scs, jvms=8)
    if ctx.tier == 'thorough':
        from_suite(ctx)
    _machinery_guard(ctx)
    keys = {json.dumps(r, sort_keys=True) for r in recs
            if np.array(r['mesh']['t']).ndim == 2 and np.array(r['mesh']['t']).shape[1] >= 2}
    ctx.notes['distinct_nontrivial'] = len(keys)
    ctx.notes['scenarios_from_tlc_universe'] = n_tlc
    ctx.notes['events_per_operation'] = {k[3:]: ctx.clause_counts.pop(k) for k in list(ctx.clause_counts)
                                         if k.startswith('op_')}
    ctx.notes['skipped_geometric'] = sum(1 for s in scs for e in s['events'] if e.get('skipped'))
    ctx.notes['lattice_events'] = sum(1 for s in scs for e in s['events'] if e.get('lat'))
    return ctx.finish(rule=RULE, assumptions=[
        'operands are valid meshes (no duplicate points, no unused vertex) with convex, non-degenerate cells; '
        'inputs with unused / duplicate vertices are only handed to remove_unused_nodes / remove_duplicate_nodes',
        'hexahedra and prisms have planar faces; quadrilaterals are convex',
        'line meshes handed to the extrusion are connected and use all their points',
        'cell subsets handed to restrict / remove_elements hold each cell at most once',
        'coincident points are points whose coordinates are equal as numbers (0.0 and -0.0 coincide)',
        'coordinates, translations, scalings, mirror planes (axis normals) and morph maps (integer affine, '
        '|det| in 1..3) are integers or dyadic, so every coordinate is exact; generic float parameters are not covered',
        'conformity of the tetrahedra produced by to_meshtet across neighbouring cells is not part of Valid',
        'orientation flags are not demanded to survive surgery (the statement names cells and facets only)'],
        exhaustive=False)


def replay(ctx, doc):
    sc = doc['scenario']
    if sc.get('recipe', {}).get('driver') == 'model':
        ctx.model_must_hold('MC_C18', sc['recipe']['cfg'], env={'TIER': ctx.tier}, timeout=1500)
        return ctx.finish(rule=RULE)
    if sc.get('recipe', {}).get('driver') == 'suite':
        # recorded from the repository's tests: the recorded event is re-validated
        ctx.validate('TraceC18', [sc], jvms=8)
        _machinery_guard(ctx)
        return ctx.finish(rule=RULE)
    sc2 = scenario(sc['id'], sc['recipe'])
    ctx.validate('TraceC18', [sc2], jvms=8)
    _machinery_guard(ctx)
    return ctx.finish(rule=RULE)
