SPECIFICATION Spec
INVARIANT PiolaIdentities
CHECK_DEADLOCK FALSE
