-------------------------------- MODULE UtilsMisc --------------------------------
(* Small utilities of skfem/utils.py -- specification growth beyond the listed      *)
(* properties (DESIGN section 10, X06):                                             *)
(*   rcm(A, b)            -> (A', b', p): p is a permutation, A'[i][j] = A[p[i]][p[j]]*)
(*                           and b'[i] = b[p[i]] (the reordered SAME system)         *)
(*   adaptive_theta(est, theta, max) -> the cells whose indicator exceeds            *)
(*                           theta * max(est) (or theta * max), ascending            *)
(* Matrices are dense integer tables (row -> column -> value), ids 1-based,          *)
(* theta = thn / thd.                                                                *)
EXTENDS Prelude

IsPermutationOf(p, n) == Len(p) = n /\ {p[i] : i \in DOMAIN p} = 1..n
RcmClauses(e) ==
  IF e.err # "" THEN [UtilityAvailable |-> FALSE]
  ELSE LET n == Len(e.A) IN
  [ UtilityAvailable |-> TRUE,
    IsPermutation |-> IsPermutationOf(e.p, n),
    MatrixReordered |-> /\ Len(e.Ao) = n /\ IsPermutationOf(e.p, n)
                        /\ \A i \in 1..n : \A j \in 1..n : e.Ao[i][j] = e.A[e.p[i]][e.p[j]],
    VectorReordered |-> /\ Len(e.bo) = n /\ IsPermutationOf(e.p, n)
                        /\ \A i \in 1..n : e.bo[i] = e.b[e.p[i]],
    \* consequently x solves A x = b  iff  x[p] solves A' x' = b' : checked on the recorded integer vector x
    SameSystem |-> (IsPermutationOf(e.p, n) /\ Len(e.Ao) = n /\ Len(e.bo) = n) =>
         \A i \in 1..n : (SumSeq([j \in 1..n |-> e.Ao[i][j] * e.x[e.p[j]]]) - e.bo[i])
                       = (SumSeq([j \in 1..n |-> e.A[e.p[i]][j] * e.x[j]]) - e.b[e.p[i]]) ]

MaxOf(s) == MaxSet({s[i] : i \in DOMAIN s})
ThetaClauses(e) ==
  IF e.err # "" THEN [UtilityAvailable |-> FALSE]
  ELSE LET ref == IF e.hasmax = 1 THEN e.max ELSE MaxOf(e.est)
           want == {k \in DOMAIN e.est : e.thn * ref < e.thd * e.est[k]}
       IN
  [ UtilityAvailable |-> TRUE,
    MarkedExact |-> {e.res[i] : i \in DOMAIN e.res} = want,
    AscendingOnce |-> \A i \in 1..(Len(e.res) - 1) : e.res[i] < e.res[i + 1],
    \* with 0 <= theta < 1 and no explicit maximum the cell with the largest indicator is always marked
    LargestMarked |-> (e.hasmax = 0 /\ e.thn < e.thd /\ e.thn >= 0 /\ MaxOf(e.est) > 0) =>
                        \E i \in DOMAIN e.res : e.est[e.res[i]] = MaxOf(e.est) ]

UtilsClauses(e) == IF e.a = "Rcm" THEN RcmClauses(e) ELSE ThetaClauses(e)
==============================================================================
