-------------------------------- MODULE RGBOps --------------------------------
(* Operators of the red-green-blue refinement (skfem/mesh/mesh_tri_1.py:250-391) shared by the PlusCal model       *)
(* RGB.tla and by the trace specification (model-vs-code drift).                                                    *)
EXTENDS Refinement, MeshTopology

SqLen(a, b) == (a[1] - b[1]) * (a[1] - b[1]) + (a[2] - b[2]) * (a[2] - b[2])
\* _adaptive_sort_mesh: strict comparisons; default keeps (0,2)
SortCell(p, c) ==
  LET l01 == SqLen(p[c[1]], p[c[2]]) l12 == SqLen(p[c[2]], p[c[3]]) l02 == SqLen(p[c[1]], p[c[3]]) IN
  IF l01 > l02 /\ l01 > l12 THEN <<c[1], c[3], c[2]>>            \* rows 1 and 2 exchanged
  ELSE IF l12 > l01 /\ l12 > l02 THEN <<c[2], c[1], c[3]>>       \* rows 0 and 1 exchanged
  ELSE c
TriLF == <<<<1, 2>>, <<2, 3>>, <<1, 3>>>>
Mid(a, b) == [i \in DOMAIN a |-> (a[i] + b[i]) \div 2]
NMarked(f) == Cardinality({x \in DOMAIN f : f[x] = 1})


\* _adaptive_split_elements.  ix = new vertex id of the facet in slot s of cell k, 0 if the facet is not split (-1 in the code)
SplitImpl(m, T, F, T2F, fm, swapblue) ==
  LET nv   == Len(m.p)
      mf   == SortedSeq({f \in DOMAIN F : fm[f] = 1})
      newid(f) == nv + FirstPos(mf, f)
      ix(k, s) == IF fm[T2F[k][s]] = 1 THEN newid(T2F[k][s]) ELSE 0
      red    == SortedSeq({k \in DOMAIN T : ix(k, 1) > 0 /\ ix(k, 2) > 0 /\ ix(k, 3) > 0})
      blue1  == SortedSeq({k \in DOMAIN T : ix(k, 1) = 0 /\ ix(k, 2) > 0 /\ ix(k, 3) > 0})
      blue2  == SortedSeq({k \in DOMAIN T : ix(k, 1) > 0 /\ ix(k, 2) = 0 /\ ix(k, 3) > 0})
      green  == SortedSeq({k \in DOMAIN T : ix(k, 1) = 0 /\ ix(k, 2) = 0 /\ ix(k, 3) > 0})
      rest   == SortedSeq({k \in DOMAIN T : ix(k, 1) = 0 /\ ix(k, 2) = 0 /\ ix(k, 3) = 0})
      Blk(sel, f(_)) == [q \in DOMAIN sel |-> f(sel[q])]
      tred  == Blk(red, LAMBDA k : <<T[k][1], ix(k, 1), ix(k, 3)>>) \o Blk(red, LAMBDA k : <<T[k][2], ix(k, 1), ix(k, 2)>>)
            \o Blk(red, LAMBDA k : <<T[k][3], ix(k, 2), ix(k, 3)>>) \o Blk(red, LAMBDA k : <<ix(k, 2), ix(k, 3), ix(k, 1)>>)
      tb1   == Blk(blue1, LAMBDA k : <<T[k][2], T[k][1], ix(k, 3)>>) \o Blk(blue1, LAMBDA k : <<T[k][2], ix(k, 2), ix(k, 3)>>)
            \o Blk(blue1, LAMBDA k : <<T[k][3], ix(k, 3), ix(k, 2)>>)
      tb2   == Blk(blue2, LAMBDA k : <<T[k][1], ix(k, 1), ix(k, 3)>>)
            \o Blk(blue2, LAMBDA k : IF swapblue THEN <<ix(k, 3), ix(k, 1), T[k][3]>> ELSE <<ix(k, 3), ix(k, 1), T[k][2]>>)
            \o Blk(blue2, LAMBDA k : <<T[k][3], ix(k, 3), T[k][2]>>)
      tgr   == Blk(green, LAMBDA k : <<T[k][2], ix(k, 3), T[k][1]>>) \o Blk(green, LAMBDA k : <<T[k][3], ix(k, 3), T[k][2]>>)
      newt  == Blk(rest, LAMBDA k : T[k]) \o tred \o tb1 \o tb2 \o tgr
      newp  == m.p \o [q \in DOMAIN mf |-> Mid(m.p[F[mf[q]][1]], m.p[F[mf[q]][2]])]
      \* sub-domain map new_t (rows = children, columns = old cells)
      nrest == Len(rest) nred == Len(red) nb1 == Len(blue1) nb2 == Len(blue2) ngr == Len(green)
      Children(k) ==
        IF FirstPos(rest, k) > 0 THEN {FirstPos(rest, k)}
        ELSE IF FirstPos(red, k) > 0 THEN {nrest + b * nred + FirstPos(red, k) : b \in 0..3}
        ELSE IF FirstPos(blue1, k) > 0 THEN {nrest + 4 * nred + b * nb1 + FirstPos(blue1, k) : b \in 0..2}
        ELSE IF FirstPos(blue2, k) > 0 THEN {nrest + 4 * nred + 3 * nb1 + b * nb2 + FirstPos(blue2, k) : b \in 0..2}
        ELSE IF FirstPos(green, k) > 0 THEN {nrest + 4 * nred + 3 * nb1 + 3 * nb2 + b * ngr + FirstPos(green, k) : b \in 0..1}
        ELSE {}
      newsub == [q \in DOMAIN m.sub |-> <<m.sub[q][1], SortedSeq(UNION {Children(k) : k \in VSet(m.sub[q][2])})>>]
  IN [kind |-> "tri", cls |-> m.cls, p |-> newp,
      t |-> [j \in DOMAIN newt |-> SortedSeq(VSet(newt[j]))],           \* replace(): MeshTri1 re-sorts (sort_t = True)
      sub |-> newsub, bnd |-> <<>>, hassub |-> m.hassub, hasbnd |-> 0]


\* one iteration of the closure loop (mesh_tri_1.py:283-287)
CloseStep(T, T2F, fm) ==
  [f \in DOMAIN fm |->
     IF fm[f] = 1 THEN 1
     ELSE IF \E k \in DOMAIN T : T2F[k][3] = f /\ (fm[T2F[k][1]] = 1 \/ fm[T2F[k][2]] = 1) THEN 1
     ELSE 0]
RECURSIVE CloseFix(_, _, _)
CloseFix(T, T2F, fm) == LET g == CloseStep(T, T2F, fm) IN IF g = fm THEN fm ELSE CloseFix(T, T2F, g)

\* the whole of MeshTri1._adaptive as one operator (used to compare the model's result with the code's: drift)
AdaptiveImpl(m, marked) ==
  LET T   == [k \in DOMAIN m.t |-> SortCell(m.p, m.t[k])]
      be  == BuildEntitiesImpl(T, TriLF, TRUE)
      fm0 == [f \in DOMAIN be.ents |-> IF \E q \in DOMAIN marked : \E s \in 1..3 : be.mapping[marked[q]][s] = f THEN 1 ELSE 0]
  IN SplitImpl(m, T, be.ents, be.mapping, CloseFix(T, be.mapping, fm0), FALSE)
==============================================================================
