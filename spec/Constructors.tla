------------------------------ MODULE Constructors ------------------------------
(* Tensor-product constructors and default tags (Mesh*.init_tensor,                *)
(* Mesh.with_defaults / _build_default_tags) -- specification growth beyond the    *)
(* listed properties (DESIGN section 10, X05).                                     *)
(*                                                                                 *)
(* Event: [kind, grids (the coordinate sequences as passed, integers, distinct),    *)
(* p, t, facets, f2t (code tables, 0 = no neighbour), tags (<<name, facet ids>>),   *)
(* err].                                                                           *)
EXTENDS MeshTopology

DimG(e) == Len(e.grids)
GSet(e, d) == VSet(e.grids[d])
\* the boxes: per dimension a pair of consecutive grid values
Consecutive(S) == {<<a, b>> \in S \X S : a < b /\ ~\E c \in S : a < c /\ c < b}
Boxes(e) == IF DimG(e) = 1 THEN {<<iv>> : iv \in Consecutive(GSet(e, 1))}
            ELSE IF DimG(e) = 2 THEN Consecutive(GSet(e, 1)) \X Consecutive(GSet(e, 2))
            ELSE Consecutive(GSet(e, 1)) \X Consecutive(GSet(e, 2)) \X Consecutive(GSet(e, 3))
InBox(pt, bx) == \A d \in DOMAIN bx : pt[d] \in {bx[d][1], bx[d][2]}
CellInBox(e, k, bx) == \A i \in DOMAIN e.t[k] : InBox(e.p[e.t[k][i]], bx)
CellsOfBox(e, bx) == {k \in 1..NT(e) : CellInBox(e, k, bx)}
BoxVol(bx) == IF Len(bx) = 1 THEN bx[1][2] - bx[1][1]
              ELSE IF Len(bx) = 2 THEN (bx[1][2] - bx[1][1]) * (bx[2][2] - bx[2][1])
              ELSE (bx[1][2] - bx[1][1]) * (bx[2][2] - bx[2][1]) * (bx[3][2] - bx[3][1])

VecC(e, a, b) == [d \in 1..DimG(e) |-> e.p[b][d] - e.p[a][d]]
Det2(u, v) == u[1] * v[2] - u[2] * v[1]
Det3(u, v, w) == u[1] * (v[2] * w[3] - v[3] * w[2]) - u[2] * (v[1] * w[3] - v[3] * w[1]) + u[3] * (v[1] * w[2] - v[2] * w[1])
\* d! times the measure of a simplex cell
SimplexVolFact(e, k) == LET c == e.t[k] IN
   IF DimG(e) = 1 THEN Abs(e.p[c[2]][1] - e.p[c[1]][1])
   ELSE IF DimG(e) = 2 THEN Abs(Det2(VecC(e, c[1], c[2]), VecC(e, c[1], c[3])))
   ELSE Abs(Det3(VecC(e, c[1], c[2]), VecC(e, c[1], c[3]), VecC(e, c[1], c[4])))
Fact(n) == IF n = 1 THEN 1 ELSE IF n = 2 THEN 2 ELSE 6
IsSimplex(e) == e.kind \in {"line", "tri", "tet"}
PerBox(e) == CASE e.kind = "tri" -> 2 [] e.kind = "tet" -> 6 [] OTHER -> 1

Lo(e, d) == MinSet(GSet(e, d))
Hi(e, d) == MaxSet(GSet(e, d))
OnSide(e, f, d, val) == \A i \in DOMAIN e.facets[f] : e.p[e.facets[f][i]][d] = val
OnHull(e, f) == \E d \in 1..DimG(e) : OnSide(e, f, d, Lo(e, d)) \/ OnSide(e, f, d, Hi(e, d))
MinNames == <<"left", "bottom", "front">>
MaxNames == <<"right", "top", "back">>
TagOf(e, name) == IF \E j \in DOMAIN e.tags : e.tags[j][1] = name
                  THEN VSet((CHOOSE tg \in VSet(e.tags) : tg[1] = name)[2]) ELSE {}
HasTag(e, name) == \E j \in DOMAIN e.tags : e.tags[j][1] = name

GridWF(e) == /\ DimG(e) \in 1..3 /\ \A d \in 1..DimG(e) : IsInjectiveSeq(e.grids[d]) /\ Len(e.grids[d]) >= 2
             /\ \A v \in DOMAIN e.p : Len(e.p[v]) = DimG(e)
             /\ \A k \in 1..NT(e) : \A i \in DOMAIN e.t[k] : e.t[k][i] \in DOMAIN e.p
             /\ \A f \in 1..NF(e) : \A i \in DOMAIN e.facets[f] : e.facets[f][i] \in DOMAIN e.p

ConstructorClauses(e) ==
  IF e.err # "" THEN [ConstructorAvailable |-> FALSE]
  ELSE IF ~GridWF(e) THEN [HarnessInputWellFormed |-> FALSE]
  ELSE
  [ ConstructorAvailable |-> TRUE,
    \* the vertices are the grid points, each once
    PointsAreGridOnce |-> /\ IsInjectiveSeq(e.p)
                          /\ \A v \in DOMAIN e.p : \A d \in 1..DimG(e) : e.p[v][d] \in GSet(e, d)
                          /\ Len(e.p) = (IF DimG(e) = 1 THEN Len(e.grids[1])
                                         ELSE IF DimG(e) = 2 THEN Len(e.grids[1]) * Len(e.grids[2])
                                         ELSE Len(e.grids[1]) * Len(e.grids[2]) * Len(e.grids[3])),
    \* every cell lies in one grid box and every box holds the advertised number of cells
    CellsInBoxes |-> \A k \in 1..NT(e) : \E bx \in Boxes(e) : CellInBox(e, k, bx),
    CellsPerBox  |-> \A bx \in Boxes(e) : Cardinality(CellsOfBox(e, bx)) = PerBox(e),
    \* the cells of a box fill it: simplices by measure, tensor cells by having all its corners
    BoxesFilled |-> \A bx \in Boxes(e) :
         IF IsSimplex(e) THEN SumOver([k \in CellsOfBox(e, bx) |-> SimplexVolFact(e, k)], CellsOfBox(e, bx)) = Fact(DimG(e)) * BoxVol(bx)
         ELSE \A k \in CellsOfBox(e, bx) : Cardinality(VSet(e.t[k])) = Len(e.t[k]),
    NoDegenerateCell |-> IsSimplex(e) => \A k \in 1..NT(e) : SimplexVolFact(e, k) > 0,
    \* conforming: a facet has a single neighbour exactly when it lies on a side of the bounding box
    BoundaryIsHull |-> \A f \in 1..NF(e) : (e.f2t[f][2] = 0) <=> OnHull(e, f),
    \* default tags designate exactly the facets of the respective side
    DefaultTagsExact |-> \A d \in 1..DimG(e) :
         /\ TagOf(e, MinNames[d]) = {f \in 1..NF(e) : OnSide(e, f, d, Lo(e, d))}
         /\ TagOf(e, MaxNames[d]) = {f \in 1..NF(e) : OnSide(e, f, d, Hi(e, d))},
    NoOtherTags |-> \A j \in DOMAIN e.tags : \E d \in 1..DimG(e) : e.tags[j][1] \in {MinNames[d], MaxNames[d]} ]
==============================================================================
