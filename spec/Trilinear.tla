------------------------------- MODULE Trilinear -------------------------------
(* Trilinear forms (skfem/assembly/form/trilinear_form.py) -- the three-index     *)
(* instance of the assembly algorithm; specification growth beyond the listed     *)
(* properties (DESIGN section 10, X04).                                           *)
(*                                                                                *)
(* Event: [nt, nbu, nbv, nbw, nu, nv, nw (global sizes), edu, edv, edw (cell ->    *)
(* local -> global DOF, 1-based), idx (the COO index triples in the order the code *)
(* returns them), shape, lshape, and the laws' numbers in fixed point:            *)
(* contr = sum T[i,j,k] w_i v_j u_k,  direct = the same integrand evaluated on the  *)
(* interpolated functions and integrated by the library (Functional),             *)
(* viabil = v^T A(w) u with A assembled as a BilinearForm carrying w as a field,   *)
(* mag = an integer bound of the magnitude].                                       *)
EXTENDS Prelude, Fx

\* the code fills arrays of shape (nbu, nbv, nbw, nt) and flattens them in C order
PosOf(e, k, j, i, c) == (((k - 1) * e.nbv + (j - 1)) * e.nbw + (i - 1)) * e.nt + c

TriWF(e) == /\ Len(e.edu) = e.nt /\ Len(e.edv) = e.nt /\ Len(e.edw) = e.nt
            /\ \A c \in 1..e.nt : Len(e.edu[c]) = e.nbu /\ Len(e.edv[c]) = e.nbv /\ Len(e.edw[c]) = e.nbw
            /\ FxWF(e.contr) /\ FxWF(e.direct) /\ FxWF(e.viabil)

TrilinearClauses(e) ==
  IF e.err # "" THEN [AssemblyAvailable |-> FALSE]
  ELSE IF ~TriWF(e) THEN [HarnessInputWellFormed |-> FALSE]
  ELSE
  [ AssemblyAvailable |-> TRUE,
    \* one stored entry per (local u, local v, local w, cell)
    EntryCount |-> Len(e.idx) = e.nbu * e.nbv * e.nbw * e.nt,
    \* entry (k, j, i, c) is addressed by (w-DOF i, v-DOF j, u-DOF k) of cell c
    IndexBookkeeping |-> /\ Len(e.idx) = e.nbu * e.nbv * e.nbw * e.nt
                         /\ \A c \in 1..e.nt : \A k \in 1..e.nbu : \A j \in 1..e.nbv : \A i \in 1..e.nbw :
                               e.idx[PosOf(e, k, j, i, c)] = <<e.edw[c][i], e.edv[c][j], e.edu[c][k]>>,
    GlobalShape |-> e.shape = <<e.nw, e.nv, e.nu>>,
    LocalShape  |-> e.lshape = <<e.nbu, e.nbv, e.nbw>>,
    IndicesInRange |-> \A q \in DOMAIN e.idx : e.idx[q][1] \in 1..e.nw /\ e.idx[q][2] \in 1..e.nv /\ e.idx[q][3] \in 1..e.nu,
    \* the tensor represents the form: contraction with coefficient vectors = the integrand on the discrete functions
    RepresentsForm |-> FxNear(e.contr, e.direct, FxMulSmall(FxTol(34), e.mag)),
    \* freezing the third argument gives the bilinear form with that function as a coefficient field
    ConsistentWithBilinear |-> FxNear(e.contr, e.viabil, FxMulSmall(FxTol(34), e.mag)) ]
==============================================================================
