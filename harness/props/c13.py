"""C13 - adaptive refinement: conforming and domain-preserving for every marked set.

V : for small triangle / segment / tetrahedral meshes EVERY marked subset is refined by the real code (exhaustive on
    the 8-triangle lattice meshes, on segments and on one cube of tetrahedra), plus sequences of adaptive and uniform
    steps and random integer Delaunay meshes; every step is validated by spec/TraceC13.tla against the relational
    clauses of spec/Refinement.tla (exact integer geometry; numbering-free).
M : spec/MC_C13.cfg - TLC explores the red-green-blue algorithm (spec/RGB.tla: longest-edge sort, closure loop, split
    templates, sub-domain map) for every marked subset of the lattice meshes: clauses + termination (liveness).
"""
import itertools
import json
import os

import numpy as np

from .. import universe as U
from ..core import MachineryError
from ..refine_common import execute, tagged
from .c12 import add_event_tags, conforming_2d, _check_harness

RULE = ('scenario = tagged initial mesh + marked set (+ further adaptive/uniform steps); exhaustive over all marked '
        'subsets for the small meshes; one event per refinement step. Non-trivial = at least one marked cell and a mesh '
        'with >= 2 cells; distinct = distinct (class, p, t, tags, ops).')


def all_subsets(n, rng, cap):
    subs = [s for r in range(1, n + 1) for s in itertools.combinations(range(n), r)]
    if len(subs) > cap:
        keep = [subs[j] for j in sorted(rng.choice(len(subs), size=cap, replace=False))]
        subs = keep + [tuple(range(n))]
    return subs


def generate(tier, seed):
    rng = np.random.default_rng(seed + 13)
    thorough = tier == 'thorough'
    recs = []

    counter = [0]

    def add(kind, cls, p, t, subsets, follow=None):
        base = tagged(kind, cls, p, t, rng, nbnd=1)
        for s in subsets:
            r = dict(base)
            mk = [int(v) for v in s]
            counter[0] += 1
            if counter[0] % 4 == 0:
                mk = mk[::-1]                      # a SET of cells: the order in which it is listed must not matter
            elif counter[0] % 4 == 2 and len(mk) > 2:
                mk = [mk[j] for j in rng.permutation(len(mk))]
            r['ops'] = [['adapt', mk]] + (follow or [])
            if counter[0] % 7 == 0:
                r['marked_as'] = 'list'
            elif counter[0] % 7 == 3:
                r['marked_as'] = 'int64'
            if counter[0] % 9 == 0:
                r['ops'][0][1] = mk + [mk[0]]       # the set listed with a repetition (e.g. f2t[0, facets])
            recs.append(r)

    # segments: every marked subset
    for pts in ([0, 1, 2, 3, 4], [0, 2, 3, 7]):
        p, t = U.line_points(pts)
        add('line', 'MeshLine1', p, t, all_subsets(t.shape[1], rng, 100))
    p, t = U.line_points([0, 1, 2, 4, 5])
    p, t = U.submesh(p, t, [0, 1, 3])
    add('line', 'MeshLine1', p, t, all_subsets(3, rng, 100))
    # segments with scrambled vertex numbers, right-to-left cells and cells listed out of order
    p, t = U.line_points([0, 1, 2, 4, 7])
    p, t = U.renumber(p, t, rng.permutation(p.shape[1]))
    t = U.permute_cells(t, rng.permutation(t.shape[1]))
    t[:, ::2] = t[::-1, ::2]
    add('line', 'MeshLine1', p, t, all_subsets(t.shape[1], rng, 100), [['adapt', [0, 2, 4]], ['refine', 1]])
    # 8-triangle lattice meshes: every marked subset (255) for two diagonal patterns in quick, all 16 in thorough
    diag_sets = list(itertools.product((0, 1), repeat=4))
    chosen = diag_sets if thorough else [(0, 0, 0, 0), (0, 1, 1, 0)]
    for dg in chosen:
        p, t = U.tri_lattice(2, 2, dg)
        add('tri', 'MeshTri1', p, t, all_subsets(8, rng, 255 if (thorough or dg == (0, 1, 1, 0)) else 60))
    # anisotropic / jiggled (distinct edge lengths -> other longest edges)
    p, t = U.tri_lattice(2, 2, (1, 0, 0, 1), jiggle=[(4, 0.25, 0.5)])
    add('tri', 'MeshTri1', p * 4, t, all_subsets(8, rng, 255 if thorough else 40))
    p, t = U.tri_lattice(2, 1, (0, 1))
    p = p * np.array([[3], [1]])
    add('tri', 'MeshTri1', p, t, all_subsets(4, rng, 100))
    for j in range(10 if thorough else 3):
        p, t = U.delaunay_int(2, int(rng.integers(5, 10)), 6, rng)
        if t.shape[1] >= 2 and conforming_2d(p, t):
            add('tri', 'MeshTri1', p, t, all_subsets(t.shape[1], rng, 30 if thorough else 8))
    # sequences: adaptive then adaptive / uniform
    for dg in ((0, 1, 1, 0), (1, 1, 0, 0)):
        p, t = U.tri_lattice(2, 2, dg)
        for k in range(40 if thorough else 10):
            m1 = sorted(int(v) for v in rng.choice(8, size=int(rng.integers(1, 5)), replace=False))
            m2 = sorted(int(v) for v in rng.choice(12, size=int(rng.integers(1, 6)), replace=False))
            follow = [['adapt', m2]] + ([['refine', 1]] if k % 2 == 0 else [['adapt', [0, 1, 2]]])
            add('tri', 'MeshTri1', p, t, [m1], follow)
    p, t = U.line_points([0, 1, 2, 3])
    for k in range(10):
        m1 = sorted(int(v) for v in rng.choice(3, size=int(rng.integers(1, 3)), replace=False))
        add('line', 'MeshLine1', p, t, [m1], [['adapt', [0, 2, 3]], ['refine', 1], ['adapt', [1, 5]]])
    # the same object used twice (earlier results discarded), oriented / non-ascending connectivity
    for dg in ((0, 1, 1, 0), (1, 0, 0, 1)):
        p, t = U.tri_lattice(2, 2, dg)
        for k in range(12 if thorough else 4):
            m1 = sorted(int(v) for v in rng.choice(8, size=int(rng.integers(1, 5)), replace=False))
            m2 = sorted(int(v) for v in rng.choice(8, size=int(rng.integers(1, 5)), replace=False))
            base = tagged('tri', 'MeshTri1', p, t, rng, nbnd=1)
            for ops in ([['side', ['facets', 0]], ['side', ['adapt', m1]], ['adapt', m2]],
                        [['side', ['facets', 0]], ['side', ['refine', 1]], ['adapt', m2]],
                        # an adaptive step whose result is dropped, then a UNIFORM step from the same object, then adaptive
                        [['side', ['facets', 0]], ['side', ['adapt', m1]], ['refine', 1], ['adapt', m2]],
                        [['side', ['adapt', m2]], ['side', ['adapt', m1]], ['refine', 1]],
                        [['oriented', 0], ['adapt', m1], ['adapt', m2]]):
                r = dict(base)
                r['ops'] = ops
                recs.append(r)
        t2 = U.apply_local_orders('tri', np.asarray(t), rng)
        b2 = tagged('tri', 'MeshTri1', p, t2, rng, nbnd=1)
        b2['sort_t'] = False
        for s in all_subsets(8, rng, 12):
            r = dict(b2)
            r['ops'] = [['adapt', [int(v) for v in s]]]
            recs.append(r)
    p, t = U.tet_cubes(1, 6)
    for k in range(6 if thorough else 2):
        m1 = sorted(int(v) for v in rng.choice(6, size=2, replace=False))
        base = tagged('tet', 'MeshTet1', p, t, rng, nbnd=1)
        for ops in ([['side', ['facets', 0]], ['side', ['adapt', m1]], ['adapt', [0, 4]]], [['oriented', 0], ['adapt', m1]]):
            r = dict(base)
            r['ops'] = ops
            recs.append(r)
    # tetrahedra: one cube, every marked subset
    for split in (6, 5):
        p, t = U.tet_cubes(1, split)
        add('tet', 'MeshTet1', p, t, all_subsets(t.shape[1], rng, 63 if thorough else 20))
    p, t = U.tet_cubes(1, 6)
    for k in range(12 if thorough else 3):
        m1 = sorted(int(v) for v in rng.choice(6, size=int(rng.integers(1, 4)), replace=False))
        add('tet', 'MeshTet1', p, t, [m1], [['adapt', [0, 3, 5]]] + ([['refine', 1]] if thorough and k % 4 == 0 else []))
    if thorough:
        p, t = U.tet_cubes(2, 6)
        add('tet', 'MeshTet1', p, t, all_subsets(12, rng, 40))
    # a small cell next to an elongated neighbour: the closure needs many bisections (capacity of work arrays)
    for far in ((4, 8) if thorough else (4,)):
        P = np.array([[0, 0, 0], [1, 0, 0], [0, 1, 0], [0, 0, 1], [far, far, far]], dtype=float).T
        T = np.array([[0, 1, 2, 3], [1, 2, 3, 4]]).T
        add('tet', 'MeshTet1', P, T, [(0,), (1,), (0, 1)])
    P = np.array([[0, 0], [1, 0], [0, 1], [8, 8]], dtype=float).T
    T = np.array([[0, 1, 2], [1, 2, 3]]).T
    add('tri', 'MeshTri1', P, T, [(0,), (1,), (0, 1)])
    # the same, STRONGLY stretched (closure of several dozen to hundreds of bisections: every work array of the tetrahedral
    # algorithm has to grow).  The exact coordinates would overflow TLC's integers, so these scenarios are judged on a
    # piecewise affine image with small integer vertices (refine_common.ModelMap): apex (far, far, far) -> (1, 1, 1).
    n0 = len(recs)
    for far in ((40, 44, 48) if thorough else (48,)):
        P = np.array([[0, 0, 0], [1, 0, 0], [0, 1, 0], [0, 0, 1], [far, far, far]], dtype=float).T
        T = np.array([[0, 1, 2, 3], [1, 2, 3, 4]]).T
        add('tet', 'MeshTet1', P, T, [(0,), (1,)] if not thorough else [(0,), (1,), (0, 1)])
    for r in recs[n0:]:
        r['model_p'] = [[0, 1, 0, 0, 1], [0, 0, 1, 0, 1], [0, 0, 0, 1, 1]]
        r['family'] = 'stretched-model'
    n0 = len(recs)
    for far in ((64, 500) if thorough else (64,)):
        P = np.array([[0, 0], [1, 0], [0, 1], [far, far]], dtype=float).T
        T = np.array([[0, 1, 2], [1, 2, 3]]).T
        add('tri', 'MeshTri1', P, T, [(0,), (1,)])
    for r in recs[n0:]:
        r['model_p'] = [[0, 1, 0, 1], [0, 0, 1, 1]]
        r['family'] = 'stretched-model'
    # trailing points used by no cell (stray nodes of a mesh file)
    for kind_, cls_, (p_, t_) in (('line', 'MeshLine1', U.line_points([0, 1, 2, 3])), ('tri', 'MeshTri1', U.tri_lattice(2, 1, (0, 1))),
                                  ('tet', 'MeshTet1', U.tet_cubes(1, 5))):
        extra = np.full((p_.shape[0], 2), 7.0)
        extra[0, 1] = 9.0
        add(kind_, cls_, np.hstack((p_, extra)), t_, all_subsets(t_.shape[1], rng, 6))
    # second-order classes
    p, t = U.tri_lattice(2, 1, (0, 1))
    add('tri', 'MeshTri2', p, t, all_subsets(4, rng, 15))
    p, t = U.tet_cubes(1, 6)
    add('tet', 'MeshTet2', p, t, all_subsets(6, rng, 6))
    return recs


def scenario(sid, rec):
    return {'id': sid, 'recipe': rec,
            'tags': {'cls': rec['cls'], 'kind': rec['kind'], 'ops': '+'.join(o[0] for o in rec['ops'])},
            'events': execute(rec)}


def run(ctx):
    if os.path.exists(os.path.join(os.path.dirname(__file__), '..', '..', 'spec', 'MC_C13.cfg')):
        from . import c13_model
        c13_model.run_models(ctx)
    recs = generate(ctx.tier, ctx.seed)
    scs = [scenario(f'C13-{k}', r) for k, r in enumerate(recs)]
    nj = 0
    for sc in scs:                                      # steps whose exact image is beyond TLC's integer range (counted)
        nj += sum(1 for e in sc['events'] if e.get('a') == 'NotJudged')
        sc['events'] = [e for e in sc['events'] if e.get('a') != 'NotJudged']
    scs = [sc for sc in scs if sc['events']]
    ctx.notes['steps_not_judged_model_image_too_fine'] = nj
    add_event_tags(scs)
    if ctx.tier == 'thorough':
        # refinement calls made by the repository's own tests (recorded under wrappers), judged by the same clauses
        from .. import suite
        ev = suite.record(ctx)
        for j, e in enumerate(ev['refine']):
            if e['a'] != 'Adapt':
                continue
            e['tags'] = {'step': e['op'], 'pre_cls': e['pre']['cls']}
            scs.append({'id': f'C13-suite-{j}', 'recipe': {'driver': 'suite', 'test': e.pop('test', '')},
                        'tags': {'cls': e['pre']['cls'], 'kind': e['pre']['kind'], 'ops': 'suite'}, 'events': [e]})
    ctx.validate('TraceC13', scs)
    _check_harness(ctx)
    ctx.notes['distinct_nontrivial'] = len({json.dumps(r, sort_keys=True) for r in recs if len(r['t'][0]) >= 2})
    return ctx.finish(rule=RULE, assumptions=[
        'initial meshes are valid, conforming, straight-sided, with integer coordinates (exact geometry)',
        'termination on the real code = the call returned within the per-call alarm (30 s)'], exhaustive=False)


def replay(ctx, doc):
    sc = doc['scenario']
    scs = [scenario(sc['id'], sc['recipe'])]
    for s_ in scs:
        s_['events'] = [e for e in s_['events'] if e.get('a') != 'NotJudged']
    add_event_tags(scs)
    ctx.validate('TraceC13', scs)
    _check_harness(ctx)
    return ctx.finish(rule=RULE)
