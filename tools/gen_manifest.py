#!/usr/bin/env python3
"""Regenerates /verif/MANIFEST.json from the table below (single source for the interface file)."""
import json, os
HERE = os.path.dirname(os.path.dirname(os.path.abspath(__file__)))
BASE_OFF = ("cd /repo && env -u SKFEM_VERIF /venv/bin/python -m pytest -ra -q -p no:cacheprovider --timeout=900 "
            "--continue-on-collection-errors")
TRUST = ("TLC 1.8.0 + CommunityModules (Json/IOUtils) and the JVM; numpy/scipy as used by the library; the Python "
         "projection pi and the scenario drivers (they choose inputs and change representation, they contain no "
         "oracle); bounded universes stated in the evidence.")

# id -> (technique, level text, design_ref, note, has_thorough)
CHECKS = {}

def add(pid, technique, text, ref, note=None):
    note = note or TRUST
    CHECKS[pid] = dict(technique=technique, text=text, ref=ref, note=note)

add('C11', 'TLA+ spec MeshTopology: TLC model checking of the build_entities/build_inverse transcription over '
    'lattice universes + replay of the TLC-enumerated meshes on the real Mesh classes + TLC trace validation of '
    'recorded connectivity tables',
    'Every relational C11 clause (entities unique, slot-wise t2f/t2e, f2t exact, f2e, boundary facets/nodes/edges, '
    'partition, incidence matrices, hexahedral cycles, numbering independence) is decided by TLC: on the model for '
    'all meshes of the universes, and on the tables the real code reports for those meshes (spec->code replay) and for '
    'random integer Delaunay / renumbered / re-ordered meshes (code->spec). Bounded-exhaustive, not a proof.',
    'DESIGN.md section 5 C11')

add('C05', 'TLA+ spec BC: TLC model checking of the enforce/condense/penalize/expand transcriptions over every stored '
    'pattern of n<=3 systems and every ordered constrained set + replay of the TLC-enumerated systems on the real '
    'helpers + TLC trace validation of recorded calls (exact integer universe; real-solver pipelines in fixed point)',
    'TLC decides every C05 clause (constrained rows exactly diag*e_i incl. rows without stored entries, other rows '
    'untouched, right-hand sides, condensed matrix/rhs entrywise = same-solution identity, expansion, eigen reduction, '
    'penalize rows/rhs, operands unchanged, split equivalence across I/D and ndarray/DofsView/dict forms) on the model '
    'exhaustively for n<=3 and on every recorded call of the real code for TLC-exported and random integer systems '
    'n<=10. The pre-repair enforce formula is kept as a regression model and is refuted by TLC.',
    'DESIGN.md section 5 C05')

add('C16', 'PlusCal/TLA+ model AssemblyThreads of the threaded kernel: TLC explores every interleaving of the workers '
    'Read/Write steps (invariants + liveness, three named deviations refuted); every TLC behaviour for the small shapes '
    'is exported and FORCED onto the real BilinearForm(nthreads=k) by blocking kernels inside the integrand callback; '
    'recorded enter/exit/return logs and results are validated by TLC',
    'Within kernel granularity, all interleavings for local shapes up to 3x3 and thread counts 1..NU*NV+2 are model '
    'checked (ChunksPartitionPairs, SingleWriter, SharedInputsUnchanged, NoFlattenBeforeJoin, EachPairOnce, '
    'EqualsSerial, Terminates under fairness). The same behaviours (all of them for the small shapes, random ones and '
    'stall schedules for larger shapes) are executed on the real code under a forcing controller and each execution is '
    'judged by TLC against the property-level clauses (bit-identical to serial assembly).',
    'DESIGN.md section 5 C16')

add('C12', 'TLA+ spec Refinement/GeomRefine (relational post-conditions, exact integer geometry, numbering-free) + '
    'UniformOps (transcriptions of segment/triangle/quadrilateral refinement incl. facet maps and generic sub-domain '
    'propagation): TLC model checking Impl => clauses over the lattice universes with every facet and cell tagged '
    '(pre-repair propagation refuted) + TLC trace validation of every uniform refinement step recorded from the real '
    'Mesh classes, incl. histories and second-order classes; model-vs-code drift measured (0)',
    'TLC decides on every recorded step: valid mesh, no degenerate/twisted cells, conforming (facets in <= 2 cells, no '
    'hanging nodes), count 2^(d k), every child inside a parent, same total measure, boundary preserved, old vertices '
    'kept, sub-domains and boundaries designate the same point sets or are dropped with a logged warning. '
    'Bounded: tagged universe meshes of all cell types, k <= 2.',
    'DESIGN.md section 5 C12')
add('C13', 'PlusCal/TLA+ model RGB of red-green-blue refinement (longest-edge sort, closure loop one step per iteration, '
    'split templates, sub-domain map): TLC checks clauses, least fix-point and termination (liveness) for EVERY marked '
    'subset of the lattice meshes, two named deviations refuted + TLC trace validation of adaptive refinement steps of '
    'the real code for every marked subset of small triangle / segment / tetrahedral meshes, sequences, second-order '
    'classes; model-vs-code drift measured (0)',
    'TLC decides on every recorded step: valid, non-degenerate, conforming, domain preserved (children inside parents, '
    'same measure, boundary preserved), marked cells subdivided, old vertices kept, sub-domains cover the same regions, '
    'termination within the alarm. Exhaustive over marked subsets for the 8-triangle lattice meshes, segments and one '
    'cube of tetrahedra; sampled beyond.',
    'DESIGN.md section 5 C13')

add('C15', 'TLA+ spec Cache (memoisation automata with the code\'s hit conditions; NoStale model checked, pre-repair hit '
    'conditions refuted) + TLC-enumerated histories over a shared object pool executed on the real code and compared, '
    'by TLC, with fresh-interpreter references; operand checksums before/after',
    'TLC enumerates every history up to length 2 (quick) / 3 (thorough) over ~100 operation instances in 7 groups '
    '(elements with per-mesh / per-point tables, mappings, mesh tables and transformations, bases, quadrature across '
    'cell types, solver factories, boundary-condition helpers); each is run on a long-lived pool; for every operation '
    'TLC requires digest(pooled result) = digest(same operation on fresh objects in a fresh interpreter) and operand '
    'arrays bit-for-bit unchanged. Random longer and cross-group histories extend this. Memoisation in code the '
    'operation alphabet does not reach is not observed.',
    'DESIGN.md section 5 C15')

add('C04', 'TLA+ spec Dofs (NumberDofsImpl transcription of Dofs.__init__ + relational clauses): TLC model checking over '
    'every admissible DOF signature x universe meshes + replay of the TLC-enumerated (mesh, signature) pairs on the real '
    'Dofs/CellBasis with signature-only elements + TLC trace validation of the tables recorded for every exported '
    'element class and wrapper; sparsity of assembled matrices',
    'TLC decides Contiguous, AttachedUnique, SharedIff, InteriorUnique, RowOrder, TableShapes, DofLocsCoherent (exact, '
    'or fixed point 2^-40 for non-dyadic reference locations), ShapeOK and SparsityLocal on the model for every signature '
    'with counts in {0,1,2} and on the tables the real code reports (universe, renumbered, second-order and integer '
    'Delaunay meshes; all exported elements incl. vector/composite/DG wrappers). Model-vs-code drift 0.',
    'DESIGN.md section 5 C04')
add('C07', 'TLA+ spec Dofs (closure semantics of get_dofs, selector normalisation, name -> row translation, DofsView '
    'algebra): TLC model checking over every facet / cell / vertex subset x named signatures x skip/keep sets '
    '(pre-repair name offsets refuted) + replay on the real Basis.get_dofs in all equivalent selector forms + TLC trace '
    'validation; TraceSupport law in fixed point',
    'TLC decides ExactClosure, ArgumentFreeIsBoundary, SkipFilter, NameFilter, ByKindNames, UnionView, '
    'ComplementIsComplement on the model exhaustively for the small universes, and on the real code additionally '
    'SelectorFormsAgree (index arrays, midpoint predicates, tag names, collections, elements=, nodes=) and TraceSupport '
    '(DOFs with non-zero trace on the selected facets are returned; Lagrange H1 by value, RT/BDM normal, Nedelec '
    'tangential component).',
    'DESIGN.md section 5 C07')

add('C08', 'TLA+ spec Numeric/Quadrature: exact reference-cell monomial moments as fixed-point limb vectors (oracle in '
    'TLA+); COMPLETE enumeration of every (reference cell, order) the library offers x every promised monomial; moments of '
    'the returned rule computed in exact rational arithmetic from the returned floats and compared by TLC; design-level '
    'model of the Gauss/tensor constructions (MC_C08)',
    'Finite space enumerated completely (exhaustive: true): 7 cell kinds, orders -1 .. tables+3. TLC decides '
    'WeightsSumToMeasure, NodesInCell, ExactToDegree, RefusesOutsideTable with tolerance 2^-42 of the cell measure '
    '(observed round-off 4e-15; smallest effect of a next-lower table 2e-12). Numeric accuracy below the tolerance is '
    'not decided.',
    'DESIGN.md section 5 C08', TRUST + ' Mode L: the closed forms are textbook formulas re-derived inside TLA+.')
add('C02', 'TLA+ spec Numeric/GeomNum/Integration: exact measures and closed-form polynomial integrals over simplices/boxes '
    'and rational P0-P2 element matrices computed by TLC; real Functional / mass sums / element matrices on integer-'
    'coordinate meshes compared in fixed point; invariance laws (numbering, rigid motion, refinement); design-level '
    'consistency of the closed forms (MC_C02)',
    'TLC decides FunctionalExact / ElementalExact (whole domain, tagged sub-domains, facet sets), MassSumsToMeasure '
    '(partition-of-unity elements up to P4/Q2/Hex2/prisms), EntriesExact (P0-P2 affine), Numbering/RigidMotion/'
    'RefinementInvariant with tolerance 2^-40 x magnitude. Partial: exact entries only for P0-P2 on affine cells; higher '
    'degree and non-affine cells through sum and invariance laws only.',
    'DESIGN.md section 5 C02', TRUST + ' Mode L: exact oracles in TLA+, tolerance named in Numeric.tla.')
add('C10', 'TLA+ spec Mappings/GeomNum: exact clauses on integer-coordinate cells (vertices mapped, determinant = signed '
    'volume, outward normals) and laws in fixed point (inverse composes, Jacobian = derivative, inverse Jacobian, surface '
    'factor, unit/orthogonal normals, divergence theorem, affine = isoparametric, shared vs per-cell points, subset '
    'commutes) validated by TLC on recorded map evaluations; MC_C10 for the normal slot choice',
    'TLC decides the listed clauses on recorded evaluations of MappingAffine / MappingIsoparametric for straight, renumbered, '
    'mirrored, second-order straight and curved meshes, all ways of passing points and cell/facet subsets (call sequences '
    'on one mapping object incl. the int32/int64 cache-key case). Newton inversion on strongly distorted cells and '
    'epsilon-boundary behaviour are not addressed.',
    'DESIGN.md section 5 C10', TRUST + ' Mode L tolerance 2^-36 x magnitude (observed 2^-49).')

add('C17', 'TLA+ spec TagCodec/Tags (transcriptions of the per-cell bit-mask encoding and decoding of named boundaries, hex '
    'vertex permutation; tags as geometric designations): TLC model checking Decode(Encode(m)) = m over every facet '
    'subset x every orientation-flag assignment x sub-domain subsets (pre-repair decoder refuted) + replay of the '
    'TLC-exported meshes through the real code and real files + TLC trace validation of every round trip',
    'TLC decides SameClass, SameVertices (bitwise), SameCells, NodesPerCell, SameTagNames, SameSubdomains, '
    'SameBoundaryFacets, SameOrientation, UserDataUnchanged, ExportDoesNotAlterMesh on the model exhaustively for small '
    'meshes and on every recorded round trip through in-memory meshio, gmsh 2.2/4.1, vtk, vtu, json, dict and npz for '
    'first/second-order tri, quad, tet, hex meshes with random tag sets incl. oriented interior interfaces. Decoder '
    'model-vs-code drift 0.',
    'DESIGN.md section 5 C17')
add('C18', 'TLA+ spec Surgery/Geometry/Tags (relational clauses in exact integer geometry + transcriptions of restrict/_reix, '
    'remove_elements, +, remove_unused_nodes, remove_duplicate_nodes, to_meshtri, to_meshtet): TLC model checking over '
    'small meshes x every cell subset x tag subsets incl. compositions (pre-repair duplicate removal refuted) + replay on '
    'the real code + TLC trace validation of random operation sequences',
    'TLC decides Valid, CellsAreExpectedPointSets (partition test for the simplex splits), SameMeasure, '
    'SharedVertexStructure, CarriedTagsSameDesignation, RemovedEntitiesUntagged, IndexMapsRelateNewToOld, '
    'OrientationPositive, OperandsUnchanged on the model and on recorded executions of restrict, remove_elements, join, '
    'to_meshtri/to_meshtet, extrusion, scaled/translated/mirrored/morphed/oriented/trace, remove_unused/duplicate_nodes '
    'and their compositions interleaved with refinement. One known finding (extrusion ignores the line operand cells).',
    'DESIGN.md section 5 C18')

add('C14', 'TLA+ spec Locate/GeomLocate (FindImpl transcription of the element finders: k nearest centroids, inside test, '
    'fallback, raise; exact closed point-in-cell predicates; probe-matrix structure): TLC model checking FindImpl => FindOK '
    'over lattice and half-lattice points of the universe meshes + replay of the TLC-enumerated (mesh, point) pairs on '
    'the real finders + TLC trace validation of finders, probes, interpolator and point_source (laws in fixed point)',
    'TLC decides FoundCellContainsPoint, PointsOfTheDomainAreFound, BoundaryPointsAreFound, RaisesOutside (margin 2^-10), '
    'ProbeRows exactly, and P1Exact (rational barycentric oracle), LocalExpansion, AgreesWithInterpolate, SamePointSameValue, '
    'PointSourceOK with tolerance 2^-36 (ElementGlobal 2^-26) on all first-order mesh classes incl. graded, sheared and '
    'non-convex domains. Known finding: multi-component segment meshes.',
    'DESIGN.md section 5 C14')
add('C03', 'TLA+ spec Conformity (direction / sign design predicates over DOF numbering, ContinuityClass table per element '
    'family): TLC model checking of the design for every admissible local order on small meshes (named deviation QuadP; '
    'pre-repair QuadN1 table refuted) + TLC trace validation of one-sided traces of EVERY global DOF on both sides of '
    'every interior facet (law JumpZero in fixed point)',
    'TLC decides SharedEntitySharedDof, DirConsistent, SignsOpposite/SignsEqual on the model, and on the real code '
    'SidesAreTheTwoNeighbours and JumpZero per continuity class (value, normal, tangential component, defining '
    'functionals of the non-conforming and C1 families) for all renumberings / local orders of universe and random '
    'meshes, curved meshes for H1. Linear in the coefficients, so unit vectors cover any coefficient vector. Known '
    'finding: ElementQuadP(p>=3) under cyclic shifts.',
    'DESIGN.md section 5 C03')
add('C06', 'TLA+ spec Galerkin (SolutionIsInterpolant: exact polynomial values at integer DOF locations computed by TLC; '
    'ProjectionIsIdentity): TLC trace validation of end-to-end solves (assemble, get_dofs, boundary projection, condense, '
    'solve) and projections recorded from the real code, in fixed point',
    'TLC compares every recorded solution with the exact interpolant of the scenario polynomial (tolerance 2^-26 relative; '
    'observed 3e-14): Poisson, reaction-diffusion, elasticity with Dirichlet/Neumann splits along facet sets; P1-P4, Q1/Q2, '
    'Hex1/Hex2, TetP1/P2, prisms; universe and random integer Delaunay meshes; projections onto mesh / sub-domain / '
    'boundary incl. curved meshes. Galerkin exactness itself is a theorem that is assumed, not established by TLC.',
    'DESIGN.md section 5 C06', TRUST + ' Mode L on a theorem (uniqueness of the discrete solution).')

add('C01', 'TLA+ spec AssemblySem (definitional semantics Bil/Lin/Fun/Interp over abstract integer bases, integrand grammar, '
    'transcription of serial bilinear/linear/functional assembly and COO->CSR): TLC model checking Impl => clauses over '
    'small abstract bases (seeded model deviations rejected) + TLC trace validation of real assemblies on exact-universe '
    'bases (all four basis kinds, trial != test, wrappers, complex dtype) recomputed by definition + pairing laws in fixed '
    'point for everything outside the exact universe',
    'Exact tier: TLC recomputes every assembled entry / vector / scalar / interpolated field from the logged integer basis '
    'tables by the definition and compares with = (BilinearRepresents, RowsAreTest, LinearRepresents, '
    'FunctionalRepresents, InterpolateRepresents, Consistent, ParamsEnterIdentically, SubsetRestricts, FacetSideCells, '
    'ShapeOK). Law tier: v^T A u, b^T v vs Functional(F(interpolate u, interpolate v)) within 2^-40 x magnitude for Gauss '
    'rules, derivatives, H(div)/H(curl)/global elements, curved meshes, w.h/w.n. Defects common to assembly and '
    'interpolate (wrong basis values) are not visible here (C03/C06/C14 see them).',
    'DESIGN.md section 5 C01')
add('C19', 'TLA+ spec Blocks (ElementVector/ElementComposite local-index decoding, split_indices, CompositeBasis offsets, '
    'COOData algebra, Form.block, bmat offsets): TLC model checking of the transcriptions over all small component '
    'signatures and COO universes + TLC trace validation of real vector/composite/block assemblies (exact) + block laws '
    'in fixed point',
    'TLC decides DecodeIsBijection, SplitPartitions, CellTableMatchesComponents, SplitInterpolateCommutes, '
    'BlockMatrixEqualsCoupled, FormBlockAgrees, ListAssemblySums, DenseSparseAgree, DotAgrees, AddAgrees, LocalRoundTrip, '
    'InverseIsLocalInverse, BmatAgrees, BmatBlockOffsets, CompositeBasisOffsets on the model and on recorded executions. '
    'Known findings: tolocal on rectangular data, Form.block with components of different tensor order.',
    'DESIGN.md section 5 C19')
add('C20', 'TLA+ spec Autodiff (integer tensor algebra with textbook definitions; polynomial integrand grammar with residual '
    'and symbolic directional derivative; transcription of NonlinearForm._assemble): TLC model checking (algebraic '
    'identities, derivative rules vs exact stencils, assembly bookkeeping) + replay of TLC-enumerated tensors through both '
    'helper variants + TLC trace validation of NonlinearForm.assemble on exact-universe bases',
    'TLC decides HelperEqualsDefinition (NumPy and JAX variants, 21 helpers, 2x2 and 3x3 with trailing axes), VariantsAgree, '
    'JacobianIsDerivative, ResidualIsMinusF, LinearReducesToAssembly exactly for polynomial integrands up to degree 3 on '
    'scalar / vector / composite bases. Partial: transcendental integrands have no exact oracle and are not decided.',
    'DESIGN.md section 5 C20')

add('C09', 'TLA+ spec ShapeFunctions: the Lagrange differentiation operator as exact rational stencil weights (closed form, '
    'model checked: reproduces first/second derivatives of every monomial on all admissible windows), transformation-rule '
    'table per element family (H1 / H(div) / H(curl) / matrix Piola rules, model checked as identities over integer '
    'matrices), duality and partition-of-unity classes; TLC trace validation of lbasis / gbasis fields of EVERY exported '
    'element class and wrapper, every local index, in fixed point',
    'Revised design (DESIGN section 6): the claim is decomposed into ReferenceDerivative (delivered derivative = stencil '
    'applied to delivered values on the reference cell; exact for polynomials), MappingRule (gbasis = family '
    'transformation of lbasis with the mapping Jacobians, also on non-affine and curved cells, shared and per-cell points), '
    'MappedDerivative / GlobalDerivative on affine cells, WrapperInherits, Duality (nodal, facet flux, edge circulation, '
    'named global DOFs, the element gdof functionals) and PartitionOfUnity. Exhaustive over (class, local index) = 773 '
    'pairs; sampled points. Not covered: direct differentiation on non-affine cells, duality of the higher-order '
    'H(div)/H(curl) and HHJ elements, sign conventions (C03).',
    'DESIGN.md section 6 (C09, revised)', TRUST + ' Mode L: oracle = differentiation weights and transformation rules defined and model checked in TLA+; tolerances 2^-40 (reference), 2^-30 (global elements) x magnitude, >= 500x above observed round-off.')

NOT_YET = "check not built yet (implementation in progress; see DESIGN.md section 8 for the plan)"
NA = {'C09': "no state, transitions or discrete core: ~70 closed-form derivative formulas; TLA+/TLC cannot express "
             "real differentiation except as a numeric harness with TLC as calculator (DESIGN.md section 6)"}

def main():
    props = [json.loads(l) for l in open(os.path.join(HERE, 'properties.jsonl'))]
    checks, na = [], []
    for p in props:
        pid = p['id']
        if pid in CHECKS:
            c = CHECKS[pid]
            checks.append({
                'property_id': pid,
                'quick_cmd': f'./check {pid} --tier quick',
                'thorough_cmd': f'./check {pid} --tier thorough',
                'evidence_file': f'/verif/evidence/{pid}.json',
                'replay_cmd_template': f'./check {pid} --replay {{path}}',
                'engine': 'tlc+conformance',
                'level_claimed': {'category': 'model_checking', 'text': c['text'], 'design_ref': c['ref']},
                'level_note': c['note'],
                'technique': c['technique'],
            })
        else:
            na.append({'property_id': pid, 'reason': NA.get(pid, NOT_YET)})
    m = {
        'version': 1,
        'setup_cmd': './check --setup',
        'hooks': {'guard': 'SKFEM_VERIF',
                  'enable': 'SKFEM_VERIF=1 is exported by ./check; observation happens at public call boundaries from the '
                            'harness (no source hooks in /repo so far); /venv imports /repo/skfem from the working tree '
                            '(editable install), nothing is built or cached',
                  'baseline_off_cmd': BASE_OFF, 'source_commits': [], 'add_only': True},
        'engines': [{'name': 'tlc+conformance', 'path': '/verif/check',
                     'serves_properties': sorted(CHECKS),
                     'kind_free_text': 'explicit TLA+ specification (spec/*.tla) checked by TLC; bound to the code by '
                                       'replaying TLC-enumerated scenarios into the real classes and by validating '
                                       'recorded executions against trace specifications that reuse the same operators'},
                    {'name': 'extended-coverage', 'path': '/verif/check',
                     'serves_properties': [],
                     'kind_free_text': 'the same machinery applied to behaviour no listed property names (./check X01 .. X08: '
                                       'periodic meshes, 1-D supermeshes, selections and trace meshes, trilinear forms, tensor '
                                       'constructors and default tags, rcm / adaptive_theta, refinterp, named constructors); see DESIGN.md section 10'}],
        'checks': checks,
        'not_applicable': na,
        'notes': 'Known genuine defects are listed in /verif/known_findings.jsonl (status known / fixed); see DESIGN.md section 7.',
    }
    json.dump(m, open(os.path.join(HERE, 'MANIFEST.json'), 'w'), indent=1)
    print(f'{len(checks)} checks, {len(na)} not_applicable')

if __name__ == '__main__':
    main()
