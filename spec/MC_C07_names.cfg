SPECIFICATION Spec
CONSTANT Sigs <- SigsNamed
CONSTANT RowsInUse <- RowsCode
CONSTANT OffsetInUse <- OffsetCode
INVARIANT NameRowsHold
CHECK_DEADLOCK FALSE
