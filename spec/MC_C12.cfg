SPECIFICATION Spec
CONSTANT OLDGEN = FALSE
INVARIANT ClausesHold
CHECK_DEADLOCK FALSE
