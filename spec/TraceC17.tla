------------------------------ MODULE TraceC17 ------------------------------
(* code -> spec: validates save/load round trips recorded from the real code   *)
(* (harness/props/c17.py) against the C17 clauses of TagCodec.  One event =    *)
(* one mesh with tags exported through one format and loaded back:             *)
(*   fmt, codec ("celldata": meshio formats, tags as per-cell integers;        *)
(*   "dict": to_dict / JSON; "npz"), err, pre, post (abstract meshes),         *)
(*   conn (the code's t2f / f2t of the exported mesh), ud_pre / ud_post (user   *)
(*   data), ck_pre / ck_post (checksums of the exported mesh's arrays).        *)
(*                                                                             *)
(* Model drift (evidence only): the transcription DecodeImpl(EncodeImpl(.)),    *)
(* evaluated on the code's own t2f / f2t tables, is compared with what the     *)
(* code returned (index arrays and flags); counted, never a verdict.           *)
EXTENDS TagCodec

Batch  == JsonDeserialize(IOEnv.TRACE_FILE)
Events == Batch.events
N      == Len(Events)

VARIABLES i, bad, cnt
vars == <<i, bad, cnt>>

ConnOK(e) == /\ e.conn.ok = 1 /\ Len(e.conn.t2f) = Len(e.pre.t) /\ Len(e.conn.f2t) = e.pre.nf
             /\ \A k \in DOMAIN e.conn.t2f : /\ Len(e.conn.t2f[k]) = NSlots(e.pre.kind)
                                             /\ \A s \in DOMAIN e.conn.t2f[k] : e.conn.t2f[k][s] \in 1..e.pre.nf
             /\ \A f \in DOMAIN e.conn.f2t : /\ Len(e.conn.f2t[f]) = 2 /\ e.conn.f2t[f][1] \in 1..Len(e.pre.t)
                                             /\ e.conn.f2t[f][2] \in 0..Len(e.pre.t)
             /\ \A j \in DOMAIN e.pre.bnd : \A q \in DOMAIN e.pre.bnd[j].ids :
                   e.pre.bnd[j].ori[q] = 0 \/ e.conn.f2t[e.pre.bnd[j].ids[q]][2] # 0     \* legal flags only

\* what DecodeImpl(EncodeImpl(.)) of the current code predicts for the boundary named n, from the code's own tables
Predicted(e, n) ==
  LET b  == BndOf(e.pre, n)
      ns == NSlots(e.pre.kind)
  IN DecodeBoundaryImpl(e.conn, ns, EncodeBoundaryImpl(e.conn, ns, [ids |-> b.ids, ori |-> b.ori]))
AsTranscribed(e) == /\ BndNames(e.pre) = BndNames(e.post)
                    /\ \A n \in BndNames(e.pre) :
                         LET d == Predicted(e, n) b2 == BndOf(e.post, n) IN d.ids = b2.ids /\ d.ori = b2.ori
Clauses(e) ==
  IF e.err # "" THEN [NoUnexpectedError |-> FALSE]
  ELSE LET base == RoundTripClauses(e.pre, e.post) IN
       IF ~base.WellFormed THEN base @@ [NoUnexpectedError |-> TRUE]
       ELSE base @@ [ NoUnexpectedError |-> TRUE,
                      UserDataUnchanged |-> UserDataUnchanged(e),
                      ExportDoesNotAlterMesh |-> ExportDoesNotAlterMesh(e) ]

\* model drift (evidence only, never a verdict): does the transcription predict what the code returned?
Drift(e) ==
  IF e.err = "" /\ e.codec = "celldata" /\ RTWellFormed(e.pre) /\ RTWellFormed(e.post) /\ ConnOK(e)
  THEN IF AsTranscribed(e) THEN [Drift_checked |-> TRUE] ELSE [Drift_checked |-> TRUE, Drift_mismatch |-> TRUE]
  ELSE <<>>

Bump(c, r) == [k \in DOMAIN c \cup DOMAIN r |->
                 (IF k \in DOMAIN c THEN c[k] ELSE 0) + (IF k \in DOMAIN r THEN 1 ELSE 0)]

Init == i = 1 /\ bad = <<>> /\ cnt = <<>>

Step == /\ i <= N
        /\ LET e == Events[i]
               r == Clauses(e)
           IN /\ bad' = bad \o [k \in 1..Cardinality(Failed(r)) |->
                                  [sid |-> e.sid, pos |-> e.pos, clause |-> SetToSeq(Failed(r))[k]]]
              /\ cnt' = Bump(Bump(cnt, r), Drift(e))
        /\ i' = i + 1

Finish == /\ i = N + 1
          /\ JsonSerialize(IOEnv.OUT_FILE, [consumed |-> N, bad |-> bad, cnt |-> cnt])
          /\ i' = N + 2
          /\ UNCHANGED <<bad, cnt>>

Next == Step \/ Finish
Spec == Init /\ [][Next]_vars
==============================================================================
