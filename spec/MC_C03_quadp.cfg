SPECIFICATION Spec
CONSTANT Which = "quadp"
CONSTANT Tier = "quick"
INVARIANT DesignConsistent
CHECK_DEADLOCK FALSE
