"""C20 - autodiff gives the true Jacobian; integrand helpers equal their definitions.

M : spec/MC_C20.cfg, three parts: "algebra" (the tensor definitions of Autodiff.tla satisfy the textbook identities
    on all 2x2 tensors with entries in -2..2 and a family of 3x3 tensors; the enumerated tensors are exported),
    "deriv" (forward-mode rules = exact finite-difference stencils for every term of depth <= 2), "assemble" (the
    transcription of NonlinearForm._assemble satisfies JacobianIsDerivative / ResidualIsMinusF /
    LinearReducesToAssembly; seeded deviations are rejected).
R : the tensors TLC enumerated are fed to the real helpers of both variants (batched over the trailing axis).
V : real NonlinearForm.assemble(basis, x=...) with grammar-generated polynomial integrands (residual and hessian
    mode) on exact-universe bases (scalar, vector, composite), several linearisation points; real helper calls with
    integer tensors of all admissible shapes (2x2, 3x3, trailing axes (), (n,), (nel, nq)); TraceC20 decides exactly.
Not covered: transcendental integrands (no exact oracle), see DESIGN section 6.
"""
import json
import os
import threading

import numpy as np

from .. import fem
from ..core import MachineryError
from ..fem import guarded

RULE = ('scenario = one basis + one polynomial integrand + one linearisation point, or one helper call on a batch of '
        'integer tensors; distinct = distinct (mesh kind, basis kind, element, integrand, point) / (helper, shape, '
        'variant, data); non-trivial = integrand nonlinear in u or coupling components / tensors with non-zero '
        'off-diagonal entries')
BOUND = 2 ** 24


def _ints(a, s=1):
    return fem.to_ints(a, s, BOUND)


# ------------------------------------------------------------------------------------------ nonlinear forms

def _split_linear(R):
    """summands of R with one / without "u" leaf (R is a sum of products)"""
    def summands(t):
        return summands(t[1]) + summands(t[2]) if t[0] == '+' else [t]

    def nu(t):
        return 1 if t[0] == 'u' else 0 if t[0] in ('v', 'f', 'p', 'k') else nu(t[1]) + nu(t[2])
    ss = summands(R)
    a = [s for s in ss if nu(s) == 1]
    l_ = [s for s in ss if nu(s) == 0]
    return (fem._add(a) if a else None), (fem._add(l_) if l_ else None)


def _neg_of(t):
    """X if t is (-1) * X, else None"""
    if t[0] == '*':
        if t[1][0] == 'k' and t[1][1] == -1:
            return t[2]
        if t[2][0] == 'k' and t[2][1] == -1:
            return t[1]
    return None


def ev_ops(t, Uf, Vf, w, accs, rng):
    """The same meaning as fem.ev_term, but written the way a user writes an integrand: scalar value components of u and
    v are the BARE field objects the form receives (JaxDiscreteField), and the arithmetic operators are applied to them in
    both operand orders with Python floats, NumPy scalars and arrays on the other side:
      a * u / u * a,  u / (1/a),  u ** 2,  a - u (for a + (-1) * u: float, array or field on the left),  u - a,  u + a.
    Only operator forms that exist on the field class are used (it has no __radd__ / __neg__); the choices are drawn
    from `rng`, re-seeded identically for every evaluation of the form."""
    op = t[0]
    if op in ('u', 'v'):
        f, attr, idx = accs[op][t[1] - 1]
        F = (Uf if op == 'u' else Vf)
        if attr == 'value' and len(idx) == 0 and hasattr(F[f], 'value') and hasattr(F[f], 'astuple'):
            return F[f]                                   # the bare field
        return fem.comp(F, (f, attr, idx))
    if op in ('f', 'p'):
        return fem.ev_term(t, Uf, Vf, w, accs)
    if op == 'k':
        return float(t[1]) if rng.integers(0, 2) else np.float64(t[1])
    bare = lambda x: hasattr(x, 'astuple')

    def left_ok(x):
        """what may stand on the LEFT of a bare field: Python numbers and JAX arrays defer to the field's reflected
        operator; NumPy scalars / arrays would try to convert the field (a documented limitation, not exercised)"""
        import jax
        return (isinstance(x, (int, float)) and not isinstance(x, np.generic)) or isinstance(x, jax.Array) or bare(x)

    def mul(x, y):
        if bare(y) and not left_ok(x):
            return y * x
        if bare(x) and not bare(y) and left_ok(y) and rng.integers(0, 2):
            return y * x                                   # c * u  (reflected operator)
        return x * y
    if op == '*':
        if t[1] == t[2] and t[1][0] in ('u', 'v'):
            a_ = ev_ops(t[1], Uf, Vf, w, accs, rng)
            return a_ ** 2 if bare(a_) else a_ * a_
        a_ = ev_ops(t[1], Uf, Vf, w, accs, rng)
        b_ = ev_ops(t[2], Uf, Vf, w, accs, rng)
        for x, y in ((a_, b_), (b_, a_)):
            if bare(x) and isinstance(y, (float, np.floating)) and float(y) in (2.0, 4.0, -2.0) and rng.integers(0, 3) == 0:
                return x / (1.0 / float(y))                # u / c
        return mul(a_, b_)
    # op == '+'
    for X, Y in ((t[1], t[2]), (t[2], t[1])):
        n = _neg_of(Y)
        if n is not None:
            x = ev_ops(X, Uf, Vf, w, accs, rng)
            y = ev_ops(n, Uf, Vf, w, accs, rng)
            if bare(y) and not left_ok(x):
                x = float(x) if isinstance(x, np.generic) else x
                if not left_ok(x):
                    y = y.value                            # a NumPy array on the left: written with the field's value
            return x - y                                   # c - u, x_k - u, u - c, u - u'
    a_ = ev_ops(t[1], Uf, Vf, w, accs, rng)
    b_ = ev_ops(t[2], Uf, Vf, w, accs, rng)
    if bare(b_) and not bare(a_):
        return b_ + a_                                     # the field class has no __radd__
    return a_ + b_


def ops_callable(term, accs, nfu, seed, term_im=None, energy=False):
    def form(*args):
        w = args[-1]
        Uf, Vf = (args[:-1], None) if energy else (args[:nfu], args[nfu:-1])
        out = ev_ops(term, Uf, Vf, w, accs, np.random.default_rng(seed))
        if term_im is not None:
            out = out + 1j * ev_ops(term_im, Uf, Vf, w, accs, np.random.default_rng(seed + 1))
        return out.value if hasattr(out, 'astuple') else out
    form.__name__ = 'grammar_ops'
    return form


def exec_nl(rec):
    """one NonlinearForm object (and, for integrands linear in u, one BilinearForm / LinearForm object), assembled in a
    call history: at rec['x'], at further linearisation points written IN PLACE into the same array object, and then -
    the same form objects - on a second basis of the same mesh (other cells / facets, equal array shapes).  Every
    call is one event judged by the definition with the data of THAT call."""
    from skfem import BilinearForm, LinearForm
    from skfem.autodiff import NonlinearForm
    kind = rec['mesh']['kind']
    attrs = ('value', 'grad') if rec.get('grad') else ('value',)
    R, mode = rec['R'], rec['mode']
    Ri = rec.get('R_im')                 # complex-valued form R + i R_im (complex source / absorption / impedance terms)
    cdtype = np.complex128 if Ri else np.float64
    prm = {'alpha': rec['alpha']}
    forms = {}
    kw = {f['name']: np.array(f['val'], dtype=np.float64) for f in rec['fields'] if f['kind'] == 'val'}

    def one_call(basis, x, tags):
        acc = fem.accessors(basis.basis[0], attrs)
        B = fem.basis_pi(basis, acc)
        if B is None:
            raise fem.TooLarge()
        shape = (B['nel'], B['nq'])
        facc, fenv, fs = {}, {}, {}
        for f in rec['fields']:
            if f['kind'] == 'val':
                facc[f['name']] = [(0, 'value', ())]
                fenv[f['name']] = {'nc': 1, 's': 1, 'val': [f['val']]}
                fs[f['name']] = 1
            else:
                fld = basis.default_parameters()[f['name']]
                facc[f['name']] = fem.accessors(fld, ('value',))
                pi = fem.field_pi(fld, facc[f['name']], shape)
                if pi is None:
                    raise fem.TooLarge()
                fenv[f['name']] = {'nc': pi['nc'], 's': pi['s'], 'val': pi['val']}
                fs[f['name']] = pi['s']
        accs = {'u': acc, 'v': acc, 'f': facc}
        nf = len(basis.basis[0])
        if 'nl' not in forms:
            if rec.get('ops') is not None:
                # operator style: the integrand works on the bare field objects (see ev_ops)
                forms['nl'] = NonlinearForm(ops_callable(R, accs, nf, rec['ops'], Ri, energy=(mode == 'hessian')),
                                            dtype=cdtype, **({'hessian': True} if mode == 'hessian' else {}))
            elif mode == 'hessian':
                def energy(*args):
                    out = fem.ev_term(R, args[:-1], None, args[-1], accs)
                    return out + 1j * fem.ev_term(Ri, args[:-1], None, args[-1], accs) if Ri else out
                forms['nl'] = NonlinearForm(energy, hessian=True, dtype=cdtype)
            else:
                forms['nl'] = NonlinearForm(fem.bilinear_callable(R, accs, nf, Ri), dtype=cdtype)
            if rec.get('lin'):
                forms['al'] = []
                for term in ((R, Ri) if Ri else (R,)):
                    Ra, Rl = _split_linear(term)
                    forms['al'].append((BilinearForm(fem.bilinear_callable(Ra, accs, nf)) if Ra is not None else None,
                                        LinearForm(fem.linear_callable(Rl, accs)) if Rl is not None else None))
        xin = [int(v) for v in x]                      # the contents of x at the time of the call
        if rec.get('x_absent'):                        # default linearisation point
            J, rhs = forms['nl'].assemble(basis, **dict(kw), **prm)
        else:
            J, rhs = forms['nl'].assemble(basis, x=x, **dict(kw), **prm)
        events = []
        # a complex form is judged part by part: (R, Re J, Re rhs) and (R_im, Im J, Im rhs)
        for pk, (term, part) in enumerate(((R, np.real), (Ri, np.imag)) if Ri else ((R, np.real),)):
            S = fem.term_scale(term, B['sphi'], B['sphi'], fs) * B['sdx']
            ok = True
            Jp = J.tocsr().copy()
            Jp.data = part(Jp.data).astype(np.float64)
            trip, o = fem.csr_trip(Jp, S)
            ok &= o
            r = _ints(part(np.asarray(rhs)), S)
            ok &= r is not None
            if not Ri and np.iscomplexobj(rhs):
                ok = False
            ev = {'a': 'NL', 'err': '', 'exact': 1, 'mode': mode, 'B': B, 'env': {'fld': fenv, 'prm': prm}, 'R': term, 'S': int(S),
                  'x': xin, 'J': {'shape': [int(s) for s in J.shape], 'trip': trip}, 'rhs': r or [],
                  'lin': 0, 'A': {'shape': [0, 0], 'trip': []}, 'b': [], 'tags': dict(tags, part='im' if pk else 're')}
            if rec.get('lin'):
                fa, fl = forms['al'][pk]
                if fa is not None:
                    A = fa.assemble(basis, **dict(kw), **prm)
                    tA, o = fem.csr_trip(A, S)
                    ok &= o
                    shp = [int(s) for s in A.shape]
                else:
                    tA, shp = [], [int(s) for s in J.shape]
                b = fl.assemble(basis, **dict(kw), **prm) if fl is not None else basis.zeros()
                fem.guard_sum([t[2] for t in tA], int(np.abs(x).max()) if len(x) else 0)
                bi = _ints(b, S)
                ok &= bi is not None
                ev.update(lin=1, A={'shape': shp, 'trip': tA}, b=bi or [])
            ev['exact'] = 1 if ok else 0
            events.append(ev)
        return events

    state = {}

    def call(which, step, reuse):
        def go():
            if 'mesh' not in state:
                state['mesh'] = fem.make_mesh(rec['mesh'])
                state['x'] = np.array(rec['x'], dtype=np.float64)
            if which not in state:
                state[which] = fem.make_basis(state['mesh'], kind, rec[which])
            x = state['x']
            if step > 0:                                   # Newton-like history: the same array, updated in place
                xn = np.array(rec['xs'][step - 1], dtype=np.float64)
                if step % 2:
                    x += xn - x
                else:
                    x[:] = xn
            return one_call(state[which], x, {'step': step, 'reuse': reuse})
        evs, err = guarded(go, 120)
        if err == 'TooLarge':
            raise fem.TooLarge()
        return evs if not err else [{'a': 'NL', 'err': err, 'tags': {'step': step, 'reuse': reuse}}]
    try:
        events = call('bs', 0, 0)
        for k in range(1, len(rec.get('xs', [])) + 1):
            events += call('bs', k, 0)
        if rec.get('bs2'):
            events += call('bs2', 0, 1)
    except fem.TooLarge:
        return []
    return events


NL_ELEMS = {
    'line': [['e', 'P1'], ['e', 'P2'], ['e', 'P0'], ['comp', ['e', 'P1'], ['e', 'P0']], ['vecn', ['e', 'P1'], 2]],
    'tri': [['e', 'P1'], ['e', 'P1'], ['e', 'P2'], ['e', 'P0'], ['e', 'CR'], ['dg', ['e', 'P1']], ['vec', ['e', 'P1']],
            ['comp', ['e', 'P1'], ['e', 'P0']], ['comp', ['e', 'P2'], ['e', 'P1']], ['comp', ['vec', ['e', 'P1']], ['e', 'P0']]],
    'quad': [['e', 'P1'], ['e', 'P2'], ['e', 'P0'], ['vec', ['e', 'P1']], ['comp', ['e', 'P1'], ['e', 'P0']]],
    'tet': [['e', 'P1'], ['e', 'P0'], ['vec', ['e', 'P1']], ['comp', ['e', 'P1'], ['e', 'P0']]],
    'hex': [['e', 'P1'], ['e', 'P0']],
}


def gen_nl(rng):
    from .c19 import _basis_spec
    from .c01 import _alt_subset
    kind = str(rng.choice(['line', 'tri', 'tri', 'tri', 'quad', 'quad', 'tet', 'hex']))
    mrec = fem.lattice_mesh(kind, rng)
    mesh = fem.make_mesh(mrec)
    g = _basis_spec(rng, kind, mesh, allow=('cell', 'cell', 'cellsub', 'cellsub', 'facet', 'facetsub', 'ifacet'))
    if g is None:
        return None
    bs, btype, _ = g
    es = NL_ELEMS[kind]
    spec = es[int(rng.integers(0, len(es)))]
    bs['elem'] = spec
    grad = int(rng.integers(0, 2))
    attrs = ('value', 'grad') if grad else ('value',)
    try:
        basis = fem.make_basis(mesh, kind, bs)
        acc = fem.accessors(basis.basis[0], attrs)
        B = fem.basis_pi(basis, acc)
    except Exception:
        return None
    if B is None or B['sphi'] > 8:
        return None
    nc, nel, nq = len(acc), B['nel'], B['nq']
    if basis.Nbfun ** 2 * nel * nq > 1500 or basis.N > 40:
        return None
    fields, avail = [], []
    # the same form object is assembled afterwards on a second basis of the same mesh (other cells / facets, equal
    # array shapes); the integrand then uses the default fields w.x (and w.n on facets), which differ between the two
    alt = _alt_subset(rng, mesh, bs)
    reuse = alt is not None and bool(rng.integers(0, 3))
    if reuse or rng.integers(0, 2):
        fields.append({'name': 'x', 'kind': 'default'})
        avail.append(('x', mesh.dim()))
    if bs['type'] != 'cell' and (reuse or rng.integers(0, 2)):
        fields.append({'name': 'n', 'kind': 'default'})
        avail.append(('n', mesh.dim()))
    if rng.integers(0, 2):
        fields.append({'name': 'g', 'kind': 'val', 'val': [[int(v) for v in row] for row in rng.integers(-2, 3, size=(nel, nq))]})
        avail.append(('g', 1))
    mode = str(rng.choice(['residual', 'residual', 'residual', 'hessian', 'linear']))
    ops = bool(rng.integers(0, 2))          # the integrand is written with operators on the bare field objects
    maxdeg = 3 if B['sphi'] <= 2 else 2
    ss = []
    for it in range(int(rng.integers(1, 4))):
        if mode == 'linear':
            nu_ = int(rng.integers(0, 2))
        elif mode == 'hessian':
            nu_ = int(rng.integers(1, maxdeg + 1))
        else:
            nu_ = int(rng.integers(0, maxdeg + 1))
        coef = fem.gen_coef(rng, avail, ['alpha'], allow_two=False)
        if reuse and it == 0:
            dname, dn = avail[int(rng.integers(0, 2 if bs['type'] != 'cell' else 1))]
            coef = [['f', dname, int(rng.integers(1, dn + 1))]]
        fac = coef + [['u', int(rng.integers(1, nc + 1))] for _ in range(nu_)]
        if ops and mode != 'linear' and nu_ >= 1 and rng.integers(0, 3) != 0:
            # a difference factor in place of one u: (c - u), (x_k - u), (u - c), (u - u') -- e.g. the logistic (1 - u) u v
            uu = fac.pop()
            r = int(rng.integers(0, 4))
            left = [['k', int(rng.choice([1, 2, 3]))], (['f', 'x', int(rng.integers(1, mesh.dim() + 1))] if any(a[0] == 'x' for a in avail)
                                                        else ['k', 2]), None, None][r]
            if r <= 1:
                fac.append(['+', left, ['*', ['k', -1], uu]])
            elif r == 2:
                fac.append(['+', uu, ['*', ['k', -1], ['k', int(rng.choice([1, 2]))]]])
            else:
                fac.append(['+', uu, ['*', ['k', -1], ['u', int(rng.integers(1, nc + 1))]]])
        if mode != 'hessian':
            fac.append(['v', int(rng.integers(1, nc + 1))])
        if not fac:
            fac = [['k', 2]]
        fac = [fac[j] for j in rng.permutation(len(fac))]
        ss.append(fem._mul(fac))
    if mode == 'linear' and not any(_split_linear(s)[0] for s in ss):
        ss.append(['*', ['u', 1], ['v', int(rng.integers(1, nc + 1))]])
    R = fem._add(ss)
    rec = {'driver': 'nl', 'mesh': mrec, 'bs': bs, 'grad': grad, 'fields': fields, 'alpha': int(rng.choice([-2, 2, 3])),
           'R': R, 'mode': 'residual' if mode == 'linear' else mode, 'lin': int(mode == 'linear'),
           'x': [int(v) for v in rng.integers(-2, 3, size=basis.N)] if rng.integers(0, 6) else [0] * basis.N}
    if ops:
        rec['ops'] = int(rng.integers(1, 10 ** 6))
    if rng.integers(0, 3) == 0:
        # complex-valued form: imaginary part with its own (source / absorption / nonlinear) terms
        ssi = []
        for it in range(int(rng.integers(1, 3))):
            nu_ = int(rng.integers(0, 2)) if mode == 'linear' else int(rng.integers(1 if mode == 'hessian' else 0, maxdeg + 1))
            fac = fem.gen_coef(rng, avail, ['alpha'], allow_two=False) + [['u', int(rng.integers(1, nc + 1))] for _ in range(nu_)]
            if mode != 'hessian':
                fac.append(['v', int(rng.integers(1, nc + 1))])
            ssi.append(fem._mul([fac[j] for j in rng.permutation(len(fac))]))
        rec['R_im'] = fem._add(ssi)
    if rng.integers(0, 8) == 0:
        rec['x'] = [0] * basis.N
        rec['x_absent'] = 1
    elif rng.integers(0, 2):
        rec['xs'] = [[int(v) for v in rng.integers(-2, 3, size=basis.N)] for _ in range(int(rng.integers(1, 3)))]
    if reuse:
        rec['bs2'] = dict(bs, **alt)
    return rec, {'a': 'NL', 'kind': kind, 'btype': btype, 'elem': fem.elem_name(spec), 'mode': mode, 'tier': 'exact',
                 'reuse': int(reuse), 'hist': len(rec.get('xs', [])), 'complex': int('R_im' in rec), 'ops': int(ops)}


# ------------------------------------------------------------------------------------------ helpers

# name -> (numpy callable or None, jax callable or None, argument kinds)
#   argument kinds: 'v' vector (d), 'm' matrix (d, d), 't' 3-tensor, 's' scalar, 'G' field given through .grad
def _helper_table():
    import skfem.helpers as H
    import skfem.autodiff.helpers as JH
    from skfem.element import DiscreteField
    from skfem.autodiff import JaxDiscreteField
    import jax.numpy as jnp

    def np_field(G):
        return DiscreteField(np.zeros(G.shape[1:] if G.ndim >= 3 else G.shape), grad=G)

    def jx_field(G):
        return JaxDiscreteField(jnp.zeros(G.shape[1:]), grad=jnp.asarray(G))
    J = jnp.asarray
    return {
        'dot': (lambda a, b, n: H.dot(a, b), lambda a, b, n: JH.dot(J(a), J(b)), 'vv'),
        'ddot': (lambda a, b, n: H.ddot(a, b), lambda a, b, n: JH.ddot(J(a), J(b)), 'mm'),
        'dddot': (lambda a, b, n: H.dddot(a, b), lambda a, b, n: JH.dddot(J(a), J(b)), 'tt'),
        'prod2': (lambda a, b, n: H.prod(a, b), lambda a, b, n: JH.prod(J(a), J(b)), 'vv'),
        'prod3': (lambda a, b, c, n: H.prod(a, b, c), lambda a, b, c, n: JH.prod(J(a), J(b), J(c)), 'vvv'),
        'mulv': (lambda a, b, n: H.mul(a, b), lambda a, b, n: JH.mul(J(a), J(b)), 'mv'),
        'mulm': (lambda a, b, n: H.mul(a, b), lambda a, b, n: JH.mul(J(a), J(b)), 'mm'),
        'trace': (lambda a, n: H.trace(a), lambda a, n: JH.trace(J(a)), 'm'),
        'transpose': (lambda a, n: H.transpose(a), lambda a, n: JH.transpose(J(a)), 'm'),
        'eye': (lambda w, n: H.eye(w, n), lambda w, n: JH.eye(J(w), n), 's'),
        'identity': (lambda a, n: H.identity(a), None, 'm!'),        # argument only gives the shape
        'sym_grad': (lambda G, n: H.sym_grad(np_field(G)), lambda G, n: JH.sym_grad(jx_field(G)), 'm'),
        'div': (lambda G, n: H.div(np_field(G)), lambda G, n: JH.div(jx_field(G)), 'm'),
        'grad': (lambda G, n: H.grad(np_field(G)), lambda G, n: JH.grad(jx_field(G)), 'm'),
        'curl_s2': (lambda g, n: H.curl(np_field(g)), None, 'v2'),
        'curl_v2': (lambda G, n: H.curl(np_field(G)), None, 'm2'),
        'curl_3': (lambda G, n: H.curl(np_field(G)), None, 'm3'),
        'det': (lambda a, n: H.det(a), lambda a, n: JH.det(J(a)), 'm'),
        'inv': (lambda a, n: H.inv(a), None, 'M'),
        'cross2': (lambda a, b, n: H.cross(a, b), None, 'v2v2'),
        'cross3': (lambda a, b, n: H.cross(a, b), None, 'v3v3'),
    }


_HT = None
FIELD_HELPERS = ('sym_grad', 'div', 'grad', 'curl_s2', 'curl_v2', 'curl_3', 'identity', 'eye')


def _points_first(a, lead):
    """array of shape lead + trailing -> nested list [point][lead...]"""
    a = np.asarray(a)
    a = a.reshape(tuple(a.shape[:lead]) + (-1,))
    return np.moveaxis(a, -1, 0)


def exec_helper(rec):
    """one helper on one batch of integer tensors, both variants"""
    global _HT
    if _HT is None:
        _HT = _helper_table()
    name = rec['name']
    fnp, fjx, _ = _HT[name]
    args = [np.array(a, dtype=np.float64) for a in rec['args']]         # lead dims + trailing axes
    leads = rec['leads']
    n = rec.get('n', 0)
    npts = int(np.prod(rec['trailing'])) if rec['trailing'] else 1
    if name == 'curl_s2' and len(rec['trailing']) != 2:
        pass
    ev = {'a': 'Helper', 'err': '', 'name': name, 'n': int(n), 'npts': npts, 'exact': 1, 's': 1,
          'args': [] if name == 'identity' else [_ints(_points_first(a, ld)) for a, ld in zip(args, leads)],
          'has_np': 0, 'has_jax': 0, 'np': {'err': '', 'dims': [], 'out': []}, 'jax': {'err': '', 'dims': [], 'out': []}}
    outs = {}
    for var, f in (('np', fnp), ('jax', fjx)):
        if f is None or var not in rec['variants']:
            continue
        out, err = guarded(lambda: np.asarray(f(*[a.copy() for a in args], n)), 60)
        ev['has_' + var] = 1
        if err:
            ev[var] = {'err': err, 'dims': [], 'out': []}
            continue
        outs[var] = out
    s = 1
    if name == 'sym_grad':
        s = 2
    if name == 'inv' and 'np' in outs:
        s = fem.pow2_scale([outs['np']], 12) or 1
    ev['s'] = int(s)
    nt = len(rec['trailing'])
    for var, out in outs.items():
        lead = out.ndim - nt
        if lead < 0 or tuple(out.shape[lead:]) != tuple(rec['trailing']):
            ev[var] = {'err': 'shape', 'dims': [int(d) for d in out.shape], 'out': []}
            continue
        vals = _ints(_points_first(out, lead), s)
        if vals is None:
            ev['exact'] = 0
            vals = []
        ev[var] = {'err': '', 'dims': [int(d) for d in out.shape[:lead]], 'out': vals}
    return [ev]


def _int_tensor(rng, lead, trailing, lo=-3, hi=3):
    return rng.integers(lo, hi + 1, size=tuple(lead) + tuple(trailing)).astype(float)


def _dyadic_det_matrices(rng, d, trailing):
    """integer matrices whose determinant is +-1, +-2 or +-4 at every point (float inverse is exact)"""
    npts = int(np.prod(trailing)) if trailing else 1
    out = np.zeros((d, d, npts))
    for p in range(npts):
        while True:
            Lm = np.tril(rng.integers(-2, 3, size=(d, d)), -1) + np.eye(d)
            Um = np.triu(rng.integers(-2, 3, size=(d, d)), 1) + np.diag(rng.choice([1, -1, 2, -2, 4], size=d))
            A = Lm @ Um
            if abs(round(np.linalg.det(A))) in (1, 2, 4, 8) and np.abs(A).max() <= 9:
                break
        if rng.integers(0, 2):
            A = A[rng.permutation(d)]
        out[:, :, p] = A
    return out.reshape((d, d) + tuple(trailing))


def gen_helper(rng):
    global _HT
    if _HT is None:
        _HT = _helper_table()
    name = str(rng.choice(sorted(_HT)))
    kinds = _HT[name][2]
    d = int(rng.choice([2, 3]))
    trailing = [[], [int(rng.integers(1, 6))], [int(rng.integers(1, 4)), int(rng.integers(1, 4))]][int(rng.integers(0, 3))]
    if name in FIELD_HELPERS:
        trailing = [int(rng.integers(1, 4)), int(rng.integers(1, 4))]      # fields live on (nel, nq)
    args, leads = [], []
    n = 0
    if kinds == 'M':
        args, leads = [_dyadic_det_matrices(rng, d, trailing)], [2]
    elif kinds == 's':
        args, leads, n = [_int_tensor(rng, [], trailing)], [0], d
    elif kinds == 'm!':
        args, leads, n = [_int_tensor(rng, [d, d], trailing)], [2], d
    else:
        toks = []
        j = 0
        while j < len(kinds):
            k = kinds[j]
            dd = d
            if j + 1 < len(kinds) and kinds[j + 1] in '23':
                dd = int(kinds[j + 1])
                j += 1
            toks.append((k, dd))
            j += 1
        for k, dd in toks:
            lead = {'v': [dd], 'm': [dd, dd], 't': [dd, dd, dd]}[k]
            args.append(_int_tensor(rng, lead, trailing))
            leads.append(len(lead))
    rec = {'driver': 'helper', 'name': name, 'args': [a.astype(int).tolist() for a in args], 'leads': leads, 'trailing': trailing,
           'n': n, 'variants': ['np', 'jax']}
    return rec, {'a': 'Helper', 'name': name, 'd': d, 'ntrail': len(trailing), 'tier': 'exact'}


def replay_universe(path):
    """spec -> code: the tensors TLC enumerated (MC_C20 part "algebra"), batched over one trailing axis"""
    u = json.load(open(path))
    mat2 = np.array(u['mat2'], dtype=float)          # (625, 2, 2)
    few2 = np.array(u['few2'], dtype=float)
    vec3 = np.array(u['vec3'], dtype=float)
    vec2 = np.array(u['vec2'], dtype=float)
    out = []

    def rec(name, arrs, leads, n=0):
        npts = arrs[0].shape[-1]
        trailing = [npts]
        if name in FIELD_HELPERS:          # these take a DiscreteField: the trailing axes are (cells, points)
            arrs = [a[..., None] for a in arrs]
            trailing = [npts, 1]
        return ({'driver': 'helper', 'name': name, 'args': [a.astype(int).tolist() for a in arrs], 'leads': leads,
                 'trailing': trailing, 'n': n, 'variants': ['np', 'jax']},
                {'a': 'Helper', 'name': name, 'd': arrs[0].shape[0] if arrs[0].ndim > 1 else 0, 'ntrail': 1, 'tier': 'replay'})
    M = np.moveaxis(mat2, 0, -1)                     # (2, 2, 625)
    for name in ('trace', 'transpose', 'det', 'sym_grad', 'div'):
        out.append(rec(name, [M], [2]))
    unim = np.array([m for m in mat2 if abs(m[0, 0] * m[1, 1] - m[0, 1] * m[1, 0]) in (1, 2, 4)])
    out.append(rec('inv', [np.moveaxis(unim, 0, -1)], [2]))
    # pairs (A, C), A in mat2, C in few2
    A = np.repeat(mat2, len(few2), axis=0)
    C = np.tile(few2, (len(mat2), 1, 1))
    sel = np.arange(0, len(A), 7)
    A, C = np.moveaxis(A[sel], 0, -1), np.moveaxis(C[sel], 0, -1)
    for name in ('ddot', 'mulm'):
        out.append(rec(name, [A, C], [2, 2]))
    out.append(rec('mulv', [A, C[0]], [2, 1]))
    a2 = np.repeat(vec2, len(vec2), axis=0).T
    b2 = np.tile(vec2, (len(vec2), 1)).T
    for name in ('dot', 'prod2', 'cross2'):
        out.append(rec(name, [a2, b2], [1, 1]))
    a3 = np.repeat(vec3, len(vec3), axis=0).T
    b3 = np.tile(vec3, (len(vec3), 1)).T
    for name in ('dot', 'prod2', 'cross3'):
        out.append(rec(name, [a3, b3], [1, 1]))
    # 3x3 tensors with rows from vec3 (a sample of the 12^3 family)
    idx = [(i, j, k) for i in range(len(vec3)) for j in range(len(vec3)) for k in range(len(vec3))][::5]
    M3 = np.moveaxis(np.array([[vec3[i], vec3[j], vec3[k]] for i, j, k in idx]), 0, -1)
    for name in ('det', 'trace', 'transpose', 'curl_3', 'sym_grad'):
        out.append(rec(name, [M3], [2]))
    out.append(rec('mulm', [M3, M3[:, :, ::-1].copy()], [2, 2]))
    inv3 = np.array([m for m in np.moveaxis(M3, -1, 0) if abs(round(np.linalg.det(m))) in (1, 2, 4)])
    if len(inv3):
        out.append(rec('inv', [np.moveaxis(inv3, 0, -1)], [2]))
    out.append(rec('prod3', [a3[:, ::3], b3[:, ::3], a3[:, ::-3][:, :a3[:, ::3].shape[1]]], [1, 1, 1]))
    return out


# ------------------------------------------------------------------------------------------ plumbing

EXEC = {'nl': exec_nl, 'helper': exec_helper}


def execute(rec):
    return EXEC[rec['driver']](rec)


def scenario(sid, rec, tags):
    try:
        events = execute(rec)
    except fem.TooLarge:
        events = []
    return {'id': sid, 'recipe': rec, 'tags': tags, 'events': events}


def model(ctx, box):
    thorough = ctx.tier == 'thorough'
    out = os.path.join(ctx.scratch, 'c20_universe.json')
    for part in ('algebra', 'deriv', 'assemble'):
        ctx.model_must_hold('MC_C20', 'MC_C20.cfg', env={'MC_TIER': ctx.tier, 'MC_PART': part, 'MC_MUT': 'none', 'OUT_FILE': out},
                            timeout=3600 if thorough else 1500, workers=6, xmx='6g')
    rejected = {}
    for mut in ('dataij', 'rhssign'):
        r = ctx.tlc_model('MC_C20', 'MC_C20.cfg', env={'MC_TIER': 'quick', 'MC_PART': 'assemble', 'MC_MUT': mut, 'OUT_FILE': ''},
                          timeout=1200, workers=2, xmx='6g', label=f'seeded model deviation {mut} (violation expected)')
        rejected[mut] = bool(r['violated'])
    ctx.notes['model_deviations_rejected'] = rejected
    box['universe'] = out


def generate(ctx):
    thorough = ctx.tier == 'thorough'
    out = []
    for off, (gen, n, nm) in enumerate(((gen_nl, 6000 if thorough else 130, 'nl'), (gen_helper, 8000 if thorough else 260, 'helper'))):
        rng = np.random.default_rng(ctx.seed + 2000 + off)
        k = tries = 0
        while k < n and tries < 6 * n:
            tries += 1
            g = gen(rng)
            if g is None:
                continue
            out.append((f'C20-{nm}-{k}', g[0], g[1]))
            k += 1
    return out


def run(ctx):
    box = {}

    def bg():
        try:
            model(ctx, box)
        except BaseException as exc:
            box['exc'] = exc
    th = threading.Thread(target=bg)
    th.start()
    try:
        import skfem.autodiff  # noqa: F401  (JAX start-up while TLC runs)
        recs = generate(ctx)
        scs = [scenario(sid, rec, tags) for sid, rec, tags in recs]
    finally:
        th.join()
    if 'exc' in box:
        raise box['exc']
    n_tlc = 0
    if box.get('universe') and os.path.exists(box['universe']):
        for k, (rec, tags) in enumerate(replay_universe(box['universe'])):
            scs.append(scenario(f'C20-replay-{k}', rec, tags))
            n_tlc += 1
    ctx.notes['scenarios_from_tlc_universe'] = n_tlc
    ctx.notes['skipped_too_large'] = sum(1 for s in scs if not s['events'])
    ctx.validate('TraceC20', scs, jvms=8)
    keys = {json.dumps([s['tags'], s['recipe'].get('R'), s['recipe'].get('x'), s['recipe'].get('args')], sort_keys=True)
            for s in scs if s['events']}
    ctx.notes['distinct_nontrivial'] = len(keys)
    return ctx.finish(rule=RULE, assumptions=[
        'polynomial integrands on dyadic bases: JAX (float64) and NumPy results are exact, pi asserts this (EntriesIntegral)',
        'general smooth (transcendental) integrands are not covered: there is no exact oracle (DESIGN section 6)',
        'inverse: tensors with determinant +-1, +-2, +-4 (exact float inverse)',
        'TLC 1.8.0 and the CommunityModules Json module are trusted'], exhaustive=False)


def replay(ctx, doc):
    sc = doc['scenario']
    if sc.get('recipe', {}).get('driver') == 'model':
        for part in ('algebra', 'deriv', 'assemble'):
            ctx.model_must_hold('MC_C20', 'MC_C20.cfg', env={'MC_TIER': ctx.tier, 'MC_PART': part, 'MC_MUT': 'none', 'OUT_FILE': ''},
                                timeout=900, workers=4, xmx='6g')
        return ctx.finish(rule=RULE)
    sc2 = scenario(sc['id'], sc['recipe'], sc.get('tags', {}))
    ctx.validate('TraceC20', [sc2], jvms=8)
    return ctx.finish(rule=RULE)
