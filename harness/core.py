"""Core of the verification harness: TLC invocation, trace batches, verdicts, evidence.

Python never decides a property: it drives the library, projects concrete objects to the abstract
state (project.py) and hands JSON documents to TLC.  Verdicts are the clause names TLC reports.
"""
import atexit
import hashlib
import json
import os
import re
import shutil
import signal
import subprocess
import sys
import tempfile
import time
from concurrent.futures import ThreadPoolExecutor

VERIF = os.path.dirname(os.path.dirname(os.path.abspath(__file__)))
SPEC = os.path.join(VERIF, 'spec')
TLA_CP = '/opt/veriftools/tla/tla2tools.jar:/opt/veriftools/tla/CommunityModules-deps.jar'
NCPU = os.cpu_count() or 4


class MachineryError(Exception):
    """The verification machinery itself failed (exit code 2) -- never a verdict on the code."""


# --------------------------------------------------------------------------------------------
# per-call alarm: library hangs / exceptions become the event's `err`, judged by the clauses

class CallTimeout(Exception):
    pass


def _alarm_handler(signum, frame):
    raise CallTimeout()


class alarm:
    def __init__(self, seconds=20.0):
        self.seconds = seconds

    def __enter__(self):
        self.old = signal.signal(signal.SIGALRM, _alarm_handler)
        signal.setitimer(signal.ITIMER_REAL, self.seconds)

    def __exit__(self, *a):
        signal.setitimer(signal.ITIMER_REAL, 0)
        signal.signal(signal.SIGALRM, self.old)
        return False


def guarded(fn, seconds=20.0):
    """Run fn(); return (result, err) where err is '' or the exception class name / 'Timeout'."""
    try:
        with alarm(seconds):
            return fn(), ''
    except CallTimeout:
        return None, 'Timeout'
    except MachineryError:
        raise
    except BaseException as exc:  # library exceptions are observations
        if isinstance(exc, (KeyboardInterrupt, SystemExit)):
            raise
        return None, type(exc).__name__


# --------------------------------------------------------------------------------------------

def _jsonable_check(x, path='$'):
    """TLC's JsonDeserialize takes ints/strings/arrays/objects only; ints must fit 32 bit."""
    if isinstance(x, bool):
        raise MachineryError(f'bool at {path}')
    if isinstance(x, int):
        if not -2**31 < x < 2**31:
            raise MachineryError(f'int out of 32-bit range at {path}: {x}')
        return
    if isinstance(x, str):
        return
    if isinstance(x, (list, tuple)):
        for k, v in enumerate(x):
            _jsonable_check(v, f'{path}[{k}]')
        return
    if isinstance(x, dict):
        for k, v in x.items():
            if not isinstance(k, str):
                raise MachineryError(f'non-string key at {path}')
            _jsonable_check(v, f'{path}.{k}')
        return
    raise MachineryError(f'{type(x).__name__} at {path}')


class Ctx:
    def __init__(self, pid, tier='quick', seed=None, argv=None):
        self.pid = pid
        self.tier = tier
        self.seed = int(os.environ.get('VERIF_SEED', '0')) if seed is None else seed
        self.t0 = time.time()
        base = os.environ.get('VERIF_SCRATCH') or '/var/tmp'
        os.makedirs(base, exist_ok=True)
        self.scratch = tempfile.mkdtemp(prefix=f'skfem-verif.{pid}.', dir=base)
        atexit.register(shutil.rmtree, self.scratch, True)
        self.states = 0
        self.transitions = 0
        self.mc_runs = []          # per TLC run summaries
        self.scenarios_validated = 0
        self.events_validated = 0
        self.samples = []
        self.failures = []         # dicts: clause, tags, scenario, pos
        self.clause_counts = {}
        self.notes = {}
        self.exhaustive = None
        self.known = load_known_findings()
        self.replay_mode = False

    # ---------------------------------------------------------------- TLC plumbing
    def _tlc_cmd(self, module, cfg, workers, metadir, xmx='3g', extra=()):
        return ['java', '-XX:+UseParallelGC', f'-Xmx{xmx}', '-Xss64m', '-cp', TLA_CP, 'tlc2.TLC',
                '-workers', str(workers), '-metadir', metadir, '-noGenerateSpecTE',
                '-config', cfg, *extra, module]

    @staticmethod
    def _parse_tlc(out):
        gen = dist = None
        m = None
        for m in re.finditer(r'(\d+) states generated, (\d+) distinct states found', out):
            pass
        if m:
            gen, dist = int(m.group(1)), int(m.group(2))
        violated = re.findall(r'Invariant (\w+) is violated', out)
        violated += re.findall(r'Action property (\w+) is violated', out)
        violated += re.findall(r'The invariant of (\w+) is equal to FALSE', out)
        if 'Temporal properties were violated' in out:
            violated.append('TemporalProperty')
        if re.search(r'Deadlock reached', out):
            violated.append('Deadlock')
        ok = 'Model checking completed. No error has been found' in out
        return gen, dist, violated, ok

    def tlc_model(self, module, cfg, **kw):
        """Run one model-checking configuration (one retry on a machinery failure: transient resource shortage)."""
        try:
            return self._tlc_model_once(module, cfg, **kw)
        except MachineryError:
            time.sleep(2.0)
            return self._tlc_model_once(module, cfg, **kw)

    def _tlc_model_once(self, module, cfg, workers=NCPU, timeout=900, env=None, extra=(), expect_violations=False,
                        label=None, xmx='6g'):
        """Returns dict(states, distinct, violated, ok, out)."""
        metadir = tempfile.mkdtemp(prefix='mc.', dir=self.scratch)
        e = dict(os.environ)
        e.update(env or {})
        cmd = self._tlc_cmd(module + '.tla', os.path.join(SPEC, cfg), workers, metadir, xmx=xmx, extra=extra)
        t0 = time.time()
        # the timeout only guards against a genuine hang: models that take seconds on an idle machine were seen to take
        # more than ten minutes at load average 150, and a timeout is a machinery failure (exit 2), so keep it generous
        timeout = max(int(timeout), int(os.environ.get('VERIF_TLC_TIMEOUT_FLOOR', '2700')))
        try:
            p = subprocess.run(cmd, cwd=SPEC, env=e, capture_output=True, text=True, timeout=timeout)
        except subprocess.TimeoutExpired:
            raise MachineryError(f'TLC timed out on {cfg}')
        finally:
            pass
        out = p.stdout + p.stderr
        shutil.rmtree(metadir, True)
        gen, dist, violated, ok = self._parse_tlc(out)
        if gen is None and violated:
            gen = dist = 0                       # refuted while evaluating a constant-level invariant
        if gen is None or (not ok and not violated):
            raise MachineryError(f'TLC failed on {cfg}:\n{out[-3000:]}')
        self.states += dist
        self.transitions += gen
        rec = dict(cfg=cfg, module=module, generated=gen, distinct=dist, violated=violated,
                   wall_s=round(time.time() - t0, 2))
        if label:
            rec['label'] = label
        self.mc_runs.append(rec)
        rec2 = dict(rec)
        rec2['out'] = out
        rec2['ok'] = ok
        return rec2

    def model_must_hold(self, module, cfg, clause_prefix='Model', **kw):
        """Model-checking run whose invariants must hold; a violated invariant is a failure of the
        property *on the model* (reported like any other failed clause)."""
        r = self.tlc_model(module, cfg, **kw)
        for inv in r['violated']:
            self.fail(clause=f'{clause_prefix}:{inv}', tags={'mode': 'M', 'cfg': cfg},
                      scenario={'id': f'model:{cfg}', 'recipe': {'driver': 'model', 'cfg': cfg},
                                'events': [], 'tlc_tail': r['out'][-4000:]}, pos=0)
        return r

    def _run_shard(self, module, cfg, k, events):
        try:
            return self._run_shard_once(module, cfg, k, events)
        except (MachineryError, subprocess.TimeoutExpired, OSError, ValueError):
            time.sleep(2.0)                      # transient resource shortage (many JVMs): one retry
            return self._run_shard_once(module, cfg, k, events)

    def _run_shard_once(self, module, cfg, k, events):
        d = os.path.join(self.scratch, f'tr{k}.{time.time_ns()}')
        os.makedirs(d)
        tf, of = os.path.join(d, 'trace.json'), os.path.join(d, 'out.json')
        with open(tf, 'w') as f:
            json.dump({'events': events}, f, separators=(',', ':'))
        e = dict(os.environ, TRACE_FILE=tf, OUT_FILE=of)
        cmd = self._tlc_cmd(module + '.tla', os.path.join(SPEC, cfg), 1, os.path.join(d, 'meta'), xmx='2g')
        p = subprocess.run(cmd, cwd=SPEC, env=e, capture_output=True, text=True, timeout=3600)
        out = p.stdout + p.stderr
        gen, dist, violated, ok = self._parse_tlc(out)
        if not os.path.exists(of) or gen is None:
            raise MachineryError(f'trace validation by {module} did not complete:\n{out[-4000:]}')
        res = json.load(open(of))
        shutil.rmtree(d, True)
        if res['consumed'] != len(events):
            raise MachineryError(f'{module}: consumed {res["consumed"]} of {len(events)} events')
        return res, gen, dist

    def validate(self, module, scenarios, cfg=None, jvms=NCPU, sample=3):
        """code -> spec: hand the recorded scenarios to the trace specification `module`.
        Every failed clause becomes a failure record.  Returns number of failures."""
        cfg = cfg or module + '.cfg'
        scenarios = [s for s in scenarios if s['events']]
        if not scenarios:
            return 0
        for s in scenarios:
            _jsonable_check(s['events'], s['id'])
        # shard by event volume
        nshard = max(1, min(jvms, len(scenarios)))
        sizes = [0] * nshard
        shards = [[] for _ in range(nshard)]
        order = sorted(range(len(scenarios)), key=lambda j: -len(json.dumps(scenarios[j]['events'])))
        for j in order:
            k = sizes.index(min(sizes))
            shards[k].append(j)
            sizes[k] += len(json.dumps(scenarios[j]['events'])) + 200
        jobs = []
        for k, idxs in enumerate(shards):
            evs = []
            for j in idxs:
                for pos, ev in enumerate(scenarios[j]['events'], 1):
                    evs.append(dict(ev, sid=j + 1, pos=pos))
            if evs:
                jobs.append((k, evs))
        n0 = len(self.failures)
        with ThreadPoolExecutor(max_workers=jvms) as ex:
            results = list(ex.map(lambda a: self._run_shard(module, cfg, a[0], a[1]), jobs))
        for res, gen, dist in results:
            self.states += dist
            self.transitions += gen
            for c, n in res.get('cnt', {}).items():
                self.clause_counts[c] = self.clause_counts.get(c, 0) + n
            for b in res['bad']:
                if b['clause'].startswith('Drift_'):        # model drift is evidence, never a verdict
                    d = self.notes.setdefault('model_drift', {})
                    d[b['clause']] = d.get(b['clause'], 0) + 1
                    ex_ = self.notes.setdefault('model_drift_examples', [])
                    if len(ex_) < 8:
                        sc_ = scenarios[b['sid'] - 1]
                        ex_.append({'clause': b['clause'], 'scenario': sc_['id'], 'pos': b['pos'], 'tags': sc_.get('tags', {}),
                                    'family': (sc_.get('recipe') or {}).get('family', '')})
                    continue
                sc = scenarios[b['sid'] - 1]
                tags = dict(sc.get('tags', {}))
                ev = sc['events'][b['pos'] - 1]
                tags.update(ev.get('tags', {}) if isinstance(ev.get('tags'), dict) else {})
                tags.setdefault('a', ev.get('a', ''))
                self.fail(clause=b['clause'], tags=tags, scenario=sc, pos=b['pos'])
        self.scenarios_validated += len(scenarios)
        self.events_validated += sum(len(s['events']) for s in scenarios)
        for s in scenarios[:max(0, sample - len(self.samples))]:
            self.samples.append(_abbrev({'id': s['id'], 'recipe': s.get('recipe'), 'tags': s.get('tags'),
                                         'events': s['events'][:2]}))
        return len(self.failures) - n0

    # ---------------------------------------------------------------- verdicts
    def fail(self, clause, tags, scenario, pos):
        self.failures.append(dict(clause=clause, tags=tags, scenario=scenario, pos=pos))

    def finish(self, level='model_checking', rule='', assumptions=(), extra=None, exhaustive=None):
        viol, known_hit = [], {}
        for f in self.failures:
            kf = match_known(self.known, self.pid, f['clause'], f['tags'])
            if kf is not None:
                known_hit.setdefault(kf['id'], [kf, 0])
                known_hit[kf['id']][1] += 1
            else:
                viol.append(f)
        for kid, (kf, n) in sorted(known_hit.items()):
            print(f'KNOWN-FINDING: property={self.pid} {kf["what"]} [{kid}; {n} occurrence(s)]')
        # one replay file per distinct (scenario, clause set)
        by_sc = {}
        for f in viol:
            by_sc.setdefault(f['scenario']['id'], []).append(f)
        outdir = os.environ.get('VERIF_OUT_DIR') or VERIF     # mutation self-tests redirect evidence/replays
        os.makedirs(os.path.join(outdir, 'replays'), exist_ok=True)
        paths = []
        for sid, fs in list(by_sc.items())[:25]:
            sc = fs[0]['scenario']
            doc = {'property': self.pid, 'clauses': sorted({f['clause'] for f in fs}),
                   'positions': sorted({f['pos'] for f in fs}), 'tags': fs[0]['tags'], 'scenario': sc}
            h = hashlib.sha1(json.dumps([sid, doc['clauses'], sc.get('recipe')], sort_keys=True, default=str)
                             .encode()).hexdigest()[:12]
            path = os.path.join(outdir, 'replays', f'{self.pid}-{h}.json')
            if not self.replay_mode:
                with open(path, 'w') as fh:
                    json.dump(doc, fh, indent=1, default=str)
            else:
                path = self.replay_path
            paths.append(path)
            print(f'VIOLATION property={self.pid} replay={path}')
            print(f'  clauses={",".join(doc["clauses"])} scenario={sid} tags={json.dumps(fs[0]["tags"], default=str)[:300]}')
        if len(by_sc) > 25:
            print(f'  ... and {len(by_sc) - 25} more violating scenarios')
        cov = {
            'states': max(self.states, 0), 'transitions': max(self.transitions, 0),
            'traces_validated_against_impl': self.scenarios_validated,
            'events_validated': self.events_validated,
            'samples': self.samples[:5] or [{'note': 'no trace scenario in this run'}],
            'evaluations': self.scenarios_validated + len(self.mc_runs),
            'distinct_nontrivial': self.notes.pop('distinct_nontrivial', self.scenarios_validated),
            'rule': rule,
            'tlc_runs': self.mc_runs,
            'clauses_exercised': dict(sorted(self.clause_counts.items())),
            'known_findings_hit': {k: v[1] for k, v in known_hit.items()},
            'checker_cmd': 'java -cp tla2tools.jar tlc2.TLC (TLC 1.8.0) on spec/*.tla',
        }
        if exhaustive is not None:
            cov['exhaustive'] = bool(exhaustive)
        cov.update(self.notes)
        if extra:
            cov.update(extra)
        ev = {'property_id': self.pid, 'tier': self.tier, 'seed': self.seed, 'level': level, 'coverage': cov,
              'assumptions': list(assumptions), 'wall_s': round(time.time() - self.t0, 2),
              'violations': len(by_sc)}
        if not self.replay_mode:
            os.makedirs(os.path.join(outdir, 'evidence'), exist_ok=True)
            with open(os.path.join(outdir, 'evidence', f'{self.pid}.json'), 'w') as fh:
                json.dump(ev, fh, indent=1, default=str)
        print(f'[{self.pid}] tier={self.tier} seed={self.seed} states={self.states} '
              f'traces={self.scenarios_validated} events={self.events_validated} '
              f'violating_scenarios={len(by_sc)} known={sum(v[1] for v in known_hit.values())} '
              f'wall={ev["wall_s"]}s')
        return 1 if viol else 0


def _abbrev(x, maxlen=40, depth=0):
    """Shorten long arrays in samples so evidence stays readable."""
    if isinstance(x, dict):
        return {k: _abbrev(v, maxlen, depth + 1) for k, v in x.items()}
    if isinstance(x, (list, tuple)):
        if len(x) > maxlen:
            return [_abbrev(v, maxlen, depth + 1) for v in x[:maxlen]] + [f'... {len(x) - maxlen} more']
        return [_abbrev(v, maxlen, depth + 1) for v in x]
    return x


# --------------------------------------------------------------------------------------------
# known findings (committed file, never written at run time)

def load_known_findings():
    paths = [os.path.join(VERIF, 'known_findings.jsonl')]
    d = os.path.join(VERIF, 'known_findings.d')
    if os.path.isdir(d):
        paths += [os.path.join(d, f) for f in sorted(os.listdir(d)) if f.endswith('.jsonl')]
    out = []
    for path in paths:
        if os.path.exists(path):
            for line in open(path):
                line = line.strip()
                if line and not line.startswith('#') and not line.startswith('fixed:'):
                    out.append(json.loads(line))
    return out


def match_known(known, pid, clause, tags):
    for kf in known:
        if kf.get('status') != 'known' or kf.get('property') != pid:
            continue
        cl = kf.get('clause')
        if cl is not None:
            cls = cl if isinstance(cl, list) else [cl]
            if clause not in cls:
                continue
        ok = True
        for k, v in kf.get('match', {}).items():
            tv = tags.get(k)
            vs = v if isinstance(v, list) else [v]
            if str(tv) not in [str(x) for x in vs]:
                ok = False
                break
        if ok:
            return kf
    return None


def sany_check(modules):
    """Parse modules with SANY (setup / machinery sanity), in parallel."""
    def one(m):
        p = subprocess.run(['java', '-cp', TLA_CP, 'tla2sany.SANY', m], cwd=SPEC, capture_output=True, text=True)
        out = p.stdout + p.stderr
        if p.returncode != 0 or 'Semantic errors' in out or 'Parse Error' in out or 'Could not' in out \
                or '*** Errors' in out or 'Fatal errors' in out:
            return (m, out[-1500:])
        return None
    with ThreadPoolExecutor(max_workers=NCPU) as ex:
        res = list(ex.map(one, modules))
    return [r for r in res if r]
