-------------------------------- MODULE Dofs --------------------------------
(* Degree-of-freedom numbering (property C04) and DOF lookup (property C07)   *)
(* of scikit-fem.                                                              *)
(*                                                                             *)
(* Conventions.  Mesh entities (vertices, edges, facets, cells) are 1-based    *)
(* (the harness adds 1 to the code's ids); DOF numbers stay 0-based because    *)
(* the property speaks about the range 0..N-1.  A DOF table is a sequence over *)
(* the entities of a kind, each entry the sequence of the numbers attached to  *)
(* that entity (column of the code's array); an array with no rows is <<>> or  *)
(* a sequence of empty sequences.                                              *)
(*                                                                             *)
(* Layers:                                                                     *)
(*   - NumberDofsImpl : transcription of Dofs.__init__ (dofs.py:264-334);      *)
(*   - Number* / Mat* clauses : what C04 demands of the reported tables;       *)
(*   - Closure*, ExpectedDofs : the C07 semantics of a DOF query;              *)
(*   - *Impl operators of the second half : transcription of get_*_dofs,       *)
(*     _expand_facets, _dofnames_to_rows and the DofsView algebra.             *)
EXTENDS MeshTopology, Fx

NRefEdges(kind)  == Cardinality(RefEdges(kind))
NRefFacets(kind) == Cardinality(RefFacets(kind))
\* number of local basis functions (skfem/element/element.py:136-141, _bfun_counts)
NBfun(kind, sig) == sig.n * NNodes(kind) + sig.e * NRefEdges(kind) + sig.f * NRefFacets(kind) + sig.i

\* the numbering code uses edge DOFs only in 3-D and gathers facet DOFs only for dim >= 2 (dofs.py:276,314,322)
UsesE(kind, sig) == Dim(kind) = 3 /\ sig.e > 0
UsesF(kind, sig) == Dim(kind) >= 2 /\ sig.f > 0
\* signatures the check constructs: no edge DOFs below 3-D, no facet DOFs in 1-D, not all zero
Admissible(kind, sig) == /\ (Dim(kind) < 3 => sig.e = 0) /\ (Dim(kind) < 2 => sig.f = 0)
                         /\ sig.n + sig.e + sig.f + sig.i > 0

Row(tbl, g) == IF g \in DOMAIN tbl THEN tbl[g] ELSE <<>>
TabDofs(tbl) == UNION {VSet(tbl[g]) : g \in DOMAIN tbl}

\* ===========================================================================
\* Transcription of Dofs.__init__ (skfem/assembly/dofs.py:264-334)
\*   np.reshape(np.arange(cnt*nents), (cnt, nents), order='F') + offset :  entry (r, g) = offset + g*cnt + r
Block(cnt, nents, off) == [g \in 1..nents |-> [r \in 1..cnt |-> off + (g - 1) * cnt + (r - 1)]]

\* dr = the dimension the code reads: element.refdom.dim() = Dim(kind) since fix bb3ad7e; before it was element.dim,
\* which an ElementVector(elem, d) answers with its number of components d (regression model MC_C04_olddim.cfg)
NumberDofsImplRead(kind, dr, nv, ne, nf, t, t2e, t2f, sig) ==
  LET nt    == Len(t)
      nodal == Block(sig.n, nv, 0)                                                   \* :269-273
      off1  == sig.n * nv
      useE  == dr = 3 /\ sig.e > 0                                                   \* :276
      edge  == IF useE THEN Block(sig.e, ne, off1) ELSE <<>>                         \* :277-284
      off2  == off1 + (IF useE THEN sig.e * ne ELSE 0)
      facet == IF sig.f > 0 THEN Block(sig.f, nf, off2) ELSE <<>>                    \* :287-295
      off3  == off2 + (IF sig.f > 0 THEN sig.f * nf ELSE 0)
      inter == Block(sig.i, nt, off3)                                                \* :298-301
      cell  == [k \in 1..nt |->
                  FlattenSeq([j \in 1..Len(t[k]) |-> nodal[t[k][j]]])                \* :307-311
                  \o (IF useE THEN FlattenSeq([s \in 1..Len(t2e[k]) |-> edge[t2e[k][s]]]) ELSE <<>>)      \* :314-319
                  \o (IF dr >= 2 /\ sig.f > 0
                      THEN FlattenSeq([s \in 1..Len(t2f[k]) |-> facet[t2f[k][s]]]) ELSE <<>>)             \* :322-327
                  \o inter[k]]                                                       \* :330-331
  IN [ kind |-> kind, nv |-> nv, ne |-> ne, nf |-> nf, t |-> t, t2e |-> t2e, t2f |-> t2f, sig |-> sig, err |-> "",
       nodal |-> nodal, edge |-> edge, facet |-> facet, interior |-> inter, cell |-> cell,
       N |-> LET used == UNION {VSet(cell[k]) : k \in 1..nt} IN
             IF used = {} THEN 0 ELSE MaxSet(used) + 1,                               \* :334 (np.max of nothing raises)
       shp |-> [ nodal |-> <<sig.n, nv>>,
                 edge |-> IF useE THEN <<sig.e, ne>> ELSE <<0, 0>>,
                 facet |-> IF sig.f > 0 THEN <<sig.f, nf>> ELSE <<0, 0>>,
                 interior |-> <<sig.i, nt>>,
                 cell |-> <<Len(cell[1]), nt>> ],
       loc |-> [mode |-> "none"] ]

NumberDofsImpl(kind, nv, ne, nf, t, t2e, t2f, sig) == NumberDofsImplRead(kind, Dim(kind), nv, ne, nf, t, t2e, t2f, sig)

\* ===========================================================================
\* C04 clauses on a Number event e (tables as reported by Dofs / Basis)
NTc(e) == Len(e.t)

TabOK(tbl, cnt, nents, N) ==
  IF cnt = 0 THEN \A g \in DOMAIN tbl : tbl[g] = <<>>
  ELSE /\ Len(tbl) = nents
       /\ \A g \in 1..nents : Len(tbl[g]) = cnt /\ \A r \in 1..cnt : tbl[g][r] >= 0 /\ tbl[g][r] < N

NumWellFormed(e) ==
  /\ e.err = ""
  /\ NTc(e) >= 1 /\ e.N >= 1
  /\ Admissible(e.kind, e.sig)
  /\ \A k \in 1..NTc(e) : Len(e.t[k]) = NNodes(e.kind) /\ IdsIn(e.t[k], e.nv)
  /\ Len(e.t2f) = NTc(e)
  /\ \A k \in 1..NTc(e) : Len(e.t2f[k]) = NRefFacets(e.kind) /\ IdsIn(e.t2f[k], e.nf)
  /\ Dim(e.kind) = 3 => /\ Len(e.t2e) = NTc(e)
                        /\ \A k \in 1..NTc(e) : Len(e.t2e[k]) = NRefEdges(e.kind) /\ IdsIn(e.t2e[k], e.ne)
  \* every cell has as many numbers as the element has local basis functions
  /\ Len(e.cell) = NTc(e)
  /\ \A k \in 1..NTc(e) : /\ Len(e.cell[k]) = NBfun(e.kind, e.sig)
                          /\ \A r \in DOMAIN e.cell[k] : e.cell[k][r] >= 0 /\ e.cell[k][r] < 1000000
  /\ TabOK(e.nodal, e.sig.n, e.nv, 1000000)
  /\ TabOK(e.edge, IF UsesE(e.kind, e.sig) THEN e.sig.e ELSE 0, e.ne, 1000000)
  /\ TabOK(e.facet, IF UsesF(e.kind, e.sig) THEN e.sig.f ELSE 0, e.nf, 1000000)
  /\ TabOK(e.interior, e.sig.i, NTc(e), 1000000)

CellSets(e) == [k \in 1..NTc(e) |-> VSet(e.cell[k])]

\* the numbers referenced by the cells are exactly 0..N-1
Contiguous(e, cd) == UNION {cd[k] : k \in 1..NTc(e)} = 0..(e.N - 1)

\* every number is attached to exactly one slot of exactly one entity table, and the tables enumerate 0..N-1
AttachedTotal(e) == e.sig.n * e.nv + (IF UsesE(e.kind, e.sig) THEN e.sig.e * e.ne ELSE 0)
                    + (IF UsesF(e.kind, e.sig) THEN e.sig.f * e.nf ELSE 0) + e.sig.i * NTc(e)
AttachedAll(e)   == TabDofs(e.nodal) \cup TabDofs(e.edge) \cup TabDofs(e.facet) \cup TabDofs(e.interior)
AttachedUnique(e) == LET a == AttachedAll(e) IN Cardinality(a) = AttachedTotal(e) /\ a = 0..(e.N - 1)

\* entities a cell contains, by the connectivity the mesh reports
Ents(e, k) == {<<"v", e.t[k][j]>> : j \in DOMAIN e.t[k]}
              \cup (IF Dim(e.kind) = 3 THEN {<<"e", e.t2e[k][s]>> : s \in DOMAIN e.t2e[k]} ELSE {})
              \cup (IF Dim(e.kind) >= 2 THEN {<<"f", e.t2f[k][s]>> : s \in DOMAIN e.t2f[k]} ELSE {})
              \cup {<<"c", k>>}
EntDofs(e, ent) == CASE ent[1] = "v" -> VSet(Row(e.nodal, ent[2]))
                     [] ent[1] = "e" -> VSet(Row(e.edge, ent[2]))
                     [] ent[1] = "f" -> VSet(Row(e.facet, ent[2]))
                     [] ent[1] = "c" -> VSet(Row(e.interior, ent[2]))

\* two cells reference the same number iff it is attached (entity tables) to an entity both contain
SharedIff(e, cd) ==
  LET en == [k \in 1..NTc(e) |-> Ents(e, k)] IN
  \A k1, k2 \in 1..NTc(e) : k1 < k2 =>
     (cd[k1] \cap cd[k2]) = UNION {EntDofs(e, ent) : ent \in en[k1] \cap en[k2]}

\* cell-interior numbers belong to one cell only
InteriorUnique(e, cd) ==
  \A k \in DOMAIN e.interior : \A r \in DOMAIN e.interior[k] :
     {k2 \in 1..NTc(e) : e.interior[k][r] \in cd[k2]} = {k}

\* per-cell numbering = vertex rows (local vertex order, all numbers of a vertex together), edge rows through
\* t2e, facet rows through t2f, interior rows -- the order of the element's local basis functions
ExpectedCellRow(e, k) ==
  FlattenSeq([j \in 1..Len(e.t[k]) |-> Row(e.nodal, e.t[k][j])])
  \o (IF UsesE(e.kind, e.sig) THEN FlattenSeq([s \in 1..Len(e.t2e[k]) |-> Row(e.edge, e.t2e[k][s])]) ELSE <<>>)
  \o (IF UsesF(e.kind, e.sig) THEN FlattenSeq([s \in 1..Len(e.t2f[k]) |-> Row(e.facet, e.t2f[k][s])]) ELSE <<>>)
  \o Row(e.interior, k)
RowOrder(e) == \A k \in 1..NTc(e) : e.cell[k] = ExpectedCellRow(e, k)

\* array shapes (rows, columns) of the reported tables
TableShapes(e) ==
  /\ e.shp.nodal = <<e.sig.n, e.nv>>
  /\ e.shp.interior = <<e.sig.i, NTc(e)>>
  /\ e.shp.cell = <<NBfun(e.kind, e.sig), NTc(e)>>
  /\ IF UsesE(e.kind, e.sig) THEN e.shp.edge = <<e.sig.e, e.ne>> ELSE e.shp.edge[1] = 0
  /\ IF UsesF(e.kind, e.sig) THEN e.shp.facet = <<e.sig.f, e.nf>> ELSE e.shp.facet[1] = 0

\* ---- DOF locations.  loc = [mode, L, sc, ref, p, glob]:
\*   ref[r]  : reference location of local basis function r as integers over L (<<>> = the element gives none),
\*   p[v]    : vertex coordinates times sc (integers), glob[d] : reported location of DOF d,
\*   mode "exact": glob[d] integers = location * sc * L^deg ; mode "fx": glob[d][c] fixed-point limbs of location*sc.
\* Reference map of the first-order meshes: weights of the cell's vertices with common denominator L^deg.
MapDeg(kind) == CASE kind \in {"line", "tri", "tet"} -> 1 [] kind \in {"quad", "wedge"} -> 2 [] kind = "hex" -> 3
HexOff == << <<1,1,1>>, <<1,1,0>>, <<1,0,1>>, <<0,1,1>>, <<1,0,0>>, <<0,1,0>>, <<0,0,1>>, <<0,0,0>> >>
MapWeights(kind, L, a) ==
  CASE kind = "line"  -> <<L - a[1], a[1]>>
    [] kind = "tri"   -> <<L - a[1] - a[2], a[1], a[2]>>
    [] kind = "tet"   -> <<L - a[1] - a[2] - a[3], a[1], a[2], a[3]>>
    [] kind = "quad"  -> <<(L - a[1]) * (L - a[2]), a[1] * (L - a[2]), a[1] * a[2], (L - a[1]) * a[2]>>
    [] kind = "hex"   -> [v \in 1..8 |-> (IF HexOff[v][1] = 1 THEN a[1] ELSE L - a[1])
                                          * (IF HexOff[v][2] = 1 THEN a[2] ELSE L - a[2])
                                          * (IF HexOff[v][3] = 1 THEN a[3] ELSE L - a[3])]
    [] kind = "wedge" -> <<(L - a[1] - a[2]) * (L - a[3]), a[1] * (L - a[3]), a[2] * (L - a[3]),
                           (L - a[1] - a[2]) * a[3], a[1] * a[3], a[2] * a[3]>>
\* numerator (over L^deg) of the image of reference point a in cell k
\* coordinates of local vertex v of cell k: column t[k][v] of the vertex table, or -- on meshes with a discontinuous
\* geometry (Mesh*1DG / periodic: the topology t is identified, every cell keeps its own corner coordinates) -- loc.pc
HasCellP(e) == "pc" \in DOMAIN e.loc
CellP(e, k, v) == IF HasCellP(e) THEN e.loc.pc[k][v] ELSE e.loc.p[e.t[k][v]]
MapNum(e, k, a) ==
  LET w == MapWeights(e.kind, e.loc.L, a) IN
  [c \in 1..Dim(e.kind) |-> SumSeq([v \in 1..Len(w) |-> w[v] * CellP(e, k, v)[c]])]
\* absolute tolerance on recorded locations (times the mesh scale <= 64, |x| < 2^10): observed round-off is a few units
\* in the last place (worst measured 1.2e-15); 2^-30 (9.3e-10) leaves ~8e5 above that and is > 1e5 below
\* the smallest distance between two distinct reference locations mapped to any universe cell (>= 1/12 * 2^-6 * ...)
LocTol == FxTol(30)
LocDen(e) == e.loc.L ^ MapDeg(e.kind)
LocMatches(e, d, num) ==
  IF e.loc.mode = "exact" THEN e.loc.glob[d + 1] = num
  ELSE /\ Len(e.loc.glob[d + 1]) = Len(num)
       /\ \A c \in DOMAIN num : FxNear(e.loc.glob[d + 1][c], FxRat(num[c], LocDen(e)), LocTol)
\* (the reference table may list more rows than the element has functions: the boundary part of Element.condensed()
\* keeps the rows of the interior functions it dropped; rows 1..NBfun belong to the functions)
LocWellFormed(e) ==
  /\ Len(e.loc.ref) >= NBfun(e.kind, e.sig)
  /\ IF HasCellP(e)
     THEN Len(e.loc.pc) = NTc(e) /\ \A k \in 1..NTc(e) :
             Len(e.loc.pc[k]) = NNodes(e.kind) /\ \A v \in 1..NNodes(e.kind) : Len(e.loc.pc[k][v]) = Dim(e.kind)
     ELSE Len(e.loc.p) = e.nv /\ \A v \in 1..e.nv : Len(e.loc.p[v]) = Dim(e.kind)
  /\ Len(e.loc.glob) = e.N
  /\ \A r \in DOMAIN e.loc.ref : e.loc.ref[r] = <<>> \/ Len(e.loc.ref[r]) = Dim(e.kind)
\* the location of every DOF is the mapped reference location of a local basis function that carries this number
\* in some cell (no location where the element gives none)
DofLocsCoherent(e) ==
  /\ LocWellFormed(e)
  /\ IF e.loc.mode = "exact"
     THEN LET seen == {<<e.cell[k][r], IF e.loc.ref[r] = <<>> THEN <<>> ELSE MapNum(e, k, e.loc.ref[r])>> :
                          k \in 1..NTc(e), r \in 1..NBfun(e.kind, e.sig)}
          IN \A d \in 0..(e.N - 1) : <<d, e.loc.glob[d + 1]>> \in seen
     ELSE \A d \in 0..(e.N - 1) : \E k \in 1..NTc(e) : \E r \in 1..NBfun(e.kind, e.sig) :
             /\ e.cell[k][r] = d
             /\ IF e.loc.ref[r] = <<>> THEN e.loc.glob[d + 1] = <<>>
                ELSE e.loc.glob[d + 1] # <<>> /\ LocMatches(e, d, MapNum(e, k, e.loc.ref[r]))

\* Transcription of the scatter in AbstractBasis.__init__ (abstract_basis.py:61-73): rows are written in increasing
\* order, within a row the cells in increasing order, so the last (row, cell) that carries a number determines it
DofLocsImpl(e) ==
  [dd \in 1..e.N |->
     LET rs == {r \in 1..NBfun(e.kind, e.sig) : \E k \in 1..NTc(e) : e.cell[k][r] = dd - 1} IN
     IF rs = {} THEN <<>>
     ELSE LET r == MaxSet(rs)
              k == MaxSet({kk \in 1..NTc(e) : e.cell[kk][r] = dd - 1})
          IN IF e.loc.ref[r] = <<>> THEN <<>> ELSE MapNum(e, k, e.loc.ref[r])]
\* reference vertices of the first-order cells (skfem/refdom.py)
RefP(kind) ==
  CASE kind = "line" -> << <<0>>, <<1>> >>
    [] kind = "tri"  -> << <<0,0>>, <<1,0>>, <<0,1>> >>
    [] kind = "quad" -> << <<0,0>>, <<1,0>>, <<1,1>>, <<0,1>> >>
    [] kind = "tet"  -> << <<0,0,0>>, <<1,0,0>>, <<0,1,0>>, <<0,0,1>> >>
    [] kind = "hex"  -> HexOff
    [] kind = "wedge" -> << <<0,0,0>>, <<1,0,0>>, <<0,1,0>>, <<0,0,1>>, <<1,0,1>>, <<0,1,1>> >>

\* ---- the reference location of local basis function r lies on the reference entity that row r of the per-cell
\* table belongs to (rows: vertices in local order, local edges loc.le, local facets loc.lf, cell).  Together with
\* RowOrder and DofLocsCoherent: a number of the per-edge table is located on that edge, etc.
RowEntity(e, r) ==
  LET nN == NNodes(e.kind) * e.sig.n
      nE == NRefEdges(e.kind) * e.sig.e
      nF == NRefFacets(e.kind) * e.sig.f
  IN IF r <= nN THEN {((r - 1) \div e.sig.n) + 1}
     ELSE IF r <= nN + nE THEN VSet(e.loc.le[((r - nN - 1) \div e.sig.e) + 1])
     ELSE IF r <= nN + nE + nF THEN VSet(e.loc.lf[((r - nN - nE - 1) \div e.sig.f) + 1])
     ELSE 1..NNodes(e.kind)
OnRefEntity(kind, L, a, S) ==
  IF kind \in {"line", "tri", "tet"}
  THEN LET lam == <<L - SumSeq(a)>> \o a IN                      \* barycentric coordinates times L
       \A v \in 1..NNodes(kind) : lam[v] >= 0 /\ (v \notin S => lam[v] = 0)
  ELSE IF kind \in {"quad", "hex"}
  THEN \A c \in 1..Dim(kind) : LET bs == {RefP(kind)[v][c] : v \in S} IN
          IF Cardinality(bs) = 1 THEN \A b \in bs : a[c] = L * b ELSE a[c] \in 0..L
  ELSE LET lam == <<L - a[1] - a[2], a[1], a[2]>>                 \* wedge = triangle x segment
           T   == {((v - 1) % 3) + 1 : v \in S}
           lv  == {(v - 1) \div 3 : v \in S}
       IN /\ \A j \in 1..3 : lam[j] >= 0 /\ (j \notin T => lam[j] = 0)
          /\ IF Cardinality(lv) = 1 THEN \A b \in lv : a[3] = L * b ELSE a[3] \in 0..L
LocOnEntity(e) ==
  /\ Len(e.loc.ref) >= NBfun(e.kind, e.sig)
  /\ {VSet(e.loc.lf[s]) : s \in DOMAIN e.loc.lf} = RefFacets(e.kind) /\ Len(e.loc.lf) = NRefFacets(e.kind)
  /\ {VSet(e.loc.le[s]) : s \in DOMAIN e.loc.le} = RefEdges(e.kind) /\ Len(e.loc.le) = NRefEdges(e.kind)
  /\ \A r \in 1..NBfun(e.kind, e.sig) :
        \/ e.loc.ref[r] = <<>>
        \/ /\ Len(e.loc.ref[r]) = Dim(e.kind)
           /\ OnRefEntity(e.kind, e.loc.L, e.loc.ref[r], RowEntity(e, r))

\* ---- one number, one point: every cell that carries number d in row r places it -- through its own reference map --
\* at the location the table reports for d.  A location that depends on the direction in which the entity is traversed
\* (e.g. 1/3 along a facet) is the same from both sides only where the library fixes that direction for all cells:
\* on its sorted triangle / segment meshes (event flag orient = 1, a precondition stated by the driver: first-order
\* MeshTri1 / MeshLine1 not built with sort_t = False nor passed through oriented()).  Elsewhere the clause speaks
\* about the rows located at the barycentre of their entity (vertices, midpoints, centroids), which no traversal
\* direction can move.  Not evaluated on meshes with per-cell geometry (periodic: locations differ by periods).
AtBarycentre(e, r) ==
  LET S == RowEntity(e, r) IN
  \A c \in 1..Dim(e.kind) : Cardinality(S) * e.loc.ref[r][c] = e.loc.L * SumOver([v \in S |-> RefP(e.kind)[v][c]], S)
SamePointFromAllCells(e) ==
  \A k \in 1..NTc(e) : \A r \in 1..NBfun(e.kind, e.sig) :
     (e.loc.ref[r] # <<>> /\ (e.orient = 1 \/ AtBarycentre(e, r))) =>
        /\ e.loc.glob[e.cell[k][r] + 1] # <<>>
        /\ LocMatches(e, e.cell[k][r], MapNum(e, k, e.loc.ref[r]))

\* ---- composite elements: e.dec = [sigs, dec]; dec[i] = <<component, index within the component>> as the composite
\* itself decodes local basis function i (ElementComposite._deduce_bfun).  The composite's local functions follow the
\* row order of the per-cell table: per vertex / local edge / local facet / cell the components in turn, and a
\* component's functions keep the component's own order.
CompositeExpected(kind, sigs) ==
  LET nc == Len(sigs)
      nn == NNodes(kind)  ne == NRefEdges(kind)  nf == NRefFacets(kind)
  IN FlattenSeq([j \in 1..nn |-> FlattenSeq([c \in 1..nc |-> [q \in 1..sigs[c].n |-> <<c, (j - 1) * sigs[c].n + q>>]])])
     \o FlattenSeq([g \in 1..ne |-> FlattenSeq([c \in 1..nc |->
             [q \in 1..sigs[c].e |-> <<c, nn * sigs[c].n + (g - 1) * sigs[c].e + q>>]])])
     \o FlattenSeq([g \in 1..nf |-> FlattenSeq([c \in 1..nc |->
             [q \in 1..sigs[c].f |-> <<c, nn * sigs[c].n + ne * sigs[c].e + (g - 1) * sigs[c].f + q>>]])])
     \o FlattenSeq([c \in 1..nc |->
             [q \in 1..sigs[c].i |-> <<c, nn * sigs[c].n + ne * sigs[c].e + nf * sigs[c].f + q>>]])
CompositeDecodeOK(e) ==
  /\ e.sig.n = SumSeq([c \in DOMAIN e.dec.sigs |-> e.dec.sigs[c].n])
  /\ e.sig.e = SumSeq([c \in DOMAIN e.dec.sigs |-> e.dec.sigs[c].e])
  /\ e.sig.f = SumSeq([c \in DOMAIN e.dec.sigs |-> e.dec.sigs[c].f])
  /\ e.sig.i = SumSeq([c \in DOMAIN e.dec.sigs |-> e.dec.sigs[c].i])
  /\ e.dec.dec = CompositeExpected(e.kind, e.dec.sigs)

NumberClausesBase(e) ==
  IF ~NumWellFormed(e) THEN [WellFormed |-> FALSE]
  ELSE LET cd == CellSets(e)
           base == [ WellFormed |-> TRUE,
                     Contiguous |-> Contiguous(e, cd),
                     AttachedUnique |-> AttachedUnique(e),
                     SharedIff |-> SharedIff(e, cd),
                     InteriorUnique |-> InteriorUnique(e, cd),
                     RowOrder |-> RowOrder(e),
                     TableShapes |-> TableShapes(e) ]
       IN IF e.loc.mode = "none" THEN base
          ELSE IF e.loc.mode = "missing" THEN base @@ [DofLocsAvailable |-> FALSE]     \* element gives locations, basis has no table
          ELSE IF e.loc.mode = "inexact" THEN base @@ [DofLocsExact |-> FALSE]
          ELSE (IF base.Contiguous /\ e.N <= 100000
                THEN base @@ [DofLocsCoherent |-> DofLocsCoherent(e)]
                          @@ (IF LocWellFormed(e) /\ ~HasCellP(e) /\ "orient" \in DOMAIN e
                              THEN [SamePointFromAllCells |-> SamePointFromAllCells(e)] ELSE <<>>)
                ELSE base)
               @@ [LocOnEntity |-> LocOnEntity(e)]
\* ---- periodic meshes: e.per = [pc, period]; pc[k][v] the coordinates of local vertex v of cell k, period[c] the
\* period in coordinate c (0 = not periodic).  Two (cell, local vertex) slots carry the same vertex number iff their
\* coordinates agree modulo the periods: the identified topology is the one of the periodic domain.
Congruent(a, b, per) == \A c \in DOMAIN a : IF per[c] = 0 THEN a[c] = b[c] ELSE Abs(a[c] - b[c]) % per[c] = 0
PeriodicIdentification(e) ==
  /\ Len(e.per.pc) = NTc(e)
  /\ \A k \in 1..NTc(e) : Len(e.per.pc[k]) = NNodes(e.kind)
  /\ LET slots == {<<k, v>> : k \in 1..NTc(e), v \in 1..NNodes(e.kind)} IN
     \A s1, s2 \in slots :
        (e.t[s1[1]][s1[2]] = e.t[s2[1]][s2[2]])
          <=> Congruent(e.per.pc[s1[1]][s1[2]], e.per.pc[s2[1]][s2[2]], e.per.period)

\* while the basis was built a logger of the library reported at WARNING level or above (whatever the wording) AND the
\* location table it left behind is identically zero although the element has reference locations: the table was not
\* built.  (A warning alone, or a table that is correct in spite of a warning, is no violation.)
ZeroLoc(e, x) == x # <<>> /\ \A c \in DOMAIN x : IF e.loc.mode = "exact" THEN x[c] = 0 ELSE x[c] = <<0, 0, 0, 0, 0>>
DofLocsBuilt(e) ==
  ~(/\ e.warn = 1
    /\ e.loc.mode \in {"exact", "fx"}
    /\ \A d \in DOMAIN e.loc.glob : ZeroLoc(e, e.loc.glob[d])
    /\ \E r \in 1..NBfun(e.kind, e.sig) : r \in DOMAIN e.loc.ref /\ e.loc.ref[r] # <<>>)
NumberClauses(e) ==
  LET base0 == NumberClausesBase(e)
      base == IF base0.WellFormed /\ "warn" \in DOMAIN e /\ e.hasref = 1
              THEN base0 @@ [DofLocsBuilt |-> DofLocsBuilt(e)] ELSE base0
      b2 == IF base.WellFormed /\ "dec" \in DOMAIN e /\ e.dec.sigs # <<>>
            THEN base @@ [CompositeDecodeOK |-> CompositeDecodeOK(e)] ELSE base
  IN IF base.WellFormed /\ "per" \in DOMAIN e
     THEN b2 @@ [PeriodicIdentification |-> PeriodicIdentification(e)] ELSE b2

\* the transcription reproduces what the code reported (model drift indicator, not a verdict)
ImplAgrees(e) ==
  LET d == NumberDofsImpl(e.kind, e.nv, e.ne, e.nf, e.t, e.t2e, e.t2f, e.sig) IN
  /\ d.N = e.N /\ d.cell = e.cell /\ d.nodal = e.nodal /\ d.interior = e.interior
  /\ (UsesE(e.kind, e.sig) => d.edge = e.edge) /\ (UsesF(e.kind, e.sig) => d.facet = e.facet)

\* ---- assembled matrices: Matrix event [mode, cells | facets, t2f, test, trial, Ntest, Ntrial, shape, nz]
MatWellFormed(e) ==
  /\ e.err = ""
  /\ Len(e.shape) = 2
  /\ Len(e.test) = Len(e.trial) /\ Len(e.test) = Len(e.t2f)
  /\ e.mode = "cells" => \A i \in DOMAIN e.cells : e.cells[i] \in 1..Len(e.test)
  /\ \A q \in DOMAIN e.nz : Len(e.nz[q]) = 2
ShapeOK(e) == e.shape = <<e.Ntest, e.Ntrial>>
IntegratedCells(e) ==
  IF e.mode = "cells" THEN VSet(e.cells)
  ELSE {k \in 1..Len(e.t2f) : \E s \in DOMAIN e.t2f[k] : e.t2f[k][s] \in VSet(e.facets)}
\* A[i, j] # 0 only if test DOF i and trial DOF j occur together in an integrated cell
SparsityLocal(e) ==
  LET K  == IntegratedCells(e)
      ct == [i \in 0..(e.Ntest - 1)  |-> {k \in K : i \in VSet(e.test[k])}]
      cu == [j \in 0..(e.Ntrial - 1) |-> {k \in K : j \in VSet(e.trial[k])}]
  IN \A q \in DOMAIN e.nz :
        /\ e.nz[q][1] \in 0..(e.Ntest - 1) /\ e.nz[q][2] \in 0..(e.Ntrial - 1)
        /\ ct[e.nz[q][1]] \cap cu[e.nz[q][2]] # {}
\* event flag cover = 1 (mass-like form on cell bases over the whole mesh): no number without an entry in its row
\* and in its column -- a number that no integrated basis function carries shows up as an empty row
NoEmptyRowCol(e) ==
  /\ {e.nz[q][1] : q \in DOMAIN e.nz} = 0..(e.Ntest - 1)
  /\ {e.nz[q][2] : q \in DOMAIN e.nz} = 0..(e.Ntrial - 1)
MatrixClauses(e) ==
  IF ~MatWellFormed(e) THEN [WellFormed |-> FALSE]
  ELSE [WellFormed |-> TRUE, ShapeOK |-> ShapeOK(e), SparsityLocal |-> SparsityLocal(e)]
       @@ (IF "cover" \in DOMAIN e /\ e.cover = 1 THEN [NoEmptyRowCol |-> NoEmptyRowCol(e)] ELSE <<>>)

\* ---- CompositeBasis (several bases glued, composite_basis.py): event [parts, equal, whole, N, cell]; parts[i] = [N, cell]
\* the numbering of part i (its element_dofs, per integrated cell), cell = the composite's element_dofs, equal = 1 for
\* the equal_dofnum form (b0 @ b1: the parts share one numbering), whole = 1 if every part integrates over all cells of
\* its mesh (then every number of every part is referenced).
CompWellFormed(e) ==
  /\ e.err = "" /\ Len(e.parts) >= 1
  /\ \A i \in DOMAIN e.parts : Len(e.parts[i].cell) = Len(e.cell) /\ e.parts[i].N >= 1
  /\ Len(e.cell) >= 1
  /\ \A k \in DOMAIN e.cell : Len(e.cell[k]) = SumSeq([i \in DOMAIN e.parts |-> Len(e.parts[i].cell[k])])
CompOffset(e, i) == IF e.equal = 1 THEN 0 ELSE SumSeq([j \in 1..(i - 1) |-> e.parts[j].N])
\* total size: the sum of the parts (one shared numbering: the common size)
CompSize(e) == IF e.equal = 1 THEN \A i \in DOMAIN e.parts : e.parts[i].N = e.N
               ELSE e.N = SumSeq([i \in DOMAIN e.parts |-> e.parts[i].N])
\* per cell: the rows of the parts in turn, part i shifted to the cumulative range [N_1 + .. + N_(i-1), .. + N_i)
CompOffsets(e) ==
  \A k \in DOMAIN e.cell :
     e.cell[k] = FlattenSeq([i \in DOMAIN e.parts |-> [r \in DOMAIN e.parts[i].cell[k] |-> e.parts[i].cell[k][r] + CompOffset(e, i)]])
\* read off the composite table alone: the numbers in the rows of part i stay inside the range of part i, hence a number
\* belongs to exactly one part
CompPartRows(e, k, i) ==
  LET lo == SumSeq([j \in 1..(i - 1) |-> Len(e.parts[j].cell[k])]) IN
  {e.cell[k][r] : r \in (lo + 1)..(lo + Len(e.parts[i].cell[k]))}
CompPartsDisjoint(e) ==
  e.equal = 1 \/ \A i \in DOMAIN e.parts :
     LET mine == UNION {CompPartRows(e, k, i) : k \in DOMAIN e.cell} IN
     /\ mine \subseteq CompOffset(e, i)..(CompOffset(e, i) + e.parts[i].N - 1)
     /\ \A j \in DOMAIN e.parts : j > i => mine \cap UNION {CompPartRows(e, k, j) : k \in DOMAIN e.cell} = {}
CompContiguous(e) == UNION {VSet(e.cell[k]) : k \in DOMAIN e.cell} = 0..(e.N - 1)
CompositeBasisClauses(e) ==
  IF ~CompWellFormed(e) THEN [WellFormed |-> FALSE]
  ELSE [WellFormed |-> TRUE, CompSize |-> CompSize(e), CompOffsets |-> CompOffsets(e),
        CompPartsDisjoint |-> CompPartsDisjoint(e)]
       @@ (IF e.whole = 1 THEN [CompContiguous |-> CompContiguous(e)] ELSE <<>>)

\* ===========================================================================
\* C07.  b is a Basis event: kind, nv, t, facets, edges, t2f, t2e, sig, names, N and the four entity tables.
\* DOF names: the element lists them in the order of its local basis functions -- nodal, edge, facet, interior
\* (element.py:136-141; ElementComposite builds its list in this order, element_composite.py:30-46).
NameOffset(b, kc) == CASE kc = "v" -> 0 [] kc = "e" -> b.sig.n [] kc = "f" -> b.sig.n + b.sig.e
                       [] kc = "c" -> b.sig.n + b.sig.e + b.sig.f
KindCount(b, kc)  == CASE kc = "v" -> b.sig.n [] kc = "e" -> b.sig.e [] kc = "f" -> b.sig.f [] kc = "c" -> b.sig.i
KindTable(b, kc)  == CASE kc = "v" -> b.nodal [] kc = "e" -> b.edge [] kc = "f" -> b.facet [] kc = "c" -> b.interior
\* Composite elements (b.comp = [sigs, names]: signature and own names of every component): the name of a row is decided
\* from the COMPONENT it belongs to -- rows of a kind list the components in turn, the q-th row of kind K of component c
\* is called <component's own name of that row>^c (element_composite.py:30-46) -- not from the composite's own table
\* b.names, which is itself under test (clause CompositeNames).
HasComp(b) == "comp" \in DOMAIN b /\ b.comp.sigs # <<>>
CompKindCount(sg, kc) == CASE kc = "v" -> sg.n [] kc = "e" -> sg.e [] kc = "f" -> sg.f [] kc = "c" -> sg.i
CompKindOffset(sg, kc) == CASE kc = "v" -> 0 [] kc = "e" -> sg.n [] kc = "f" -> sg.n + sg.e [] kc = "c" -> sg.n + sg.e + sg.f
CompNamesOfKind(b, kc) ==
  FlattenSeq([c \in DOMAIN b.comp.sigs |->
     [q \in 1..CompKindCount(b.comp.sigs[c], kc) |->
        b.comp.names[c][CompKindOffset(b.comp.sigs[c], kc) + q] \o "^" \o ToString(c)]])
CompNames(b) == CompNamesOfKind(b, "v") \o CompNamesOfKind(b, "e") \o CompNamesOfKind(b, "f") \o CompNamesOfKind(b, "c")
CompWellNamed(b) ==
  /\ Len(b.comp.names) = Len(b.comp.sigs)
  /\ \A c \in DOMAIN b.comp.sigs : Len(b.comp.names[c]) >= b.comp.sigs[c].n + b.comp.sigs[c].e + b.comp.sigs[c].f + b.comp.sigs[c].i
  /\ b.sig.n = SumSeq([c \in DOMAIN b.comp.sigs |-> b.comp.sigs[c].n])
  /\ b.sig.e = SumSeq([c \in DOMAIN b.comp.sigs |-> b.comp.sigs[c].e])
  /\ b.sig.f = SumSeq([c \in DOMAIN b.comp.sigs |-> b.comp.sigs[c].f])
  /\ b.sig.i = SumSeq([c \in DOMAIN b.comp.sigs |-> b.comp.sigs[c].i])
EffNames(b) == IF HasComp(b) /\ CompWellNamed(b) THEN CompNames(b) ELSE b.names
\* the composite's own table says the same
CompositeNames(b) == CompWellNamed(b) /\ SubSeq(b.names, 1, b.sig.n + b.sig.e + b.sig.f + b.sig.i) = CompNames(b)
NameOfRow(b, kc, r) == EffNames(b)[NameOffset(b, kc) + r]
AllNames(b) == {EffNames(b)[i] : i \in 1..(b.sig.n + b.sig.e + b.sig.f + b.sig.i)}
Kinds == {"v", "e", "f", "c"}

BasisWellFormed(b) ==
  /\ b.err = ""
  /\ Len(b.t) >= 1 /\ b.N >= 1
  /\ \A k \in DOMAIN b.t : Len(b.t[k]) = NNodes(b.kind) /\ IdsIn(b.t[k], b.nv)
  /\ Len(b.t2f) = Len(b.t) /\ \A k \in DOMAIN b.t : IdsIn(b.t2f[k], Len(b.facets))
  /\ \A f \in DOMAIN b.facets : IdsIn(b.facets[f], b.nv)
  /\ Dim(b.kind) = 3 => /\ Len(b.t2e) = Len(b.t) /\ \A k \in DOMAIN b.t : IdsIn(b.t2e[k], Len(b.edges))
                        /\ \A g \in DOMAIN b.edges : IdsIn(b.edges[g], b.nv)
  /\ Len(b.names) >= b.sig.n + b.sig.e + b.sig.f + b.sig.i
  /\ TabOK(b.nodal, b.sig.n, b.nv, b.N)
  /\ TabOK(b.edge, IF UsesE(b.kind, b.sig) THEN b.sig.e ELSE 0, Len(b.edges), b.N)
  /\ TabOK(b.facet, IF UsesF(b.kind, b.sig) THEN b.sig.f ELSE 0, Len(b.facets), b.N)
  /\ TabOK(b.interior, b.sig.i, Len(b.t), b.N)

\* ---- closure of a selection: the selected entities and their sub-entities
EdgesOfFacet(b, f) == {g \in DOMAIN b.edges : VSet(b.edges[g]) \subseteq VSet(b.facets[f])}
ClosureOfFacets(b, F) ==
  [ v |-> UNION {VSet(b.facets[f]) : f \in F},
    e |-> IF Dim(b.kind) = 3 THEN UNION {EdgesOfFacet(b, f) : f \in F} ELSE {},
    f |-> F, c |-> {} ]
ClosureOfCells(b, K) ==
  [ v |-> UNION {VSet(b.t[k]) : k \in K},
    e |-> IF Dim(b.kind) = 3 THEN UNION {VSet(b.t2e[k]) : k \in K} ELSE {},
    f |-> UNION {VSet(b.t2f[k]) : k \in K},
    c |-> K ]
ClosureOfNodes(b, V) == [v |-> V, e |-> {}, f |-> {}, c |-> {}]
ClosureUnion(c1, c2) == [kc \in Kinds |-> c1[kc] \cup c2[kc]]
\* boundary of the domain: facets that belong to exactly one cell
TrueBoundaryFacets(b) ==
  {f \in DOMAIN b.facets : Cardinality({k \in DOMAIN b.t : \E s \in DOMAIN b.t2f[k] : b.t2f[k][s] = f}) = 1}
ClosureOf(b, sel) ==
  CASE sel.kind = "facets"   -> ClosureOfFacets(b, VSet(sel.ids))
    [] sel.kind = "elements" -> ClosureOfCells(b, VSet(sel.ids))
    [] sel.kind = "nodes"    -> ClosureOfNodes(b, VSet(sel.ids))
    [] sel.kind = "none"     -> ClosureOfFacets(b, TrueBoundaryFacets(b))

\* the DOFs attached to the entities of a closure whose name is allowed
DofsOfKind(b, cl, kc, allowed) ==
  LET rows == {r \in 1..KindCount(b, kc) : NameOfRow(b, kc, r) \in allowed}
      tbl  == KindTable(b, kc)
  IN UNION {{tbl[g][r] : r \in rows \cap DOMAIN Row(tbl, g)} : g \in cl[kc] \cap DOMAIN tbl}
DofsOf(b, cl, allowed) == UNION {DofsOfKind(b, cl, kc, allowed) : kc \in Kinds}

\* a Query event q: sel [kind, ids], skip (names), op [k, names, names2, ids2], res <<[form, err, out | dict]>>
AllowedBySkip(b, q) == AllNames(b) \ VSet(q.skip)
\* successive name filters intersect: steps = <<[o |-> "keep" | "all" | "drop", names |-> <<...>>], ...>>
RECURSIVE ChainAllowed(_, _)
ChainAllowed(allowed, steps) ==
  IF steps = <<>> THEN allowed
  ELSE ChainAllowed(IF Head(steps).o = "drop" THEN allowed \ VSet(Head(steps).names)
                    ELSE allowed \cap VSet(Head(steps).names), Tail(steps))
AllowedNames(b, q) ==
  CASE q.op.k \in {"flatten", "or", "nodal", "edge", "facet", "interior"} -> AllowedBySkip(b, q)
    [] q.op.k \in {"all", "keep"} -> AllowedBySkip(b, q) \cap VSet(q.op.names)
    [] q.op.k = "drop"            -> AllowedBySkip(b, q) \ VSet(q.op.names)
    [] q.op.k = "keepdrop"        -> (AllowedBySkip(b, q) \cap VSet(q.op.names)) \ VSet(q.op.names2)
    [] q.op.k = "chain"           -> ChainAllowed(AllowedBySkip(b, q), q.op.steps)
QueryClosure(b, q) ==
  IF q.op.k = "or" THEN ClosureUnion(ClosureOf(b, q.sel), ClosureOf(b, [kind |-> q.sel.kind, ids |-> q.op.ids2]))
  ELSE ClosureOf(b, q.sel)
ExpectedDofs(b, q) == DofsOf(b, QueryClosure(b, q), AllowedNames(b, q))

OpKind(q) == CASE q.op.k = "nodal" -> "v" [] q.op.k = "edge" -> "e" [] q.op.k = "facet" -> "f" [] q.op.k = "interior" -> "c"
IsDictOp(q) == q.op.k \in {"nodal", "edge", "facet", "interior"}
\* by-kind dictionaries: under every name exactly the DOFs of that kind in the closure carrying that name
DictGot(res, nm) == UNION {VSet(res.dict[i].v) : i \in {j \in DOMAIN res.dict : res.dict[j].k = nm}}
DictOK(b, q, res) ==
  /\ res.err = ""
  /\ \A nm \in AllNames(b) \cup {res.dict[i].k : i \in DOMAIN res.dict} :
        DictGot(res, nm) = DofsOfKind(b, QueryClosure(b, q), OpKind(q), AllowedBySkip(b, q) \cap {nm})

QueryWellFormed(b, q) ==
  /\ Len(q.res) >= 1
  /\ \A i \in DOMAIN q.sel.ids : q.sel.ids[i] \in 1..(CASE q.sel.kind = "facets" -> Len(b.facets)
                                                          [] q.sel.kind = "elements" -> Len(b.t)
                                                          [] q.sel.kind = "nodes" -> b.nv [] OTHER -> 0)
PrimaryClause(q) ==
  CASE IsDictOp(q) -> "ByKindNames"
    [] q.op.k = "or" -> IF q.skip # <<>> THEN "UnionViewSkip" ELSE "UnionView"
    [] q.op.k = "chain" -> "FilterComposition"
    [] q.op.k \in {"all", "keep", "drop", "keepdrop"} -> "NameFilter"
    [] q.skip # <<>> -> "SkipFilter"
    [] q.sel.kind = "none" -> "ArgumentFreeIsBoundary"
    [] OTHER -> "ExactClosure"

QueryClauses(b, q) ==
  IF ~QueryWellFormed(b, q) THEN [WellFormed |-> FALSE]
  ELSE LET first == IF IsDictOp(q) THEN DictOK(b, q, q.res[1])
                    ELSE q.res[1].err = "" /\ VSet(q.res[1].out) = ExpectedDofs(b, q)
           agree == \A j \in 2..Len(q.res) :
                       /\ q.res[j].err = "" /\ q.res[1].err = ""
                       /\ IF IsDictOp(q)
                          THEN \A nm \in {q.res[j].dict[i].k : i \in DOMAIN q.res[j].dict}
                                         \cup {q.res[1].dict[i].k : i \in DOMAIN q.res[1].dict} :
                                  DictGot(q.res[j], nm) = DictGot(q.res[1], nm)
                          ELSE VSet(q.res[j].out) = VSet(q.res[1].out)
           r1 == [c \in {PrimaryClause(q)} |-> first]
           \* events flagged strlist = 1 hold the same name filter given as a plain string and as a one-element list
           aname == IF "strlist" \in DOMAIN q /\ q.strlist = 1 THEN "StringAndListFormsAgree" ELSE "SelectorFormsAgree"
       IN [WellFormed |-> TRUE] @@ r1 @@ (IF Len(q.res) >= 2 THEN [c \in {aname} |-> agree] ELSE <<>>)

\* complement query: args = the index arrays handed over
ComplementClauses(b, q) ==
  [ ComplementIsComplement |-> /\ q.err = ""
                               /\ VSet(q.out) = (0..(b.N - 1)) \ UNION {VSet(q.args[i]) : i \in DOMAIN q.args} ]
\* (set semantics only: order and multiplicity of the returned index array are not part of the statement)

\* ---- law (mode L): the trace on the selected facets depends on no DOF outside the returned set.
\* Support event: sel (facets), comp in {"value", "normal", "tangential"}, got = the returned DOFs, entries = one
\* record [d, v, n] per (selected facet, side, local basis function, quadrature point): d the global number of the
\* function, v its value there (fixed-point limbs, one per component), n the facet normal (small integers; the
\* harness records normal / tangential components only on axis-parallel facets).  Asserted only for the families
\* whose functions attached to an entity outside the closure of a facet vanish on it in the relevant component
\* (Lagrange-type H1: value; Raviart-Thomas / BDM: normal component; Nedelec: tangential component).
\* absolute tolerance on "vanishing" trace values (basis values are O(1); Piola-mapped ones on integer cells pick up
\* round-off ~1e-15 * cond): 2^-30 (9.3e-10) is 2e5 above the worst measured (4.5e-15) and 8 orders below the trace of a
\* function that really lives on the facet
TraceTol == FxTol(30)
FxDot(v, n) == FxSumSeq([c \in DOMAIN v |-> FxMulSmall(v[c], n[c])])
TraceComponent(en, comp) ==
  CASE comp = "value"  -> en.v
    [] comp = "normal" -> <<FxDot(en.v, en.n)>>
    [] comp = "tangential" ->
         IF Len(en.v) = 2 THEN <<FxSub(FxMulSmall(en.v[2], en.n[1]), FxMulSmall(en.v[1], en.n[2]))>>
         ELSE << FxSub(FxMulSmall(en.v[3], en.n[2]), FxMulSmall(en.v[2], en.n[3])),
                 FxSub(FxMulSmall(en.v[1], en.n[3]), FxMulSmall(en.v[3], en.n[1])),
                 FxSub(FxMulSmall(en.v[2], en.n[1]), FxMulSmall(en.v[1], en.n[2])) >>
SupportWellFormed(q) ==
  /\ q.err = ""
  /\ \A i \in DOMAIN q.entries :
        /\ \A c \in DOMAIN q.entries[i].v : FxWF(q.entries[i].v[c])
        /\ q.comp # "value" => Len(q.entries[i].n) = Len(q.entries[i].v) /\ Len(q.entries[i].v) \in {2, 3}
                                /\ \A c \in DOMAIN q.entries[i].n : q.entries[i].n[c] \in -1..1
TraceSupportClauses(b, q) ==
  IF ~SupportWellFormed(q) THEN [WellFormed |-> FALSE]
  ELSE [ WellFormed |-> TRUE,
         TraceSupport |-> LET got == VSet(q.got) IN
            \A i \in DOMAIN q.entries :
               \/ q.entries[i].d \in got
               \/ LET tc == TraceComponent(q.entries[i], q.comp) IN
                  \A c \in DOMAIN tc : FxNear(tc[c], FxZero, TraceTol) ]

\* ===========================================================================
\* Transcription of the lookup code.  A view is [nix, fix, eix, iix, nrows, frows, erows, irows] (sets; the code's
\* slice(0,0) is the empty set).  conn gives facets, f2e (<<>> when the mesh has no boundary element), t, t2e, t2f.
\* _dofnames_to_rows (dofs.py:690-733): names are read at offsets nodal, FACET, EDGE, interior.
DofnamesToRowsImpl(b, names, skip) ==
  LET chk(x) == IF skip THEN x \notin names ELSE x \in names
      nn == b.sig.n
      nf == IF UsesF(b.kind, b.sig) THEN b.sig.f ELSE 0            \* facet_dofs.shape[0]
      ne == IF UsesE(b.kind, b.sig) THEN b.sig.e ELSE 0            \* edge_dofs.shape[0]
      ni == b.sig.i
  IN [ nrows |-> {r \in 1..nn : chk(b.names[r])},
       frows |-> {r \in 1..nf : chk(b.names[r + nn])},
       erows |-> {r \in 1..ne : chk(b.names[r + nn + nf])},
       irows |-> {r \in 1..ni : chk(b.names[r + nn + nf + ne])} ]
\* the same with the element's own order (nodal, edge, facet, interior): the candidate repair
DofnamesToRowsFixed(b, names, skip) ==
  LET chk(x) == IF skip THEN x \notin names ELSE x \in names
      ne == IF UsesE(b.kind, b.sig) THEN b.sig.e ELSE 0
      nf == IF UsesF(b.kind, b.sig) THEN b.sig.f ELSE 0
  IN [ nrows |-> {r \in 1..b.sig.n : chk(b.names[r])},
       erows |-> {r \in 1..ne : chk(b.names[r + b.sig.n])},
       frows |-> {r \in 1..nf : chk(b.names[r + b.sig.n + b.sig.e])},
       irows |-> {r \in 1..b.sig.i : chk(b.names[r + b.sig.n + b.sig.e + b.sig.f])} ]

\* Mesh._expand_facets (mesh.py:495-511)
ExpandFacetsImpl(b, F) ==
  [ v |-> UNION {VSet(b.facets[f]) : f \in F},
    e |-> IF Dim(b.kind) = 3 /\ b.f2e # <<>> THEN UNION {VSet(b.f2e[f]) : f \in F} ELSE {} ]

\* Dofs.get_facet_dofs / get_element_dofs / get_vertex_dofs (dofs.py:539-663); Rows(b, names, skip) is the
\* name -> rows translation in use
ViewOf(ix, rows) == [nix |-> ix.n, fix |-> ix.f, eix |-> ix.e, iix |-> ix.i,
                     nrows |-> rows.nrows, frows |-> rows.frows, erows |-> rows.erows, irows |-> rows.irows]
FacetIxImpl(b, F) ==
  LET ex == ExpandFacetsImpl(b, F) IN
  [ n |-> IF b.sig.n = 0 THEN {} ELSE ex.v, e |-> IF b.sig.e = 0 THEN {} ELSE ex.e,
    f |-> IF b.sig.f = 0 THEN {} ELSE F, i |-> {} ]
ElementIxImpl(b, K) ==
  [ n |-> IF b.sig.n = 0 THEN {} ELSE UNION {VSet(b.t[k]) : k \in K},
    e |-> IF b.sig.e = 0 THEN {} ELSE UNION {VSet(b.t2e[k]) : k \in K},
    f |-> IF b.sig.f = 0 THEN {} ELSE UNION {VSet(b.t2f[k]) : k \in K},
    i |-> K ]
VertexIxImpl(b, V) == [n |-> V, e |-> {}, f |-> {}, i |-> {}]
\* boundary_facets(): second column of f2t is -1 (mesh.py:197-199)
BoundaryFacetsImpl(b) == {f \in DOMAIN b.f2t : b.f2t[f][2] = 0}
SelIxImpl(b, sel) ==
  CASE sel.kind = "facets"   -> FacetIxImpl(b, VSet(sel.ids))
    [] sel.kind = "elements" -> ElementIxImpl(b, VSet(sel.ids))
    [] sel.kind = "nodes"    -> VertexIxImpl(b, VSet(sel.ids))
    [] sel.kind = "none"     -> FacetIxImpl(b, BoundaryFacetsImpl(b))

\* DofsView.flatten (dofs.py:90-107): table[rows][:, ix] of the four tables
FlattenImpl(b, vw) ==
  {b.nodal[g][r] : g \in vw.nix, r \in vw.nrows}
  \cup {b.facet[g][r] : g \in vw.fix, r \in vw.frows}
  \cup {b.edge[g][r] : g \in vw.eix, r \in vw.erows}
  \cup {b.interior[g][r] : g \in vw.iix, r \in vw.irows}
\* keep / drop (dofs.py:141-191): row sets intersected with the rows of the given names
RestrictImpl(vw, rows) == [vw EXCEPT !.nrows = @ \cap rows.nrows, !.frows = @ \cap rows.frows,
                                     !.erows = @ \cap rows.erows, !.irows = @ \cap rows.irows]
\* __or__ (dofs.py:237-244): index sets united, rows of the left operand
OrImpl(v1, v2) == [v1 EXCEPT !.nix = @ \cup v2.nix, !.fix = @ \cup v2.fix, !.eix = @ \cup v2.eix, !.iix = @ \cup v2.iix]
==============================================================================
