"""X09 - Mesh.is_valid and the normalisation of second-order input (extended coverage beyond the listed properties;
NOT registered in MANIFEST.json).

`is_valid()` must say True exactly for meshes whose arrays have the right shape, whose points are distinct and all used
by some cell (for second-order meshes: by the DOF table), and `is_valid(raise_=True)` must raise exactly otherwise.
`Mesh*2(p, t)` with ALL nodes of every cell listed in `t` (the external node order) renumbers the points; every local
node of every cell must stay where the input put it.  Integer coordinates, verdicts by spec/TraceX09.tla against
spec/Validity.tla.
"""
import json

import numpy as np

from ..core import guarded

RULE = 'scenario = (mesh class, base mesh, numbering, defect injected into the arrays); distinct = distinct recipes.'
FIRST = ['MeshLine', 'MeshTri', 'MeshQuad', 'MeshTet', 'MeshHex', 'MeshWedge1']
SECOND = ['MeshTri2', 'MeshQuad2', 'MeshTet2', 'MeshHex2']
SCALE = 16


def _cols(a):
    return [[int(v) for v in col] for col in np.asarray(a).T]


def _ids(a):
    return [[int(v) + 1 for v in col] for col in np.asarray(a).T]


def _base(cls, nref):
    import skfem
    if cls in SECOND:
        first = getattr(skfem, cls[:-1])()
        first = first.refined(nref) if nref else first
        m = getattr(skfem, cls).from_mesh(first)
    else:
        m = getattr(skfem, cls)()
        if nref and cls != 'MeshWedge1':
            m = m.refined(nref)
    return m


def execute(rec):
    import skfem
    rng = np.random.default_rng(rec['rs'])
    cls = getattr(skfem, rec['cls'])
    m = _base(rec['cls'], rec['nref'])
    P = np.rint(m.doflocs * SCALE)
    nv = m.t.shape[0]
    dim = P.shape[0]
    if rec['kind'] == 'valid':
        second = rec['cls'] in SECOND
        E = np.array(m.dofs.element_dofs if second else m.t)
        perm = rng.permutation(P.shape[1]) if (rec['scramble'] and not second) else np.arange(P.shape[1])
        inv = np.argsort(perm)
        P, E = P[:, perm], inv[E]
        T = E[:nv]
        for d in rec['defects']:
            if d == 'stray':                                   # a point no cell uses
                P = np.hstack([P, P.max(axis=1, keepdims=True) + 3])
            elif d == 'strayfirst' and not second:             # ... numbered first
                P = np.hstack([P.min(axis=1, keepdims=True) - 3, P])
                T, E = T + 1, E + 1
            elif d == 'dup' and not second:                    # two points at one place, both used
                j = int(T[0, -1])
                P = np.hstack([P, P[:, j:j + 1]])
                T = T.copy()
                T[0, -1] = P.shape[1] - 1
                E = T
            elif d == 'dim':                                   # one coordinate row too many
                P = np.vstack([P, np.zeros((1, P.shape[1]))])
            elif d == 'rows' and not second and nv > 2:        # one vertex row too few
                T = T[:-1]
                E = T
        ev = {'a': 'Valid', 'err': '', 'dim': dim, 'nv': nv, 'p': _cols(P), 't': _ids(T), 'nodes': _ids(E), 'res': 0, 'raised': 0}
        mm, err = guarded(lambda: cls(P.astype(float), T.astype(np.int64)), 30)
        if err:
            ev['err'] = err
            return [ev]
        if second:                                             # the DOF table the code itself uses
            nodes, err = guarded(lambda: mm.dofs.element_dofs, 30)
            if err:
                ev['err'] = err
                return [ev]
            ev['nodes'] = _ids(nodes)
        res, err = guarded(lambda: mm.is_valid(), 30)
        if err:
            ev['err'] = 'is_valid: ' + err
            return [ev]
        ev['res'] = int(bool(res))
        _, err = guarded(lambda: mm.is_valid(raise_=True), 30)
        ev['raised'] = int(bool(err))
        return [ev]
    # second-order input in the external form: every node of a cell listed in t, points numbered arbitrarily
    E = np.array(m.dofs.element_dofs)
    if rec['curved']:
        P[:, m.nvertices:] += rng.integers(-1, 2, size=P[:, m.nvertices:].shape)
    perm = rng.permutation(P.shape[1]) if rec['scramble'] else np.arange(P.shape[1])
    inv = np.argsort(perm)
    Pin, Tin = P[:, perm], inv[E]
    ev = {'a': 'HighOrder', 'err': '', 'nv': nv, 'pin': _cols(Pin), 'tin': _ids(Tin), 'pout': [], 'tout': [], 'edofs': [], 'valid': 0}
    mm, err = guarded(lambda: cls(Pin.astype(float), Tin.astype(np.int64)), 30)
    if err:
        ev['err'] = err
        return [ev]
    ev['pout'] = _cols(np.rint(mm.doflocs))
    ev['tout'] = _ids(mm.t)
    ev['edofs'] = _ids(mm.dofs.element_dofs)
    res, err = guarded(lambda: mm.is_valid(), 30)
    ev['valid'] = int(bool(res)) if not err else 0
    return [ev]


def generate(tier, seed):
    rng = np.random.default_rng(909 + seed)
    recs = []
    defect_sets = [[], ['stray'], ['strayfirst'], ['dup'], ['dim'], ['rows'], ['stray', 'dup'], ['dim', 'stray']]
    reps = 1 if tier == 'quick' else 6
    for cls in FIRST + SECOND:
        for nref in ([0, 1] if cls not in ('MeshHex2', 'MeshTet2') or tier != 'quick' else [0]):
            for ds in defect_sets:
                for r in range(reps):
                    recs.append({'driver': 'validity', 'kind': 'valid', 'cls': cls, 'nref': nref, 'defects': ds,
                                 'scramble': int(r > 0 or rng.random() < 0.5), 'rs': int(rng.integers(1 << 30))})
    for cls in SECOND:
        for nref in ([0, 1] if cls not in ('MeshHex2',) or tier != 'quick' else [0]):
            for curved in (0, 1):
                for r in range(2 * reps):
                    recs.append({'driver': 'validity', 'kind': 'highorder', 'cls': cls, 'nref': nref, 'curved': curved,
                                 'scramble': int(r > 0), 'rs': int(rng.integers(1 << 30))})
    return recs


def run(ctx):
    recs = generate(ctx.tier, ctx.seed)
    scs = [{'id': f'X09-{k}', 'recipe': r, 'tags': {'kind': r['kind'], 'cls': r['cls']}, 'events': execute(r)}
           for k, r in enumerate(recs)]
    ctx.validate('TraceX09', scs)
    ctx.notes['distinct_nontrivial'] = len({json.dumps(r, sort_keys=True) for r in recs})
    return ctx.finish(rule=RULE, assumptions=['extended coverage: not one of the listed properties'], exhaustive=False)


def replay(ctx, doc):
    sc = doc['scenario']
    ctx.validate('TraceX09', [{'id': sc['id'], 'recipe': sc['recipe'], 'tags': sc.get('tags', {}), 'events': execute(sc['recipe'])}])
    return ctx.finish(rule=RULE)
