"""C07 - DOF lookup returns exactly the DOFs that control the selected entities.

M : spec/MC_C07.cfg - TLC enumerates (small mesh) x (signature with names) x (every facet / cell / vertex subset) and
    checks that the transcription of get_*_dofs / _expand_facets / _dofnames_to_rows / DofsView (spec/Dofs.tla)
    yields the semantic answer (closure of the selection, name filters, keep/drop/| algebra, boundary, complement)
    for every skip / keep set.  spec/MC_C07_names.cfg runs the same on a signature whose edge and facet DOFs are
    named differently - the known deviation of the name -> row translation (DESIGN section 7, #12).
R : the exported meshes x signatures (signature-only elements with the exported names) are queried on the real
    `CellBasis.get_dofs` over sampled (quick) / many (thorough) subsets.
V : real elements (P1, P2, P3, Argyris, Morley, RT, Nedelec, Hex2, composites incl. N1 x RT1, ...) on universe and
    integer Delaunay meshes: `get_dofs` in all equivalent selector forms (index array, int, predicate on midpoints,
    tag, list / tuple / set / mixed collections, dict), `elements=` / `nodes=`, `skip=`, keep / drop / all / by-kind
    dictionaries / `|`, `complement_dofs`; every answer is judged by TraceC07.
"""
import json
import os
import warnings

import numpy as np

from .. import dofs_common as DC
from ..core import guarded, MachineryError
from ..project import find_scale, fx

RULE = ('scenario = one (mesh, element) basis with one Basis event followed by Query / Complement events; each Query '
        'event is one (selection, skip set, view operation) evaluated in all applicable selector forms. Distinct = '
        'distinct (mesh, element, selection, skip, operation); non-trivial = selection non-empty and a proper subset '
        'of the entities of its kind, on a mesh with >= 2 cells.')


# ---------------------------------------------------------------- inputs: predicates with exact comparisons

def _int_keys(mesh, table, sc):
    """Integer key of every entity: sum over the stored vertex columns of the integer coordinates (p * sc)."""
    P = np.rint(mesh.p * sc).astype(np.int64)
    if table is None:
        return [tuple(int(x) for x in P[:, v]) for v in range(P.shape[1])], 1
    table = np.asarray(table)
    return [tuple(int(x) for x in P[:, table[:, j]].sum(axis=1)) for j in range(table.shape[1])], table.shape[0]


def _pred(keys, nper, sc, chosen):
    """Predicate on midpoints: true exactly at the midpoints of the chosen entities; the midpoint times nper * sc is an
    integer vector (coordinates are dyadic), so rounding to nearest recovers it exactly and comparison is on ints."""
    S = {keys[j] for j in chosen}

    def pred(x):
        k = np.rint(np.asarray(x, dtype=np.float64) * (nper * sc)).astype(np.int64)
        return np.array([tuple(int(v) for v in c) in S for c in k.reshape(k.shape[0], -1).T], dtype=bool)
    return pred


class Ctxt:
    """Mesh with tags for all selections of the recipe + basis; built once per scenario."""

    def __init__(self, rec):
        from skfem.assembly import CellBasis, FacetBasis
        mesh = DC.make_mesh(rec['mesh'])
        self.sc = find_scale(mesh.p) or 1
        self.fkeys, self.fn = _int_keys(mesh, mesh.facets, self.sc)
        self.ckeys, self.cn = _int_keys(mesh, mesh.t, self.sc)
        self.vkeys, _ = _int_keys(mesh, None, self.sc)
        self.f_ok = len(set(self.fkeys)) == len(self.fkeys)
        self.c_ok = len(set(self.ckeys)) == len(self.ckeys)
        self.v_ok = len(set(self.vkeys)) == len(self.vkeys)
        bnd, sub = {}, {}
        for j, s in enumerate(rec['sels']):
            a = np.array(s['ids'], dtype=np.int64)
            if s['kind'] == 'facets':
                bnd[f'S{j}'] = self.pred('facets', s['ids']) if (j % 2 == 1 and self.f_ok) else a
                h = len(a) // 2
                bnd[f'S{j}a'], bnd[f'S{j}b'] = a[:h], a[h:]
            elif s['kind'] == 'elements':
                sub[f'S{j}'] = self.pred('elements', s['ids']) if (j % 2 == 1 and self.c_ok) else a
                h = len(a) // 2
                sub[f'S{j}a'], sub[f'S{j}b'] = a[:h], a[h:]
        if bnd:
            mesh = mesh.with_boundaries(bnd, boundaries_only=False)
        if sub:
            mesh = mesh.with_subdomains(sub)
        self.mesh = mesh
        elem = DC.build_element(rec['elem'])
        with warnings.catch_warnings():
            warnings.simplefilter('ignore')
            if rec.get('basis') == 'facet':
                self.basis = FacetBasis(mesh, elem, intorder=1)
            else:
                self.basis = CellBasis(mesh, elem, intorder=1)

    def pred(self, kind, chosen):
        if kind == 'facets':
            return _pred(self.fkeys, self.fn, self.sc, chosen)
        if kind == 'elements':
            return _pred(self.ckeys, self.cn, self.sc, chosen)
        return _pred(self.vkeys, 1, self.sc, chosen)

    # every way of naming the selection j; each entry (form name, kwargs for get_dofs, post) where post picks the view
    def forms(self, j, s):
        a = np.array(s['ids'], dtype=np.int64)
        kind = s['kind']
        h = len(a) // 2
        py = [int(x) for x in a]
        out = []
        if kind == 'none':
            return [('noarg', (), {}, None), ('None', (None,), {}, None), ('facets=None', (), {'facets': None}, None)]
        if kind == 'facets':
            kw = lambda v: ((v,), {}, None)
            out.append(('array', *kw(a)))
            out.append(('array32', *kw(a.astype(np.int32))))
            if len(a) == 1:
                out.append(('int', *kw(py[0])))
            if self.f_ok:
                out.append(('pred', *kw(self.pred(kind, py))))
            out.append(('tag', *kw(f'S{j}')))
            out.append(('kwarg', (), {'facets': a}, None))
            if len(a) >= 1:
                out.append(('list', *kw([a[:h], a[h:]])))
                out.append(('tuple', *kw(tuple(py))))
                out.append(('set', *kw(set(py))))
                out.append(('tagset', *kw({f'S{j}a', f'S{j}b'})))
                mixed = [f'S{j}a', a[h:]] + ([self.pred(kind, py[:1])] if self.f_ok else [])
                out.append(('mixed', *kw(mixed)))
            out.append(('dict', ({'k': a},), {}, 'k'))
            if self.f_ok:
                out.append(('dictpred', ({'k': self.pred(kind, py)},), {}, 'k'))
            return out
        if kind == 'elements':
            kw = lambda v: ((), {'elements': v}, None)
            out.append(('array', *kw(a)))
            out.append(('array32', *kw(a.astype(np.int32))))
            if len(a) == 1:
                out.append(('int', *kw(py[0])))
            if self.c_ok:
                out.append(('pred', *kw(self.pred(kind, py))))
            out.append(('tag', *kw(f'S{j}')))
            if len(a) == self.mesh.t.shape[1]:
                out.append(('True', *kw(True)))
            if len(a) >= 1:
                out.append(('list', *kw([a[:h], a[h:]])))
                out.append(('tuple', *kw(tuple(py))))
                out.append(('set', *kw(set(py))))
                out.append(('tagset', *kw({f'S{j}a', f'S{j}b'})))
                mixed = [f'S{j}a', a[h:]] + ([self.pred(kind, py[:1])] if self.c_ok else [])
                out.append(('mixed', *kw(mixed)))
            return out
        kw = lambda v: ((), {'nodes': v}, None)
        out.append(('array', *kw(a)))
        if self.v_ok:
            out.append(('pred', *kw(self.pred(kind, py))))
        if len(a) >= 1:
            out.append(('list', *kw([a[:h], a[h:]])))
            if self.v_ok:
                out.append(('mixed', *kw([a[h:], self.pred(kind, py[:h])])))
                out.append(('predset', *kw({self.pred(kind, py)})))
        # vertices named by their coordinates: a tuple is one location, collections of tuples several
        pt = lambda v: tuple(float(x) for x in self.mesh.p[:, v])
        if len(a) == 1:
            out.append(('point', *kw(pt(py[0]))))
        if len(a) >= 1:
            out.append(('points', *kw([pt(v) for v in py])))
            out.append(('pointset', *kw({pt(v) for v in py})))
            out.append(('points+array', *kw([pt(py[0]), a[1:]])))
        return out


def _ints(x):
    return [int(v) for v in np.asarray(x).ravel()]


def _view(cx, form, skip, as_str=False):
    name, args, kw, pick = form
    kw = dict(kw)
    if skip is not None:
        kw['skip'] = skip[0] if (as_str and len(skip) == 1) else list(skip)     # plain string instead of [string]
    with warnings.catch_warnings():
        warnings.simplefilter('ignore')
        v = cx.basis.get_dofs(*args, **kw)
    return v[pick] if pick is not None else v


def _apply(view, op, other=None):
    k = op['k']
    with warnings.catch_warnings():
        warnings.simplefilter('ignore')
        if k == 'flatten':
            return {'out': _ints(view.flatten())}
        if k == 'all':
            nm = op['names']
            return {'out': _ints(view.all(nm[0] if (op.get('as_str') and len(nm) == 1) else nm))}
        if k == 'keep':
            return {'out': _ints(view.keep(op['names'][0] if (op.get('as_str') and len(op['names']) == 1) else op['names']).flatten())}
        if k == 'drop':
            return {'out': _ints(view.drop(op['names'][0] if (op.get('as_str') and len(op['names']) == 1) else op['names']).flatten())}
        if k == 'keepdrop':
            return {'out': _ints(view.keep(op['names']).drop(op['names2']).flatten())}
        if k == 'chain':                   # successive filters on the same view; 'all' (if present) is the last step
            v = view
            for st in op['steps']:
                if st['o'] == 'keep':
                    v = v.keep(st['names'])
                elif st['o'] == 'drop':
                    v = v.drop(st['names'])
                else:
                    return {'out': _ints(v.all(st['names']))}
            return {'out': _ints(v.flatten())}
        if k == 'or':
            return {'out': _ints((view | other).flatten())}
        d = getattr(view, k)
        return {'dict': [{'k': str(n), 'v': _ints(v)} for n, v in d.items()]}


def _op(k, names=(), names2=(), ids2=(), **kw):
    return dict({'k': k, 'names': list(names), 'names2': list(names2), 'ids2': list(ids2)}, **kw)


# (the ElementGlobal variants *G are left out: ElementQuad2G spans global Q2, whose trace on an edge of a
# non-rectangular cell is not determined by the three numbers on that edge)
# families for which the law TraceSupport is asserted (DESIGN section 5, C07 Soundness): functions attached to an entity
# outside the closure of a facet vanish on that facet in the stated component
_VALUE = {'ElementTriP1', 'ElementTriP2', 'ElementTriP3', 'ElementTriP4', 'ElementTriMini', 'ElementTriCCR',
          'ElementTriP1B', 'ElementTriP2B', 'ElementQuad1', 'ElementQuad2',
          'ElementQuadS2', 'ElementQuadP', 'ElementTetP1', 'ElementTetP2', 'ElementTetMini',
          'ElementTetCCR', 'ElementHex1', 'ElementHex2', 'ElementHexS2'}
_NORMAL = {'ElementTriRT0', 'ElementTriRT1', 'ElementTriRT2', 'ElementTriBDM1', 'ElementTetRT0', 'ElementTetRT1',
           'ElementQuadRT0', 'ElementQuadRT1', 'ElementHexRT1'}
_TANGENTIAL = {'ElementTriN1', 'ElementTriN2', 'ElementTetN0', 'ElementTetN1', 'ElementQuadN1'}


def trace_component(spec):
    if 'vec' in spec:
        return 'value' if trace_component(spec['vec']) == 'value' else None
    c = spec.get('cls')
    return 'value' if c in _VALUE else 'normal' if c in _NORMAL else 'tangential' if c in _TANGENTIAL else None


def exec_support(cx, s, comp):
    """Values of every local basis function at the quadrature points of the selected facets (both sides of interior
    ones), with the global number of the function and the facet normal where it is integral."""
    from skfem.assembly import FacetBasis
    F = np.array(s['ids'], dtype=np.int64)

    def call():
        got = _ints(cx.basis.get_dofs(F).flatten())
        entries = []
        for side in (0, 1):
            Fs = F if side == 0 else F[cx.mesh.f2t[1, F] >= 0]
            if len(Fs) == 0:
                continue
            with warnings.catch_warnings():
                warnings.simplefilter('ignore')
                fb = FacetBasis(cx.mesh, cx.basis.elem, facets=Fs, intorder=2, side=side)
            nrm = np.asarray(fb.normals)
            edofs = fb.element_dofs
            for i in range(fb.Nbfun):
                val = np.asarray(fb.basis[i][0].value)
                val = val.reshape((-1,) + val.shape[-2:])
                for k in range(val.shape[1]):
                    for qq in range(val.shape[2]):
                        nn = []
                        if comp != 'value':
                            n = nrm[:, k, qq]
                            if not np.array_equal(n, np.rint(n)):
                                continue          # normal / tangential components only on axis-parallel facets
                            nn = [int(x) for x in n]
                        v = [fx(float(x)) for x in val[:, k, qq]]
                        if any(l is None for l in v):
                            raise OverflowError('value out of fixed-point range')
                        entries.append({'d': int(edofs[i, k]), 'v': v, 'n': nn})
        return got, entries
    r, err = guarded(call, 60)
    if err or not r[1]:
        return None                # no facet basis for this element / nothing recorded: nothing to judge
    return {'a': 'Support', 'err': '', 'comp': comp, 'sel': {'kind': 'facets', 'ids': [int(x) + 1 for x in F]},
            'got': r[0], 'entries': r[1]}


def execute(rec):
    cx, err = DC.lib(lambda: Ctxt(rec), 900)
    if err:
        return [DC.basis_error_event(err)]
    events = [DC.basis_event(cx.mesh, cx.basis)]
    sels = rec['sels']
    for q in rec['queries']:
        if q['a'] == 'Support':
            ev = exec_support(cx, sels[q['sel']], q['comp'])
            if ev is not None:
                events.append(ev)
            continue
        if q['a'] == 'Complement':
            def call():
                views = [_view(cx, cx.forms(j, sels[j])[0], None) for j in q['sels']]
                arrs = [v.flatten() for v in views]
                with warnings.catch_warnings():
                    warnings.simplefilter('ignore')
                    if q['form'] == 'arrays':
                        out = cx.basis.complement_dofs(*arrs)
                    elif q['form'] == 'views':
                        out = cx.basis.complement_dofs(*views)
                    else:
                        out = cx.basis.complement_dofs({f'k{i}': v for i, v in enumerate(views)})
                return [_ints(a) for a in arrs], _ints(out)
            r, err = DC.lib(call, 300)
            events.append({'a': 'Complement', 'form': q['form'], 'err': err, 'args': r[0] if r else [],
                           'out': r[1] if r else []})
            continue
        j = q['sel']
        s = sels[j]
        forms = cx.forms(j, s)
        if q.get('forms') != 'all':
            pick = q.get('forms', [0])
            forms = [forms[i % len(forms)] for i in pick]
        op = q['op']
        res = []
        variants = [(f, False) for f in forms]
        if q.get('strlist'):        # the same name filter given as a one-element list and as a plain string
            variants = [(forms[0], False), (forms[0], True)]
        for form, as_str in variants:
            def call():
                v = _view(cx, form, q['skip'] if q['skip'] else None, as_str=as_str)
                other = None
                if op['k'] == 'or':
                    j2 = op['sel2']
                    other = _view(cx, cx.forms(j2, sels[j2])[0], q['skip'] if q['skip'] else None)
                return _apply(v, dict(op, as_str=1) if as_str else op, other)
            r, err = DC.lib(call, 300)
            if err and form[0].startswith('dict'):
                continue        # the dictionary form is deprecated by the library itself (DeprecationWarning): if a version
                                # stops accepting it, that is not a disagreement between ways of naming a selection
            item = {'form': form[0] + ('+str' if as_str else ('+list' if q.get('strlist') else '')), 'err': err}
            item.update(r if r else ({'dict': []} if op['k'] in ('nodal', 'edge', 'facet', 'interior') else {'out': []}))
            res.append(item)
        if op['k'] == 'or' and res and all(it['err'] for it in res):
            continue            # `|` on views is deprecated by the library itself ("numpy.hstack"): a version without it
                                # is not a wrong lookup; a `|` that answers is judged (UnionView)
        ids2 = [int(x) + 1 for x in sels[op['sel2']]['ids']] if op['k'] == 'or' else []
        events.append({'a': 'Query', 'sel': {'kind': s['kind'], 'ids': [int(x) + 1 for x in s['ids']]},
                       'skip': list(q['skip']),
                       'op': {'k': op['k'], 'names': list(op['names']), 'names2': list(op['names2']), 'ids2': ids2,
                              'steps': [{'o': st['o'], 'names': list(st['names'])} for st in op.get('steps', [])]},
                       'res': res})
        if q.get('strlist'):
            events[-1]['strlist'] = 1
    return events


# ---------------------------------------------------------------- recipes

def _subsets(rng, n, k, include_all=True):
    """k subsets of range(n): empty, full, singletons and random proper ones."""
    out = [[]]
    if include_all:
        out.append(list(range(n)))
    if n >= 1:
        out.append([int(rng.integers(n))])
    while len(out) < k:
        m = int(rng.integers(1, max(2, n)))
        out.append(sorted(rng.choice(n, min(m, n), replace=False).tolist()))
    return out[:max(k, 3)]


def _chains(rng, names, singles, pair):
    """Compositions of name filters: (skip, steps).  Every ordered pair of keep / drop (/ all as last step), once with a
    first filter that removes the first name and a second one that mentions every name again, once with name sets
    drawn at random; skip= followed by keep / all / drop; some triples."""
    S = singles[:3] + pair + [names] + ([names[1:]] if len(names) >= 2 else []) + [[]]
    rnd = lambda: S[int(rng.integers(len(S)))]
    a = singles[0]
    rest = names[1:]
    st = lambda o, ns: {'o': o, 'names': list(ns)}
    out = []
    for o1 in ('keep', 'drop'):
        first = a if o1 == 'drop' else rest            # both remove the first name
        for o2 in ('keep', 'drop', 'all'):
            out.append(([], [st(o1, first), st(o2, names)]))
            out.append(([], [st(o1, rnd()), st(o2, rnd())]))
    for o2 in ('keep', 'all', 'drop'):
        out.append((a, [st(o2, names)]))
        out.append((rnd(), [st(o2, rnd())]))
    out.append((a, [st('drop', rnd()), st('keep', names)]))
    out.append(([], [st('keep', rest), st('drop', rnd()), st('keep', names)]))
    out.append(([], [st('drop', a), st('keep', rnd()), st('all', names)]))
    out.append(([], [st('keep', rnd()), st('keep', rnd()), st('keep', names)]))
    out.append((rnd(), [st('drop', rnd()), st('drop', rnd()), st('all', rnd())]))
    return out


def plan(rng, mesh, elem, depth, comp=None):
    """Selections and queries for one basis.  depth: 1 (quick) .. 3 (thorough)."""
    nf, nt, nv = mesh.facets.shape[1], mesh.t.shape[1], int(mesh.nvertices)
    sels = []
    for kind, n, k in (('facets', nf, 2 + 2 * depth), ('elements', nt, 2 + depth), ('nodes', nv, 2 + depth)):
        for ids_ in _subsets(rng, n, k):
            sels.append({'kind': kind, 'ids': ids_})
    # boundary / interior facet sets chosen through the mesh's own boundary query (an input choice only)
    bf = mesh.boundary_facets()
    if len(bf) >= 2:
        sels.append({'kind': 'facets', 'ids': sorted(rng.choice(bf, len(bf) // 2, replace=False).tolist())})
    sels.append({'kind': 'none', 'ids': []})
    names = list(dict.fromkeys(DC.names_of(elem)[:sum(DC.signature(elem).values())]))
    singles = [[n] for n in names]
    pair = [sorted(rng.choice(names, 2, replace=False).tolist())] if len(names) >= 2 else []
    skips = singles[:3] + pair
    queries = []
    by_kind = {}
    for j, s in enumerate(sels):
        by_kind.setdefault(s['kind'], []).append(j)
    for j, s in enumerate(sels):
        queries.append({'a': 'Query', 'sel': j, 'skip': [], 'op': _op('flatten'), 'forms': 'all'})
        for i, sk in enumerate(skips):
            queries.append({'a': 'Query', 'sel': j, 'skip': sk, 'op': _op('flatten'), 'forms': [0, 1 + i + j]})
        rich = s['kind'] == 'none' or j == by_kind[s['kind']][-1] or (depth >= 2 and len(s['ids']) > 0)
        if not rich:
            continue
        nsets = singles + pair + [names, [], ['zz']]
        for i, ns in enumerate(nsets):
            full = depth >= 2 or (i + j) % 2 == 0          # quick tier: alternate the operations over the name sets
            if full or i % 2 == 0:
                queries.append({'a': 'Query', 'sel': j, 'skip': [], 'op': _op('all', ns), 'forms': [i]})
                queries.append({'a': 'Query', 'sel': j, 'skip': [], 'op': _op('drop', ns), 'forms': [i + 2]})
            if full or i % 2 == 1:
                queries.append({'a': 'Query', 'sel': j, 'skip': [], 'op': _op('keep', ns), 'forms': [i + 1]})
                if skips:
                    queries.append({'a': 'Query', 'sel': j, 'skip': skips[i % len(skips)], 'op': _op('drop', ns),
                                    'forms': [i]})
        for ns in singles[:2]:
            queries.append({'a': 'Query', 'sel': j, 'skip': [], 'op': _op('all', ns, as_str=1), 'forms': [0]})
        # every name filter entry point with a plain string and with a one-element list (longest names first: a name that
        # contains another one, 'u_n' / 'u^2^1', is where a substring match would show)
        for i, nm in enumerate(sorted(names, key=lambda x: (-len(x), x))[:4]):
            for k in ('drop', 'keep', 'all'):
                queries.append({'a': 'Query', 'sel': j, 'skip': [], 'op': _op(k, [nm]), 'forms': [i], 'strlist': 1})
            queries.append({'a': 'Query', 'sel': j, 'skip': [nm], 'op': _op('flatten'), 'forms': [i + 1], 'strlist': 1})
            queries.append({'a': 'Query', 'sel': j, 'skip': [nm], 'op': _op('keep', names), 'forms': [i], 'strlist': 1})
        if len(names) >= 2:
            queries.append({'a': 'Query', 'sel': j, 'skip': [], 'op': _op('keepdrop', names, singles[0]), 'forms': [0]})
            queries.append({'a': 'Query', 'sel': j, 'skip': [], 'op': _op('keepdrop', pair[0], singles[-1]),
                            'forms': [1]})
        if depth >= 2 or s['kind'] in ('none', 'facets'):
            for i, (sk, steps) in enumerate(_chains(rng, names, singles, pair)):
                queries.append({'a': 'Query', 'sel': j, 'skip': list(sk), 'op': _op('chain', steps=steps),
                                'forms': [i + j]})
        for k in ('nodal', 'edge', 'facet', 'interior'):
            queries.append({'a': 'Query', 'sel': j, 'skip': [], 'op': _op(k), 'forms': [0, 3]})
            if skips:
                queries.append({'a': 'Query', 'sel': j, 'skip': skips[0], 'op': _op(k), 'forms': [0]})
        if s['kind'] != 'none':
            for j2 in by_kind[s['kind']][:3]:
                queries.append({'a': 'Query', 'sel': j, 'skip': [], 'op': _op('or', sel2=j2), 'forms': [0, 2]})
            if skips:
                queries.append({'a': 'Query', 'sel': j, 'skip': skips[0], 'op': _op('or', sel2=by_kind[s['kind']][1]),
                                'forms': [0]})
    last = {k: v[-1] for k, v in by_kind.items()}
    for form in ('arrays', 'views', 'dict'):
        queries.append({'a': 'Complement', 'form': form, 'sels': [last['facets']]})
        queries.append({'a': 'Complement', 'form': form, 'sels': [last['facets'], last['elements'], by_kind['nodes'][2]]})
    if comp is not None and mesh.dim() >= 2:
        nonempty = [j for j in by_kind['facets'] if 0 < len(sels[j]['ids']) <= 12]
        for j in nonempty[:1 + depth]:
            queries.append({'a': 'Support', 'sel': j, 'comp': comp})
    queries.append({'a': 'Complement', 'form': 'views', 'sels': [last['none']]})
    queries.append({'a': 'Complement', 'form': 'arrays', 'sels': [by_kind['facets'][0]]})      # empty selection
    return sels, queries


def recipe(rng, fam, mrec, spec, depth, basis='cell'):
    mesh = DC.make_mesh(mrec)
    elem, err = guarded(lambda: DC.build_element(spec), 30)
    if err:                                  # judged when executed (Basis event with err)
        return {'driver': 'lookup', 'family': fam, 'mesh': mrec, 'elem': spec, 'basis': basis, 'sels': [], 'queries': []}
    # the float law TraceSupport (absolute tolerance 2^-40) is recorded on meshes of ordinary size and position only:
    # on translated / scaled copies the inverse map loses about |coordinate| / h digits, which is conditioning and not
    # the subject of C07
    comp = trace_component(spec) if (basis == 'cell' and 'xf' not in mrec) else None
    sels, queries = plan(rng, mesh, elem, depth, comp)
    return {'driver': 'lookup', 'family': fam, 'mesh': mrec, 'elem': spec, 'basis': basis, 'sels': sels,
            'queries': queries}


def scenario(sid, rec):
    elem, err = guarded(lambda: DC.build_element(rec['elem']), 30)
    tags = {'kind': rec['mesh']['kind'], 'family': rec['family'], 'elem': DC.label(rec['elem']),
            'efnames': DC.edge_facet_names_differ(elem) if not err else 'same', 'basis': rec.get('basis', 'cell')}
    return {'id': sid, 'recipe': rec, 'tags': tags, 'events': execute(rec)}


# elements DESIGN names for C07 (+ the rest of the catalogue in the thorough tier)
def focus(kind):
    C, X, V, D = DC.C, (lambda *s: {'comp': list(s)}), (lambda s: {'vec': s}), (lambda s: {'dg': s})
    return {
        'line': [C('ElementLineP1'), C('ElementLineP2'), C('ElementLineHermite'), C('ElementLineMini'),
                 C('ElementLinePp', 3), X(C('ElementLineP1'), C('ElementLineP2'))],
        'tri': [C('ElementTriP1'), C('ElementTriP2'), C('ElementTriP3'), C('ElementTriArgyris'), C('ElementTriMorley'),
                C('ElementTriRT1'), C('ElementTriRT2'), C('ElementTriN1'), C('ElementTriN2'), C('ElementTriBDM1'),
                C('ElementTriMini'), C('ElementTriCR'), C('ElementTriP0'), C('ElementTri15ParamPlate'),
                C('ElementTriHermite'), V(C('ElementTriP2')), D(C('ElementTriP1')),
                X(C('ElementTriP2'), C('ElementTriP1')), X(V(C('ElementTriP2')), C('ElementTriP1')),
                X(C('ElementTriRT1'), C('ElementTriP0')), X(C('ElementTriMini'), C('ElementTriP1')),
                X(C('ElementTriMorley'), C('ElementTriN1')),
                X(C('ElementTriP1'), C('ElementTriP2')), X(C('ElementTriP1'), C('ElementTriP2'), C('ElementTriP2')),
                X(C('ElementTriP1'), C('ElementTriP0')), X(C('ElementTriP1'), V(C('ElementTriP2')), C('ElementTriMini'))],
        'quad': [C('ElementQuad1'), C('ElementQuad2'), C('ElementQuadS2'), C('ElementQuadBFS'), C('ElementQuadRT1'),
                 C('ElementQuadN1'), C('ElementQuadP', 3), X(C('ElementQuad2'), C('ElementQuad1')),
                 X(C('ElementQuad1'), C('ElementQuad2')), X(C('ElementQuad0'), C('ElementQuad1'), C('ElementQuad2'))],
        'tet': [C('ElementTetP1'), C('ElementTetP2'), C('ElementTetRT1'), C('ElementTetN1'), C('ElementTetCCR'),
                C('ElementTetMini'), C('ElementTetCR'), V(C('ElementTetP2')), D(C('ElementTetN1')),
                X(C('ElementTetN1'), C('ElementTetRT1')), X(C('ElementTetP2'), C('ElementTetP1')),
                X(C('ElementTetRT1'), C('ElementTetP0')), X(C('ElementTetN1'), C('ElementTetP1')),
                X(C('ElementTetCCR'), C('ElementTetN1'), C('ElementTetRT1')),
                X(C('ElementTetP1'), C('ElementTetP2')), X(C('ElementTetP1'), C('ElementTetRT1'), C('ElementTetCCR'))],
        'hex': [C('ElementHex1'), C('ElementHex2'), C('ElementHexS2'), C('ElementHexRT1'), C('ElementHexSkeleton0'),
                X(C('ElementHex2'), C('ElementHex1')), X(C('ElementHexS2'), C('ElementHexRT1')),
                X(C('ElementHex1'), C('ElementHex2'))],
        'wedge': [C('ElementWedge1')],
    }[kind]


SYN = {   # signature-only elements with distinct names per row (wedge: no edge DOFs, Mesh._expand_facets has no
          # facet -> edge table for prisms and no exported prism element declares edge DOFs)
    'line': [{'n': 2, 'e': 0, 'f': 0, 'i': 2}],
    'tri': [{'n': 2, 'e': 0, 'f': 2, 'i': 1}],
    'quad': [{'n': 1, 'e': 0, 'f': 2, 'i': 2}],
    'tet': [{'n': 1, 'e': 2, 'f': 0, 'i': 1}, {'n': 2, 'e': 0, 'f': 2, 'i': 0}, {'n': 1, 'e': 1, 'f': 1, 'i': 1}],
    'hex': [{'n': 1, 'e': 2, 'f': 0, 'i': 1}, {'n': 1, 'e': 1, 'f': 1, 'i': 0}],
    'wedge': [{'n': 2, 'e': 0, 'f': 1, 'i': 1}],
}


def generate(ctx):
    rng = np.random.default_rng(ctx.seed + 70)
    thorough = ctx.tier == 'thorough'
    depth = 3 if thorough else 1
    meshes = [x for x in DC.universe_meshes(rng, ctx.tier) if len(x[1]['t'][0]) <= 30]
    by_kind = {}
    for fam, mrec in meshes:
        by_kind.setdefault(mrec['kind'], []).append((fam, mrec))
    recs = []
    for kind, ms in by_kind.items():
        multi = [x for x in ms if len(x[1]['t'][0]) >= 2]
        specs = focus(kind) + [{'syn': {'kind': kind, 'sig': s}} for s in SYN[kind]]
        nfocus = len(specs)
        if thorough:
            seen = {DC.label(s) for s in specs}
            specs += [s for s in DC.catalogue(kind) if DC.label(s) not in seen
                      and DC.label(s) not in ('ElementHexC1', 'Vector(ElementHex2)')]
        # vector wrappers with an explicit number of components (names u^1 .. u^d), also in the quick tier
        specs += [s for s in DC.extra_wrappers(kind) if 'vec' in s and DC.label(s) not in {DC.label(x) for x in specs}][:3]
        for q, spec in enumerate(specs):
            e0, err = guarded(lambda: DC.build_element(spec), 30)
            heavy = bool(err) or sum(DC.signature(e0).values()) > 12
            cand = [x for x in multi if len(x[1]['t'][0]) <= (8 if heavy else 30)] or multi
            core = q < nfocus                    # thorough: the named elements deepest, the rest of the catalogue lighter
            nm = min(len(cand), (5 if core else 3) if thorough else 2)
            for a in range(nm):
                fam, mrec = cand[(q + a * 3) % len(cand)]
                recs.append(recipe(rng, fam, mrec, spec, depth if (core or not thorough) else 2))
        # translated / scaled copies (exact in floating point): far from the origin relative to the cell size
        # (about 5e5 with h = 1; about 1e3 with h = 2^-10), and ordinary scaled ones
        plain = [x for x in multi if x[1].get('scale', 1) == 1 and x[1].get('order', 1) == 1 and len(x[1]['t'][0]) <= 12]
        dim = DC.DIM[kind]
        xfs = [{'pow2': 0, 'add': [2 ** 19] * dim}, {'pow2': -10, 'add': [1024] * dim}]
        if thorough:
            xfs += [{'pow2': 10, 'add': [0] * dim}, {'pow2': 0, 'add': [(-1) ** c * 2 ** 19 for c in range(dim)]},
                    {'pow2': -6, 'add': [4096] * dim}]
        for a, xf in enumerate(xfs):
            for b, spec in enumerate(focus(kind)[:2]):
                for r in range(2 if thorough else 1):
                    fam, mrec = plain[(a + b + 2 * r) % len(plain)]
                    recs.append(recipe(rng, fam + '-far', dict(mrec, xf=xf), spec, 1))
        if thorough and kind != 'wedge':
            fam, mrec = multi[0]
            recs.append(recipe(rng, fam, mrec, focus(kind)[1 if len(focus(kind)) > 1 else 0], 1, basis='facet'))
    return recs


# ---------------------------------------------------------------- M + scenarios for R

def model(ctx):
    out = os.path.join(ctx.scratch, 'c07_universe.json')
    env = {'OUT_FILE': out, 'TIER': ctx.tier}
    from concurrent.futures import ThreadPoolExecutor
    env0 = {'OUT_FILE': '', 'TIER': ctx.tier}
    with ThreadPoolExecutor(max_workers=3) as ex:       # three independent TLC runs side by side
        f1 = ex.submit(ctx.model_must_hold, 'MC_C07', 'MC_C07.cfg', env=env, workers=8,
                       timeout=1500 if ctx.tier == 'thorough' else 600)
        # signatures whose edge and facet DOFs are named differently: the current name -> row translation holds ...
        f2 = ex.submit(ctx.model_must_hold, 'MC_C07', 'MC_C07_fixed.cfg', clause_prefix='ModelNamed', env=env0,
                       workers=4, timeout=900)
        # ... and the translation before fix 28a0105 (offsets nodal, facet, edge) is refuted (regression model)
        f3 = ex.submit(ctx.tlc_model, 'MC_C07', 'MC_C07_names.cfg', env=env0, workers=2, timeout=600,
                       label='regression model: name offsets before fix 28a0105')
        f1.result()
        f2.result()
        r = f3.result()
    ctx.notes['old_name_offsets_refuted_by_tlc'] = bool(r['violated'])
    if not r['violated']:
        raise MachineryError('MC_C07 does not refute the pre-repair name offsets')
    if not os.path.exists(out):
        return []
    doc = json.load(open(out))
    rng = np.random.default_rng(ctx.seed + 7)
    recs = []
    for m in doc['meshes']:
        kind = m['kind']
        mrec = {'kind': kind, 'p': np.array(m['p']).T.tolist(), 't': (np.array(m['t']).T - 1).tolist(), 'scale': 1}
        for s in doc['sigs']:
            if s['dim'] != DC.DIM[kind]:
                continue
            spec = {'syn': {'kind': kind, 'sig': {k: s['sig'][k] for k in 'nefi'}, 'names': s['names']}}
            recs.append(recipe(rng, 'TLC-universe', mrec, spec, 3 if ctx.tier == 'thorough' else 1))
    return recs


def run(ctx):
    recs = model(ctx)
    n_tlc = len(recs)
    recs += generate(ctx)
    keys = set()
    k0 = 0
    chunk = 400
    for a in range(0, len(recs), chunk):
        scs = []
        for rec in recs[a:a + chunk]:
            sc = scenario(f'C07-{k0}', rec)
            k0 += 1
            scs.append(sc)
            nt = len(rec['mesh']['t'][0])
            for ev in sc['events'][1:]:
                if ev['a'] == 'Query' and ev['sel']['ids'] and nt >= 2:
                    keys.add(json.dumps([rec['mesh'], rec['elem'], ev['sel'], ev['skip'], ev['op']], sort_keys=True))
        ctx.validate('TraceC07', scs, jvms=8)
    if ctx.tier == 'thorough':
        suite_stream(ctx)
    ctx.notes['distinct_nontrivial'] = len(keys)
    ctx.notes['scenarios_from_tlc_universe'] = n_tlc
    return ctx.finish(rule=RULE, assumptions=[
        'the entity tables nodal_dofs / edge_dofs / facet_dofs / interior_dofs reported by the basis define which '
        'entity a DOF is attached to (their coherence is property C04); the mesh connectivity is as reported (C11)',
        'a DOF name is the one the element lists for the row in its own order nodal, edge, facet, interior',
        'predicates handed to the library compare integer multiples of dyadic midpoints exactly; no tolerance is involved',
        'prism meshes are queried only with elements without edge DOFs (no exported prism element has any)',
        'order and multiplicity of returned index arrays are not judged (sets are compared)',
        'TLC 1.8.0 and the CommunityModules Json module are trusted'],
        exhaustive=False)


SUITE_FILES = ['tests/test_dofs.py', 'tests/test_basis.py', 'tests/test_assembly.py', 'tests/test_utils.py',
               'tests/test_manufactured.py', 'tests/test_elements.py', 'tests/test_mesh.py', 'tests/test_autodiff.py',
               'tests/test_convergence.py', 'tests/test_convergence_h2.py', 'tests/test_convergence_nk.py',
               'tests/test_p_convergence.py']


def suite_stream(ctx):
    """Every DOF query the repository's own tests make through get_dofs on a small mesh (recorded by the pytest plugin
    harness/suite_c07.py): the query as given, the entities it resolves to, the returned view; judged by TraceC07
    (ExactClosure / ArgumentFreeIsBoundary / SkipFilter / ByKindNames; SelectorFormsAgree needs alternative forms of the
    same selection and is not part of this stream)."""
    from .. import suite
    got = suite.record(ctx, files=SUITE_FILES, plugins=['harness.suite_c07'])
    items = got.get('c07', [])
    # precondition as in C04: no point that belongs to no cell (the multi-mesh tests build bases on such meshes; the
    # numbers of those points are referenced by no cell, N = max + 1 does not cover them)
    full = [it for it in items
            if {v for c in it['basis']['t'] for v in c} == set(range(1, it['basis']['nv'] + 1))]
    scs = []
    nq = 0
    for k, it in enumerate(full):
        b = it['basis']
        scs.append({'id': f'C07-suite-{k}', 'recipe': {'driver': 'suite', 'test': it.get('test', ''), 'elem': it.get('elem', '')},
                    'tags': {'family': 'suite', 'kind': b['kind'], 'elem': it.get('elem', ''), 'efnames': 'same',
                             'basis': 'suite'},
                    'events': [b] + it['queries']})
        nq += len(it['queries'])
    ctx.validate('TraceC07', scs, jvms=8)
    sk = {}
    for d in got.get('c07_skipped', []):
        for a, n in d.items():
            sk[a] = sk.get(a, 0) + int(n)
    ctx.notes['suite_c07'] = {'bases_recorded': len(items), 'bases_skipped_unused_vertices': len(items) - len(full),
                              'scenarios_from_repository_tests': len(scs), 'query_events': nq,
                              'queries_not_recorded': sk}


def replay(ctx, doc):
    sc = doc['scenario']
    if sc.get('recipe', {}).get('driver') == 'suite':
        # recorded from a repository test (named in the recipe): the recorded events themselves are re-validated
        ctx.validate('TraceC07', [sc])
        return ctx.finish(rule=RULE)
    if sc.get('recipe', {}).get('driver') == 'model':
        cfg = sc['recipe'].get('cfg', 'MC_C07.cfg')
        if cfg == 'MC_C07_names.cfg':
            r = ctx.tlc_model('MC_C07', cfg, env={'OUT_FILE': '', 'TIER': ctx.tier}, timeout=600)
            for inv in r['violated']:
                ctx.fail(clause=f'Model:{inv}', tags=doc.get('tags', {}), scenario=sc, pos=0)
        else:
            ctx.model_must_hold('MC_C07', cfg, env={'OUT_FILE': '', 'TIER': ctx.tier}, timeout=1500)
        return ctx.finish(rule=RULE)
    ctx.validate('TraceC07', [scenario(sc['id'], sc['recipe'])])
    return ctx.finish(rule=RULE)
