SPECIFICATION Spec
CONSTANT Which = "main"
CONSTANT Tier = "quick"
CONSTANT LineAlgo = "current"
INVARIANT FindOKHolds
CHECK_DEADLOCK FALSE
