"""pytest plugin (lives in /verif, loaded with `-p harness.suite_plugin`): runs the repository's own tests under
recording wrappers and writes one JSON document with the recorded events (the CCF idea: the suite already exercises
hundreds of meshes and refinements; its assertions are weak, the specification's are not).

Recorded (bounded in size, de-duplicated):
  * every mesh on which `refined()` is called: the abstract mesh before / after  (-> C12 / C13 clauses)
  * every small mesh whose facets table is built: the connectivity tables          (-> C11 clauses)
Environment: SUITE_OUT = output path, SUITE_MAX_CELLS (default 64), SKFEM_VERIF=1 must be set (guard).
"""
import hashlib
import json
import logging
import os

import numpy as np

OUT = os.environ.get('SUITE_OUT')
MAXC = int(os.environ.get('SUITE_MAX_CELLS', '64'))
ENABLED = bool(OUT) and os.environ.get('SKFEM_VERIF') == '1'
_events = {'refine': [], 'conn': []}
_seen = set()
_depth = [0]


def _key(*arrays):
    h = hashlib.sha1()
    for a in arrays:
        h.update(np.ascontiguousarray(a).tobytes())
    return h.hexdigest()


def pytest_configure(config):
    if not ENABLED:
        return
    import skfem
    from skfem.mesh.mesh import Mesh
    from harness.project import conn_event, kind_of, find_scale, NVERT, KIND
    from harness.refine_common import abstract, LogCapture

    orig_refined = Mesh.refined

    def refined(self, times_or_ix=1):
        if _depth[0] > 0 or type(self).__name__ not in KIND or self.t.shape[1] > MAXC:
            return orig_refined(self, times_or_ix)
        _depth[0] += 1
        cap = LogCapture()
        logger = logging.getLogger('skfem')
        logger.addHandler(cap)
        try:
            out = orig_refined(self, times_or_ix)
        finally:
            logger.removeHandler(cap)
            _depth[0] -= 1
        try:
            uniform = isinstance(times_or_ix, int)
            nv = NVERT[kind_of(self)]
            if out.t.shape[1] <= 8 * MAXC and (not uniform or times_or_ix == 1) and 'DG' not in type(self).__name__:
                k = _key(self.p, self.t, np.asarray(times_or_ix))
                if ('r', k) not in _seen and len(_events['refine']) < 400:
                    _seen.add(('r', k))
                    sc = find_scale(out.p[:, :int(np.max(out.t[:nv])) + 1])
                    pre = abstract(self, sc) if sc else None
                    post = abstract(out, sc) if sc else None
                    if pre is not None and post is not None:
                        marked = [] if uniform else [int(v) + 1 for v in np.unique(np.asarray(times_or_ix).ravel())]
                        _events['refine'].append({
                            'a': 'Refine' if uniform else 'Adapt', 'op': 'refine' if uniform else 'adapt', 'err': '',
                            'k': int(times_or_ix) if uniform else 0, 'marked': marked,
                            'warned_s': int(any('subdomains' in r for r in cap.records)),
                            'warned_b': int(any('boundaries' in r for r in cap.records)),
                            'pre': pre, 'post': post, 'test': os.environ.get('PYTEST_CURRENT_TEST', '')[:120]})
        except Exception:          # recording must never disturb the test
            pass
        return out

    Mesh.refined = refined

    orig_init_facets = Mesh._init_facets

    def _init_facets(self):
        orig_init_facets(self)
        try:
            if _depth[0] == 0 and type(self).__name__ in KIND and 'DG' not in type(self).__name__ \
                    and self.t.shape[1] <= 4 * MAXC and len(_events['conn']) < 600:
                k = _key(self.t)
                if ('c', k) not in _seen:
                    _seen.add(('c', k))
                    _depth[0] += 1
                    try:
                        ev = conn_event(self, with_coords=False)
                    finally:
                        _depth[0] -= 1
                    ev['test'] = os.environ.get('PYTEST_CURRENT_TEST', '')[:120]
                    _events['conn'].append(ev)
        except Exception:
            pass

    Mesh._init_facets = _init_facets
    # MeshHex1 overrides _init_facets: wrap it as well
    from skfem.mesh.mesh_hex_1 import MeshHex1
    orig_hex = MeshHex1._init_facets

    def _init_facets_hex(self):
        orig_hex(self)
        try:
            if _depth[0] == 0 and self.t.shape[1] <= 4 * MAXC and len(_events['conn']) < 600 \
                    and type(self).__name__ in KIND:
                k = _key(self.t)
                if ('c', k) not in _seen:
                    _seen.add(('c', k))
                    _depth[0] += 1
                    try:
                        ev = conn_event(self, with_coords=False)
                    finally:
                        _depth[0] -= 1
                    ev['test'] = os.environ.get('PYTEST_CURRENT_TEST', '')[:120]
                    _events['conn'].append(ev)
        except Exception:
            pass

    MeshHex1._init_facets = _init_facets_hex


def pytest_sessionfinish(session, exitstatus):
    if ENABLED:
        with open(f'{OUT}.{os.getpid()}.json', 'w') as f:
            json.dump(_events, f)
