-------------------------- MODULE AssemblyThreads --------------------------
(* Threaded bilinear assembly (property C16):                                  *)
(*   skfem/assembly/form/bilinear_form.py:58-128 (_assemble) and :150-158      *)
(*   (_threaded_kernel).                                                       *)
(*                                                                             *)
(* main    : fills rows/cols in the serial j,i loops, builds `indices` in the  *)
(*           code's product order, splits them with numpy's array_split chunk  *)
(*           sizes, starts the workers, joins them, flattens `data`.           *)
(* worker  : for every pair of its chunk: Read the shared operands (basis      *)
(*           arrays, parameter dictionary, dx), then Write data[j][i].         *)
(* Every interleaving of the Read/Write steps of all workers is explored.      *)
(* JOIN = FALSE / PRIVATE = TRUE / DROPREM = TRUE are named deviations         *)
(* (missing join, per-thread copy of data, manual chunking that drops the      *)
(* remainder) used to show that the invariants are sensitive.                  *)
EXTENDS ArraySplit

CONSTANTS NU,        \* number of trial functions   (ubasis.Nbfun)
          NV,        \* number of test functions    (vbasis.Nbfun)
          NTH,       \* number of worker threads    (self.nthreads > 0)
          JOIN, PRIVATE, DROPREM

NP == NU * NV
PairAt(q) == PairAtP(NV, q)
Pairs     == PairsP(NU, NV)
\* np.array_split (module ArraySplit); DROPREM is the deviation "manual chunking that drops the remainder"
ChunkLen(w)   == IF DROPREM THEN NP \div NTH ELSE ChunkLenP(NP, NTH, w)
ChunkStart(w) == SumOver([v \in 1..NTH |-> ChunkLen(v)], 1..(w - 1))
Chunk(w)      == [c \in 1..ChunkLen(w) |-> Pairs[ChunkStart(w) + c]]
Chunks        == [w \in 1..NTH |-> Chunk(w)]

\* the kernel value of pair (i, j) as a function of the shared operands: injective in (i, j)
Kernel(inp, i, j) == inp.phiu[j] * 100 + inp.phiv[i] * 7 + inp.w
Inputs0 == [phiu |-> [j \in 1..NU |-> j], phiv |-> [i \in 1..NV |-> i + 3], w |-> 1]
Unset == -1
Serial == [j \in 1..NU |-> [i \in 1..NV |-> Kernel(Inputs0, i, j)]]
\* data.flatten('C') of shape (NU, NV, nt): j-major, then i
FlattenC(d) == [q \in 1..NP |-> d[PairAt(q).j][PairAt(q).i]]

(* --algorithm ThreadedAssemble
variables inputs = Inputs0,
          data   = [j \in 1..NU |-> [i \in 1..NV |-> 0]],          \* np.zeros
          writes = [j \in 1..NU |-> [i \in 1..NV |-> {}]],          \* history: who wrote the slot (set of workers)
          nwrites = [j \in 1..NU |-> [i \in 1..NV |-> 0]],
          started = FALSE, done = {}, returned = FALSE, result = <<>>;

fair process main = 0
begin
  Fill:   skip;                                   \* rows / cols (serial loops; no kernel when nthreads > 0)
  Start:  started := TRUE;                        \* for t in threads: t.start()
  Join:   await (~JOIN) \/ done = 1..NTH;         \* for t in threads: t.join()
  Flat:   result := FlattenC(data);               \* data.flatten('C')
          returned := TRUE;
end process;

fair process worker \in 1..NTH
variables k = 1, tmp = 0, mine = [j \in 1..NU |-> [i \in 1..NV |-> 0]];
begin
  Wait:  await started;
  Loop:  while k <= Len(Chunks[self]) do
  Read:    tmp := Kernel(inputs, Chunks[self][k].i, Chunks[self][k].j);
  Write:   if PRIVATE then
             mine[Chunks[self][k].j][Chunks[self][k].i] := tmp;
           else
             data[Chunks[self][k].j][Chunks[self][k].i] := tmp;
           end if;
           writes[Chunks[self][k].j][Chunks[self][k].i] := @ \cup {self};
           nwrites[Chunks[self][k].j][Chunks[self][k].i] := @ + 1;
           k := k + 1;
         end while;
  Fin:   done := done \cup {self};
end process;
end algorithm *)
\* BEGIN TRANSLATION
VARIABLES pc, inputs, data, writes, nwrites, started, done, returned, result, 
          k, tmp, mine

vars == << pc, inputs, data, writes, nwrites, started, done, returned, result, 
           k, tmp, mine >>

ProcSet == {0} \cup (1..NTH)

Init == (* Global variables *)
        /\ inputs = Inputs0
        /\ data = [j \in 1..NU |-> [i \in 1..NV |-> 0]]
        /\ writes = [j \in 1..NU |-> [i \in 1..NV |-> {}]]
        /\ nwrites = [j \in 1..NU |-> [i \in 1..NV |-> 0]]
        /\ started = FALSE
        /\ done = {}
        /\ returned = FALSE
        /\ result = <<>>
        (* Process worker *)
        /\ k = [self \in 1..NTH |-> 1]
        /\ tmp = [self \in 1..NTH |-> 0]
        /\ mine = [self \in 1..NTH |-> [j \in 1..NU |-> [i \in 1..NV |-> 0]]]
        /\ pc = [self \in ProcSet |-> CASE self = 0 -> "Fill"
                                        [] self \in 1..NTH -> "Wait"]

Fill == /\ pc[0] = "Fill"
        /\ TRUE
        /\ pc' = [pc EXCEPT ![0] = "Start"]
        /\ UNCHANGED << inputs, data, writes, nwrites, started, done, returned, 
                        result, k, tmp, mine >>

Start == /\ pc[0] = "Start"
         /\ started' = TRUE
         /\ pc' = [pc EXCEPT ![0] = "Join"]
         /\ UNCHANGED << inputs, data, writes, nwrites, done, returned, result, 
                         k, tmp, mine >>

Join == /\ pc[0] = "Join"
        /\ (~JOIN) \/ done = 1..NTH
        /\ pc' = [pc EXCEPT ![0] = "Flat"]
        /\ UNCHANGED << inputs, data, writes, nwrites, started, done, returned, 
                        result, k, tmp, mine >>

Flat == /\ pc[0] = "Flat"
        /\ result' = FlattenC(data)
        /\ returned' = TRUE
        /\ pc' = [pc EXCEPT ![0] = "Done"]
        /\ UNCHANGED << inputs, data, writes, nwrites, started, done, k, tmp, 
                        mine >>

main == Fill \/ Start \/ Join \/ Flat

Wait(self) == /\ pc[self] = "Wait"
              /\ started
              /\ pc' = [pc EXCEPT ![self] = "Loop"]
              /\ UNCHANGED << inputs, data, writes, nwrites, started, done, 
                              returned, result, k, tmp, mine >>

Loop(self) == /\ pc[self] = "Loop"
              /\ IF k[self] <= Len(Chunks[self])
                    THEN /\ pc' = [pc EXCEPT ![self] = "Read"]
                    ELSE /\ pc' = [pc EXCEPT ![self] = "Fin"]
              /\ UNCHANGED << inputs, data, writes, nwrites, started, done, 
                              returned, result, k, tmp, mine >>

Read(self) == /\ pc[self] = "Read"
              /\ tmp' = [tmp EXCEPT ![self] = Kernel(inputs, Chunks[self][k[self]].i, Chunks[self][k[self]].j)]
              /\ pc' = [pc EXCEPT ![self] = "Write"]
              /\ UNCHANGED << inputs, data, writes, nwrites, started, done, 
                              returned, result, k, mine >>

Write(self) == /\ pc[self] = "Write"
               /\ IF PRIVATE
                     THEN /\ mine' = [mine EXCEPT ![self][Chunks[self][k[self]].j][Chunks[self][k[self]].i] = tmp[self]]
                          /\ data' = data
                     ELSE /\ data' = [data EXCEPT ![Chunks[self][k[self]].j][Chunks[self][k[self]].i] = tmp[self]]
                          /\ mine' = mine
               /\ writes' = [writes EXCEPT ![Chunks[self][k[self]].j][Chunks[self][k[self]].i] = @ \cup {self}]
               /\ nwrites' = [nwrites EXCEPT ![Chunks[self][k[self]].j][Chunks[self][k[self]].i] = @ + 1]
               /\ k' = [k EXCEPT ![self] = k[self] + 1]
               /\ pc' = [pc EXCEPT ![self] = "Loop"]
               /\ UNCHANGED << inputs, started, done, returned, result, tmp >>

Fin(self) == /\ pc[self] = "Fin"
             /\ done' = (done \cup {self})
             /\ pc' = [pc EXCEPT ![self] = "Done"]
             /\ UNCHANGED << inputs, data, writes, nwrites, started, returned, 
                             result, k, tmp, mine >>

worker(self) == Wait(self) \/ Loop(self) \/ Read(self) \/ Write(self)
                   \/ Fin(self)

(* Allow infinite stuttering to prevent deadlock on termination. *)
Terminating == /\ \A self \in ProcSet: pc[self] = "Done"
               /\ UNCHANGED vars

Next == main
           \/ (\E self \in 1..NTH: worker(self))
           \/ Terminating

Spec == /\ Init /\ [][Next]_vars
        /\ WF_vars(main)
        /\ \A self \in 1..NTH : WF_vars(worker(self))

Termination == <>(\A self \in ProcSet: pc[self] = "Done")

\* END TRANSLATION

\* ---- properties (C16) ----
Owner(i, j) == CHOOSE w \in 1..NTH : \E c \in DOMAIN Chunks[w] : Chunks[w][c] = [i |-> i, j |-> j]
ChunksPartitionPairs ==                                      \* constant-level: order-preserving, nothing lost or repeated
  /\ FlattenSeq(Chunks) = Pairs
  /\ \A w \in 1..NTH : ChunkLen(w) \in {NP \div NTH, (NP \div NTH) + 1}
SingleWriter == \A j \in 1..NU, i \in 1..NV :
                  /\ nwrites[j][i] <= 1
                  /\ writes[j][i] # {} => writes[j][i] = {Owner(i, j)}
SharedInputsUnchanged == inputs = Inputs0
NoFlattenBeforeJoin   == returned => done = 1..NTH
EachPairOnce          == returned => \A j \in 1..NU, i \in 1..NV : nwrites[j][i] = 1
EqualsSerial          == returned => result = FlattenC(Serial)
Terminates            == <>returned
==============================================================================
