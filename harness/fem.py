"""Shared drivers of the assembly properties (C01, C19, C20): the exact universe of bases (integer meshes,
dyadic user-supplied quadrature, elements whose values are dyadic there), the element catalogue, the projection
pi(basis) and the integrand grammar with its Python interpreter.

Nothing here compares a result with an expected value.  The term interpreter `ev_term` is the one artefact that
exists twice (here and as EvalN in spec/AssemblySem.tla); it is cross-checked by "Chk" events.
"""
from fractions import Fraction

import numpy as np

from . import universe as U
from . import core as _core


def guarded(fn, seconds=20.0):
    """core.guarded for the assembly properties: library exceptions are observations (the event's `err`), but an expired
    per-call alarm is NOT - on a slow or overloaded machine it says nothing about the property.  The alarm is generous
    (at least 10 minutes; normal calls take well under a second) and its expiry is a machinery failure (exit 2)."""
    res, err = _core.guarded(fn, max(10.0 * seconds, 600.0))
    if err == 'Timeout':
        raise _core.MachineryError('a library call did not return within the (generous) per-call alarm')
    return res, err

# ------------------------------------------------------------------------------------------ elements


def _catalog():
    import skfem.element as E
    return {
        'line': {'P0': E.ElementLineP0, 'P1': E.ElementLineP1, 'P2': E.ElementLineP2, 'Mini': E.ElementLineMini,
                 'Hermite': E.ElementLineHermite, 'P1DG': E.ElementLineP1DG,
                 'Pp3': lambda: E.ElementLinePp(3)},
        'tri': {'P0': E.ElementTriP0, 'P1': E.ElementTriP1, 'P2': E.ElementTriP2, 'P3': E.ElementTriP3,
                'P4': E.ElementTriP4, 'P1B': E.ElementTriP1B, 'P2B': E.ElementTriP2B, 'CR': E.ElementTriCR,
                'RT1': E.ElementTriRT1, 'RT2': E.ElementTriRT2, 'BDM1': E.ElementTriBDM1, 'N1': E.ElementTriN1,
                'N2': E.ElementTriN2, 'Morley': E.ElementTriMorley, 'Argyris': E.ElementTriArgyris,
                'Hermite': E.ElementTriHermite, 'HHJ0': E.ElementTriHHJ0, 'HHJ1': E.ElementTriHHJ1,
                'P1DG': E.ElementTriP1DG, 'P1G': E.ElementTriP1G, 'P2G': E.ElementTriP2G},
        'quad': {'P0': E.ElementQuad0, 'P1': E.ElementQuad1, 'P2': E.ElementQuad2, 'S2': E.ElementQuadS2,
                 'BFS': E.ElementQuadBFS, 'RT1': E.ElementQuadRT1, 'N1': E.ElementQuadN1, 'P1DG': E.ElementQuad1DG,
                 'Qp3': lambda: E.ElementQuadP(3), 'P2G': E.ElementQuad2G},
        'tet': {'P0': E.ElementTetP0, 'P1': E.ElementTetP1, 'P2': E.ElementTetP2, 'RT1': E.ElementTetRT1,
                'N1': E.ElementTetN1, 'Mini': E.ElementTetMini, 'CR': E.ElementTetCR, 'CCR': E.ElementTetCCR},
        'hex': {'P0': E.ElementHex0, 'P1': E.ElementHex1, 'P2': E.ElementHex2, 'S2': E.ElementHexS2,
                'RT1': E.ElementHexRT1, 'C1': E.ElementHexC1, 'P1DG': E.ElementHex1DG},
    }


_CAT = None


def make_elem(kind, spec):
    """spec: ['e', name] | ['vec', spec] | ['vecn', spec, dim] | ['comp', spec, ...] | ['dg', spec]."""
    global _CAT
    import skfem.element as E
    if _CAT is None:
        _CAT = _catalog()
    op = spec[0]
    if op == 'e':
        return _CAT[kind][spec[1]]()
    if op == 'vec':
        return E.ElementVector(make_elem(kind, spec[1]))
    if op == 'vecn':
        return E.ElementVector(make_elem(kind, spec[1]), spec[2])
    if op == 'comp':
        return E.ElementComposite(*[make_elem(kind, s) for s in spec[1:]])
    if op == 'dg':
        return E.ElementDG(make_elem(kind, spec[1]))
    raise ValueError(spec)


def elem_name(spec):
    op = spec[0]
    if op == 'e':
        return spec[1]
    if op == 'vecn':
        return f'vec{spec[2]}({elem_name(spec[1])})'
    return op + '(' + ','.join(elem_name(s) for s in spec[1:]) + ')'


# ------------------------------------------------------------------------------------------ meshes

def make_mesh(rec):
    """rec: {'kind', 'p': dim x nv, 't': nnodes x nt [, 'cls': 'MeshTri2' ...]}"""
    import skfem
    kind = rec['kind']
    m = U.make(kind, rec['p'], rec['t'])
    if rec.get('order2'):
        cls = {'tri': skfem.MeshTri2, 'quad': skfem.MeshQuad2, 'tet': skfem.MeshTet2, 'hex': skfem.MeshHex2}[kind]
        m2 = cls.from_mesh(m)
        bump = rec.get('bump')
        if bump:
            from dataclasses import replace
            d = m2.doflocs.copy()
            nv = m.p.shape[1]
            rng = np.random.default_rng(bump)
            d[:, nv:] += rng.integers(-2, 3, size=d[:, nv:].shape) / 32.0
            m2 = replace(m2, doflocs=d)
        return m2
    return m


def lattice_mesh(kind, rng, size=None, side=None, shear=True, renumber=True, nonuniform=None):
    """Integer lattice mesh with cells of side 1, 2 or 4 (power-of-two determinants), optionally sheared
    (determinant preserved), vertices renumbered.  Returns the JSON mesh record."""
    side = side or int(rng.choice([1, 2, 2, 4]))
    if kind == 'line':
        n = size or int(rng.integers(1, 5))
        pts = np.cumsum([0] + [int(rng.choice([1, 2, 4])) for _ in range(n)])
        p, t = U.line_points(pts)
    elif kind == 'tri':
        nx, ny = size or (int(rng.integers(1, 3)), int(rng.integers(1, 3)))
        p, t = U.tri_lattice(nx, ny, [int(rng.integers(0, 2)) for _ in range(nx * ny)])
        p = p * side
    elif kind == 'quad':
        nx, ny = size or (int(rng.integers(1, 3)), int(rng.integers(1, 3)))
        p, t = U.quad_grid(nx, ny)
        p = p * side
    elif kind == 'tet':
        p, t = U.tet_cubes(1, int(rng.choice([5, 6])))
        p = p * side
    elif kind == 'hex':
        n = size or int(rng.integers(1, 3))
        p, t = U.hex_grid(n, 1, 1)
        p = p * side
    else:
        raise ValueError(kind)
    p = np.array(p, dtype=float)
    if kind in ('tri', 'quad', 'tet', 'hex') and (rng.integers(0, 2) if nonuniform is None else nonuniform):
        # non-uniform lattice: spacings 1, 2 or 4 per axis (cell determinants stay powers of two, cells differ in size)
        for ax in range(p.shape[0]):
            levels = np.unique(p[ax])
            widths = rng.choice([1, 2, 4], size=max(len(levels) - 1, 0))
            new = np.concatenate(([0.0], np.cumsum(widths))) * (levels[1] - levels[0] if len(levels) > 1 else 1)
            p[ax] = new[np.searchsorted(levels, p[ax])]
        if np.abs(p).max() > 16:
            p = p / 2 if (p % 2 == 0).all() else p
    if shear and kind in ('tri', 'tet') and rng.integers(0, 2):
        s = int(rng.integers(-1, 2))
        p[0] = p[0] + s * p[1]                     # unimodular shear keeps determinants (affine cells only)
    if renumber and p.shape[1] > 2 and rng.integers(0, 2):
        p, t = U.renumber(p, t, rng.permutation(p.shape[1]))
        t = U.permute_cells(t, rng.permutation(t.shape[1]))
    return {'kind': kind, 'p': p.astype(int).tolist(), 't': np.asarray(t).astype(int).tolist()}


# ------------------------------------------------------------------------------------------ dyadic quadratures

def _dyadic_points(ref):
    """candidate reference points with numerators over 4"""
    if ref == 'point':
        return [[]]
    if ref == 'line':
        return [[a] for a in range(5)]
    if ref == 'tri':
        return [[0, 0], [4, 0], [0, 4], [2, 0], [2, 2], [0, 2], [1, 1], [2, 1], [1, 2]]
    if ref == 'quad':
        return [[a, b] for a in range(5) for b in range(5)]
    if ref == 'tet':
        return [[0, 0, 0], [4, 0, 0], [0, 4, 0], [0, 0, 4], [2, 0, 0], [2, 2, 0], [0, 2, 0], [0, 0, 2], [2, 0, 2],
                [0, 2, 2], [1, 1, 1], [2, 1, 1], [1, 2, 0]]
    if ref == 'hex':
        return [[a, b, c] for a in (0, 1, 2, 4) for b in (0, 2, 3, 4) for c in (0, 1, 4)]
    raise ValueError(ref)


FACET_REF = {'line': 'point', 'tri': 'line', 'quad': 'line', 'tet': 'tri', 'hex': 'quad'}


def dyadic_quadrature(ref, nq, rng):
    """nq distinct dyadic points (numerators over 4) with distinct positive dyadic weights (numerators over 8)."""
    pts = _dyadic_points(ref)
    nq = min(nq, len(pts))
    sel = rng.choice(len(pts), nq, replace=False)
    X = [pts[j] for j in sel]
    W = [int(w) for w in rng.choice(np.arange(1, 9), nq, replace=False)]
    return {'X': X, 'xden': 4, 'W': W, 'wden': 8}


def quad_arrays(q, refdim):
    X = np.array(q['X'], dtype=float).reshape(len(q['X']), refdim).T / q['xden']
    W = np.array(q['W'], dtype=float) / q['wden']
    return X, W


# ------------------------------------------------------------------------------------------ bases

def make_basis(mesh, kind, bs):
    """bs: {'type': 'cell'|'facet'|'ifacet', 'elem': spec, 'quad': {...} | None, 'intorder': n | None,
            'elements': [...] | None, 'facets': [...] | None, 'side': 0|1}"""
    import skfem
    elem = make_elem(kind, bs['elem'])
    quad = None
    if bs.get('quad') is not None:
        refdim = mesh.dim() if bs['type'] == 'cell' else mesh.dim() - 1
        quad = quad_arrays(bs['quad'], refdim)
    kw = dict(quadrature=quad, intorder=bs.get('intorder'))
    if bs['type'] == 'cell':
        el = bs.get('elements')
        return skfem.CellBasis(mesh, elem, elements=None if el is None else np.array(el, dtype=np.int64), **kw)
    fa = bs.get('facets')
    fa = None if fa is None else np.array(fa, dtype=np.int64)
    if fa is not None and bs.get('ori') is not None:
        from skfem.generic_utils import OrientedBoundary
        fa = OrientedBoundary(fa, np.array(bs['ori'], dtype=np.int64))
    if bs['type'] == 'facet':
        return skfem.FacetBasis(mesh, elem, facets=fa, side=bs.get('side', 0), **kw)
    if bs['type'] == 'ifacet':
        return skfem.InteriorFacetBasis(mesh, elem, facets=fa, side=bs.get('side', 0), **kw)
    raise ValueError(bs['type'])


def axis_parallel_facets(mesh, which):
    """indices of boundary / interior facets whose measure is dyadic (axis-parallel in the lattice meshes)."""
    f2t = mesh.f2t
    sel = np.nonzero(f2t[1] == -1)[0] if which == 'boundary' else np.nonzero(f2t[1] != -1)[0]
    out = []
    for f in sel:
        pts = mesh.p[:, mesh.facets[:, f]]
        if mesh.dim() == 1:
            out.append(int(f))
            continue
        d = pts[:, 1:] - pts[:, :1]
        if mesh.dim() == 2:
            if np.count_nonzero(d[:, 0]) == 1:
                out.append(int(f))
        else:
            # planar facet normal to a coordinate axis
            if any((d[a] == 0).all() for a in range(3)):
                out.append(int(f))
    return out


# ------------------------------------------------------------------------------------------ pi(basis)

ATTRS = ('value', 'grad', 'div', 'curl', 'hess')


def _get(fld, attr):
    return fld if attr == 'value' else getattr(fld, attr)


def accessors(fields, attrs=('value',)):
    """flat list of scalar components (f, attr, idx) of a tuple of DiscreteFields"""
    if not isinstance(fields, (tuple, list)):
        fields = (fields,)
    acc = []
    for f, fld in enumerate(fields):
        for attr in attrs:
            a = _get(fld, attr)
            if a is None:
                continue
            a = np.asarray(a)
            for idx in np.ndindex(a.shape[:-2]):
                acc.append((f, attr, tuple(int(j) for j in idx)))
    return acc


def comp(fields, ac):
    """component ac = (f, attr, idx) of `fields` (a DiscreteField / JaxDiscreteField or a tuple of them);
    used inside the generated forms and by pi"""
    if not isinstance(fields, (tuple, list)):
        fields = (fields,)
    f, attr, idx = ac
    return _get(fields[f], attr)[tuple(idx)]


def comp_np(fields, ac, shape):
    return np.broadcast_to(np.asarray(comp(fields, ac), dtype=np.float64), shape)


def pow2_scale(arrs, maxpow=8):
    for k in range(maxpow + 1):
        s = 2 ** k
        if all(np.array_equal(np.asarray(a) * s, np.rint(np.asarray(a) * s)) for a in arrs):
            return s
    return None


class TooLarge(Exception):
    """a scaled value does not fit the 32-bit integers of TLC: the scenario is skipped (counted), never judged"""


def to_ints(a, scale, bound=2 ** 24):
    """exact integers a * scale (nested lists); None if some entry is not integral (the caller logs the
    clause-visible flag `exact = 0`); raises TooLarge if an entry is too large for TLC"""
    a = np.asarray(a, dtype=np.float64) * scale
    if not np.isfinite(a).all():
        return None
    if (np.abs(a) >= bound).any():
        raise TooLarge()
    r = np.rint(a)
    if not np.array_equal(a, r):
        return None
    return r.astype(np.int64).tolist()


def guard_sum(values, factor=1, bound=2 ** 30):
    """TLC adds these integers up (32 bit): skip the scenario when the sum of magnitudes could overflow"""
    tot = 0
    stack = [values]
    while stack:
        v = stack.pop()
        if isinstance(v, (list, tuple)):
            stack.extend(v)
        else:
            tot += abs(int(v))
    if tot * factor >= bound:
        raise TooLarge()


def basis_pi(basis, acc, maxpow=8):
    """pi(basis) = [nb, nel, nq, N, nc, edofs[i][k], phi[i][c][k][q], sphi, dx[k][q], sdx] or None if not dyadic."""
    nb, nel = int(basis.Nbfun), int(basis.nelems)
    dx = np.asarray(basis.dx, dtype=np.float64)
    nq = int(dx.shape[1])
    tabs = [[comp_np(basis.basis[i], ac, (nel, nq)) for ac in acc] for i in range(nb)]
    sphi = pow2_scale([a for row in tabs for a in row], maxpow)
    sdx = pow2_scale([dx], 12)
    if sphi is None or sdx is None:
        return None
    ed = np.asarray(basis.element_dofs)
    return {'nb': nb, 'nel': nel, 'nq': nq, 'N': int(basis.N), 'nc': len(acc),
            'edofs': [[int(x) + 1 for x in ed[i]] for i in range(nb)],
            'phi': [[to_ints(a, sphi) for a in row] for row in tabs], 'sphi': int(sphi),
            'dx': to_ints(dx, sdx), 'sdx': int(sdx)}


def field_pi(fields, acc, shape, maxpow=10):
    tabs = [comp_np(fields, ac, shape) for ac in acc]
    s = pow2_scale(tabs, maxpow)
    if s is None:
        return None
    return {'kind': 'val', 'nc': len(acc), 's': int(s), 'val': [to_ints(a, s) for a in tabs], 'vec': []}


# ------------------------------------------------------------------------------------------ grammar

def term_scale(t, su, sv, fs):
    """power-of-two scale of a term (mirrors NormT of AssemblySem.tla; representation only)"""
    op = t[0]
    if op == 'u':
        return su
    if op == 'v':
        return sv
    if op == 'f':
        return fs[t[1]]
    if op in ('p', 'k'):
        return 1
    a, b = term_scale(t[1], su, sv, fs), term_scale(t[2], su, sv, fs)
    return a * b if op == '*' else max(a, b)


def ev_term(t, Uf, Vf, w, accs):
    """Python meaning of a grammar term: Uf / Vf are the trial / test field tuples the form receives,
    w the parameter dictionary, accs = {'u': [...], 'v': [...], 'f': {name: [...]}} the component accessors."""
    op = t[0]
    if op == 'u':
        return comp(Uf, accs['u'][t[1] - 1])
    if op == 'v':
        return comp(Vf, accs['v'][t[1] - 1])
    if op == 'f':
        return comp(w[t[1]], accs['f'][t[1]][t[2] - 1])
    if op == 'p':
        return w[t[1]]
    if op == 'k':
        return float(t[1])
    a = ev_term(t[1], Uf, Vf, w, accs)
    b = ev_term(t[2], Uf, Vf, w, accs)
    return a * b if op == '*' else a + b


def bilinear_callable(term, accs, nfu, term_im=None):
    def form(*args):
        w = args[-1]
        Uf, Vf = args[:nfu], args[nfu:-1]
        out = ev_term(term, Uf, Vf, w, accs)
        if term_im is not None:
            out = out + 1j * ev_term(term_im, Uf, Vf, w, accs)
        return out
    form.__name__ = 'grammar_bilinear'
    return form


def linear_callable(term, accs, term_im=None):
    def form(*args):
        w = args[-1]
        out = ev_term(term, None, args[:-1], w, accs)
        if term_im is not None:
            out = out + 1j * ev_term(term_im, None, args[:-1], w, accs)
        return out
    form.__name__ = 'grammar_linear'
    return form


def functional_callable(term, accs, uname=None, vname=None, term_im=None):
    """the same term with "u" / "v" standing for the interpolated functions w[uname] / w[vname]"""
    def form(w):
        Uf = w[uname] if uname else None
        Vf = w[vname] if vname else None
        zero = 0.0 * w['x'][0] if 'x' in w else 0.0
        out = ev_term(term, Uf, Vf, w, accs) + zero
        if term_im is not None:
            out = out + 1j * ev_term(term_im, Uf, Vf, w, accs)
        return out
    form.__name__ = 'grammar_functional'
    return form


def _mul(factors):
    t = factors[0]
    for f in factors[1:]:
        t = ['*', t, f]
    return t


def _add(summands):
    t = summands[0]
    for s in summands[1:]:
        t = ['+', t, s]
    return t


def gen_coef(rng, fields, params, allow_two=True):
    """random coefficient factor list: literals, scalar parameters, components of coefficient fields"""
    out = []
    n = int(rng.integers(0, 3 if allow_two else 2))
    for _ in range(n):
        r = rng.integers(0, 4)
        if r == 0 or (not fields and not params):
            out.append(['k', int(rng.choice([-2, -1, 2, 3]))])
        elif r == 1 and params:
            out.append(['p', str(rng.choice(params))])
        elif fields:
            name, nc = fields[int(rng.integers(0, len(fields)))]
            out.append(['f', name, int(rng.integers(1, nc + 1))])
        else:
            out.append(['k', int(rng.choice([-1, 2]))])
    return out


def gen_bilinear(rng, ncu, ncv, fields, params, nsum=None):
    """sum of products, each with exactly one trial and one test component (linear in each argument)"""
    nsum = nsum or int(rng.integers(1, 4))
    ss = []
    for _ in range(nsum):
        fac = gen_coef(rng, fields, params) + [['u', int(rng.integers(1, ncu + 1))], ['v', int(rng.integers(1, ncv + 1))]]
        fac = [fac[j] for j in rng.permutation(len(fac))]
        ss.append(_mul(fac))
    return _add(ss)


def gen_linear(rng, ncv, fields, params, nsum=None):
    nsum = nsum or int(rng.integers(1, 4))
    ss = []
    for _ in range(nsum):
        fac = gen_coef(rng, fields, params) + [['v', int(rng.integers(1, ncv + 1))]]
        fac = [fac[j] for j in rng.permutation(len(fac))]
        ss.append(_mul(fac))
    return _add(ss)


def gen_functional(rng, fields, params, nsum=None):
    nsum = nsum or int(rng.integers(1, 4))
    ss = []
    for _ in range(nsum):
        fac = gen_coef(rng, fields, params)
        if not fac:
            fac = [['k', int(rng.choice([1, 2, -3]))]]
        ss.append(_mul(fac))
    return _add(ss)


def term_size(t):
    return 1 if t[0] in ('u', 'v', 'f', 'p', 'k') else 1 + term_size(t[1]) + term_size(t[2])


# ------------------------------------------------------------------------------------------ results -> ints

def csr_trip(A, scale):
    """CSR pattern and values of a scipy matrix as [[r, c, val*scale]], 1-based; None if inexact"""
    A = A.tocsr()
    out = []
    ok = True
    for r in range(A.shape[0]):
        for jj in range(A.indptr[r], A.indptr[r + 1]):
            v = to_ints(A.data[jj], scale)
            if v is None:
                ok = False
                v = 0
            out.append([r + 1, int(A.indices[jj]) + 1, int(v)])
    return out, ok


def coo_trip(coo, scale):
    out = []
    ok = True
    vals = to_ints(np.asarray(coo.data), scale)
    if vals is None:
        return [], False
    rows, cols = coo.indices[0], coo.indices[1]
    for r, c, v in zip(rows, cols, vals):
        out.append([int(r) + 1, int(c) + 1, int(v)])
    return out, ok


def frac_pairing(A, v, u):
    """v^T A u and |v|^T |A| |u| in exact rational arithmetic from the returned float entries"""
    A = A.tocoo()
    s = Fraction(0)
    m = Fraction(0)
    for r, c, a in zip(A.row, A.col, A.data):
        f = Fraction(float(a)) * int(v[r]) * int(u[c])
        s += f
        m += abs(f)
    return s, m


def frac_dot(b, v):
    s = Fraction(0)
    m = Fraction(0)
    for x, y in zip(b, v):
        f = Fraction(float(x)) * int(y)
        s += f
        m += abs(f)
    return s, m


# ------------------------------------------------------------------------------------------ law tier: group scale
# The tolerance of a law is relative to the magnitude of the sums that were formed.  Individual components of a
# mapped basis function can be pure round-off (e.g. the y-component of a Piola-mapped function attached to a
# horizontal facet), so the magnitude is built from leaf magnitudes taken over ALL components of the leaf's field
# attribute.  This is pi choosing the unit of a comparison group (DESIGN 2.4): it contains no expected value.

def _absmax(a):
    a = np.abs(np.asarray(a, dtype=np.float64))
    return a.reshape((-1,) + a.shape[-2:]).max(axis=0) if a.ndim > 2 else a


def leaf_magnitudes(basis, coef, attrs):
    """(f, attr) -> (nel, nq) array  sum_i |coef_i| max_components |phi_i.attr|"""
    out = {}
    ed = np.asarray(basis.element_dofs)
    coef = np.abs(np.asarray(coef, dtype=np.float64))
    for i in range(basis.Nbfun):
        w = coef[ed[i]][:, None]
        for f, fld in enumerate(basis.basis[i]):
            for attr in attrs:
                a = _get(fld, attr)
                if a is None:
                    continue
                out[(f, attr)] = out.get((f, attr), 0.0) + w * _absmax(a)
    return out


def field_magnitudes(fields, attrs):
    if not isinstance(fields, (tuple, list)):
        fields = (fields,)
    out = {}
    for f, fld in enumerate(fields):
        for attr in attrs:
            a = _get(fld, attr)
            if a is not None:
                out[(f, attr)] = _absmax(a)
    return out


def ev_abs(t, Um, Vm, Fm, prm, accs):
    """the term with every leaf replaced by its magnitude and every sum by the sum of magnitudes"""
    op = t[0]
    if op == 'u':
        return Um[accs['u'][t[1] - 1][:2]]
    if op == 'v':
        return Vm[accs['v'][t[1] - 1][:2]]
    if op == 'f':
        return Fm[t[1]][accs['f'][t[1]][t[2] - 1][:2]]
    if op == 'p':
        return abs(float(prm[t[1]]))
    if op == 'k':
        return abs(float(t[1]))
    a, b = ev_abs(t[1], Um, Vm, Fm, prm, accs), ev_abs(t[2], Um, Vm, Fm, prm, accs)
    return a * b if op == '*' else a + b


def term_magnitude(t, Um, Vm, Fm, prm, accs, dx):
    return Fraction(float(np.sum(ev_abs(t, Um, Vm, Fm, prm, accs) * np.abs(np.asarray(dx)))))      # weights can be negative
