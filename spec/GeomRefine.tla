----------------------------- MODULE GeomRefine -----------------------------
(* Exact integer geometry for the refinement properties (C12, C13): signed     *)
(* measures, closed point-in-cell tests, cell-in-cell, facet-in-facet,          *)
(* conformity.  Points are integer tuples (coordinates scaled by a power of     *)
(* two so that every midpoint created by the refinements of a scenario is       *)
(* integral).  All products stay below 2^31 for |coordinates| <= 256.           *)
EXTENDS MC_Universe

Sub(a, b)  == [i \in DOMAIN a |-> a[i] - b[i]]
Cross2(u, v) == u[1] * v[2] - u[2] * v[1]
Orient2(a, b, c) == Cross2(Sub(b, a), Sub(c, a))                         \* 2 x signed area
Det3(u, v, w) == u[1] * (v[2] * w[3] - v[3] * w[2])
               - u[2] * (v[1] * w[3] - v[3] * w[1])
               + u[3] * (v[1] * w[2] - v[2] * w[1])
Orient3(a, b, c, d) == Det3(Sub(b, a), Sub(c, a), Sub(d, a))             \* 6 x signed volume

DimOf(kind) == CASE kind = "line" -> 1 [] kind \in {"tri", "quad"} -> 2 [] OTHER -> 3
SameSignOrZero(S) == (\A x \in S : x >= 0) \/ (\A x \in S : x <= 0)

\* ---- closed point-in-cell tests; c is the tuple of the cell's corner points ----
InSeg(x, c)  == (c[1][1] <= x[1] /\ x[1] <= c[2][1]) \/ (c[2][1] <= x[1] /\ x[1] <= c[1][1])
InTri(x, c)  == SameSignOrZero({Orient2(c[1], c[2], x), Orient2(c[2], c[3], x), Orient2(c[3], c[1], x)})
\* convex quadrilateral with corners in cyclic order
InQuad(x, c) == SameSignOrZero({Orient2(c[1], c[2], x), Orient2(c[2], c[3], x),
                                Orient2(c[3], c[4], x), Orient2(c[4], c[1], x)})
InTet(x, c)  == SameSignOrZero({Orient3(c[1], c[2], c[3], x), Orient3(c[1], c[3], c[4], x),
                                Orient3(c[1], c[4], c[2], x), Orient3(c[2], c[4], c[3], x)})
\* convex polyhedron with planar faces given as tuples of >= 3 corner indices: x is on the inner side of every face
\* (inner side = the side where the cell's other corners are)
InPoly(x, c, faces) ==
  \A f \in DOMAIN faces :
    LET a == c[faces[f][1]] b == c[faces[f][2]] d == c[faces[f][3]]
        others == {Orient3(a, b, d, c[v]) : v \in DOMAIN c}
        sx == Orient3(a, b, d, x)
    IN (sx = 0) \/ (\E o \in others : o # 0 /\ (o > 0) = (sx > 0))

HexFaces   == CodeLF("hex")
WedgeFaces == <<<<1,2,5,4>>, <<2,3,6,5>>, <<1,3,6,4>>, <<1,2,3>>, <<4,5,6>>>>

InCell(kind, x, c) ==
  CASE kind = "line"  -> InSeg(x, c)
    [] kind = "tri"   -> InTri(x, c)
    [] kind = "quad"  -> InQuad(x, c)
    [] kind = "tet"   -> InTet(x, c)
    [] kind = "hex"   -> InPoly(x, c, HexFaces)
    [] kind = "wedge" -> InPoly(x, c, WedgeFaces)

\* ---- measures (times d!), absolute ----
TriArea2(c)  == Abs(Orient2(c[1], c[2], c[3]))
QuadArea2(c) == Abs(Orient2(c[1], c[2], c[3]) + Orient2(c[1], c[3], c[4]))      \* shoelace, cyclic corners
TetVol6(c)   == Abs(Orient3(c[1], c[2], c[3], c[4]))
\* hexahedron with planar faces in the code's corner order (refdom.py): six tetrahedra around the diagonal 1-8
HexTets == <<<<1,2,5,8>>, <<1,5,3,8>>, <<1,3,7,8>>, <<1,7,4,8>>, <<1,4,6,8>>, <<1,6,2,8>>>>
HexVol6(c)   == SumOver([q \in DOMAIN HexTets |->
                   Abs(Orient3(c[HexTets[q][1]], c[HexTets[q][2]], c[HexTets[q][3]], c[HexTets[q][4]]))], DOMAIN HexTets)
WedgeTets == <<<<1,2,3,4>>, <<2,3,4,5>>, <<3,4,5,6>>>>
WedgeVol6(c) == SumOver([q \in DOMAIN WedgeTets |->
                   Abs(Orient3(c[WedgeTets[q][1]], c[WedgeTets[q][2]], c[WedgeTets[q][3]], c[WedgeTets[q][4]]))], DOMAIN WedgeTets)
Measure(kind, c) ==
  CASE kind = "line"  -> Abs(c[2][1] - c[1][1])
    [] kind = "tri"   -> TriArea2(c)
    [] kind = "quad"  -> QuadArea2(c)
    [] kind = "tet"   -> TetVol6(c)
    [] kind = "hex"   -> HexVol6(c)
    [] kind = "wedge" -> WedgeVol6(c)

\* ---- non-degeneracy of a cell (twisted local orders included) ----
QuadCorners(c) == {Orient2(c[1], c[2], c[3]), Orient2(c[2], c[3], c[4]), Orient2(c[3], c[4], c[1]), Orient2(c[4], c[1], c[2])}
\* corner triple products of the tri-linear map: at every corner the three edge vectors are independent, one sign
HexCornerNbrs == <<<<2,3,4>>, <<1,6,5>>, <<1,5,7>>, <<1,7,6>>, <<2,8,3>>, <<2,4,8>>, <<3,8,4>>, <<5,6,7>>>>
HexCorners(c) == {Orient3(c[v], c[HexCornerNbrs[v][1]], c[HexCornerNbrs[v][2]], c[HexCornerNbrs[v][3]]) : v \in 1..8}
HexFacesPlanar(c) == \A f \in DOMAIN HexFaces :
   Orient3(c[HexFaces[f][1]], c[HexFaces[f][2]], c[HexFaces[f][3]], c[HexFaces[f][4]]) = 0
NonDegenerate(kind, c) ==
  CASE kind = "line"  -> c[1] # c[2]
    [] kind = "tri"   -> Orient2(c[1], c[2], c[3]) # 0
    [] kind = "quad"  -> (\A x \in QuadCorners(c) : x > 0) \/ (\A x \in QuadCorners(c) : x < 0)
    [] kind = "tet"   -> Orient3(c[1], c[2], c[3], c[4]) # 0
    [] kind = "hex"   -> ((\A x \in HexCorners(c) : x > 0) \/ (\A x \in HexCorners(c) : x < 0)) /\ HexFacesPlanar(c)
    [] kind = "wedge" -> WedgeVol6(c) # 0

\* ---- meshes: m = [kind, p, t (, sub, bnd)] ----
Corners(m, k) == [i \in DOMAIN m.t[k] |-> m.p[m.t[k][i]]]
CellInCell(post, j, pre, k) ==                          \* every corner of the child lies in the closed (convex) parent
  LET pc == Corners(pre, k) IN \A i \in DOMAIN post.t[j] : InCell(pre.kind, post.p[post.t[j][i]], pc)
TotalMeasure(m) == SumOver([k \in DOMAIN m.t |-> Measure(m.kind, Corners(m, k))], DOMAIN m.t)

\* facets as vertex sets, with the cells containing them
LKey(cell, loc) == {cell[loc[i]] : i \in DOMAIN loc}
FacetKeysOf(m, k) == {LKey(m.t[k], CodeLF(m.kind)[s]) : s \in DOMAIN CodeLF(m.kind)}
AllFacetKeys(m)   == UNION {FacetKeysOf(m, k) : k \in DOMAIN m.t}
CellsWithFacet(m, key) == {k \in DOMAIN m.t : key \in FacetKeysOf(m, k)}
BoundaryFacetKeys(m) == {key \in AllFacetKeys(m) : Cardinality(CellsWithFacet(m, key)) = 1}
GeoKey(m, key) == {m.p[v] : v \in key}

\* closed point-on-facet tests (facet given as a SET of points; 1, 2, 3 or 4 points)
Collinear2(a, b, x) == Orient2(a, b, x) = 0
Between(a, b, x)    == \A i \in DOMAIN a : (a[i] <= x[i] /\ x[i] <= b[i]) \/ (b[i] <= x[i] /\ x[i] <= a[i])
Cross3(u, v) == <<u[2] * v[3] - u[3] * v[2], u[3] * v[1] - u[1] * v[3], u[1] * v[2] - u[2] * v[1]>>
Dot3(u, v)   == u[1] * v[1] + u[2] * v[2] + u[3] * v[3]
\* x in closed planar convex polygon with corner set P in 3-D: coplanar and never strictly outside an edge
OnPolygon3(x, P) ==
  LET a == CHOOSE q \in P : TRUE
      b == CHOOSE q \in P \ {a} : TRUE
      c == CHOOSE q \in P \ {a, b} : Cross3(Sub(b, a), Sub(q, a)) # <<0, 0, 0>>
      n == Cross3(Sub(b, a), Sub(c, a))
  IN /\ Dot3(n, Sub(x, a)) = 0
     \* x is a convex combination: for every edge direction of the hull, x is not separated from the polygon.
     \* separating-line test in the plane: for all pairs (q, r) of corners, if all corners are on one closed side
     \* of line qr (i.e. qr is a hull edge or chord on the boundary) then x is on that side as well
     /\ \A q, r \in P : q # r =>
          LET side(y) == Dot3(n, Cross3(Sub(r, q), Sub(y, q))) IN
          ((\A y \in P : side(y) >= 0) => side(x) >= 0) /\ ((\A y \in P : side(y) <= 0) => side(x) <= 0)
OnFacet(dim, x, P) ==
  CASE dim = 1 -> x \in P
    [] dim = 2 -> LET a == CHOOSE q \in P : TRUE  b == CHOOSE q \in P \ {a} : TRUE
                  IN Collinear2(a, b, x) /\ Between(a, b, x)
    [] dim = 3 -> OnPolygon3(x, P)
FacetInFacet(dim, G, F) == \A x \in G : OnFacet(dim, x, F)        \* facet G (point set) lies in the closed facet F

\* ---- validity / conformity of a mesh ----
ValidMesh(m) ==
  /\ \A k \in DOMAIN m.t : \A i \in DOMAIN m.t[k] : m.t[k][i] \in DOMAIN m.p
  /\ IsInjectiveSeq(m.p)                                               \* no duplicate vertices
  /\ UNION {VSet(m.t[k]) : k \in DOMAIN m.t} = DOMAIN m.p              \* every vertex used
NoDegenerateCells(m) == \A k \in DOMAIN m.t : NonDegenerate(m.kind, Corners(m, k))
\* conforming: every facet in at most two cells, and no vertex lies on a facet of a cell without being one of that
\* facet's vertices (hanging node)
NoHangingNodes(m) ==
  LET d == DimOf(m.kind) IN
  \A key \in AllFacetKeys(m) : \A v \in DOMAIN m.p :
      v \notin key => ~OnFacet(d, m.p[v], GeoKey(m, key))
FacetsInAtMostTwo(m) == \A key \in AllFacetKeys(m) : Cardinality(CellsWithFacet(m, key)) <= 2
Conforming(m) == FacetsInAtMostTwo(m) /\ NoHangingNodes(m)
==============================================================================
