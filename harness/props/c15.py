"""C15 - no hidden state: history-independent results, operands never mutated.

M : spec/Cache.tla - memoisation automata of the stateful objects with the code's hit conditions; TLC checks NoStale for
    all histories up to length 5 (MC_C15.cfg); the hit conditions before the repairs are refuted (MC_C15_old.cfg).
R : spec/MC_C15_hist.tla enumerates ALL histories up to length 2 (quick) / 3 (thorough) over the operation alphabet of
    each group of harness/session.py (elements, mappings, mesh tables and transformations, bases, solvers, boundary
    conditions); every history is executed on a long-lived object pool; random longer and cross-group histories are added.
V : spec/TraceC15.tla: every pooled result digest must equal the digest of the same operation on freshly constructed
    equal objects computed in a FRESH INTERPRETER, and the operand arrays must be bit-for-bit unchanged.
"""
import json
import multiprocessing as mp
import os

import numpy as np

from .. import session as S
from ..core import MachineryError

RULE = ('scenario = one history (sequence of operation instances over a shared object pool); one event per operation '
        'with pooled digest, fresh-interpreter digest and operand checksums. Non-trivial = history of length >= 2; '
        'distinct = distinct operation sequences.')


def _pooled(job):
    sid, hist = job
    pool = {}
    events = []
    for (g, k) in hist:
        h, err, before, after = S.run_op(g, k, pool)
        events.append({'a': S.op_label(g, k), 'group': g, 'k': k + 1, 'h_pool': h, 'e_pool': err,
                       'before': before, 'after': after, 'tags': {'op': S.op_label(g, k)}})
    return sid, events


def references(ctx):
    jobs = [(g, k) for g, n in S.group_sizes().items() for k in range(n)]
    ctxm = mp.get_context('spawn')
    with ctxm.Pool(processes=min(16, len(jobs)), maxtasksperchild=1) as pool:
        res = pool.map(S.reference_worker, jobs, chunksize=1)
    ref = {}
    raised = []
    for g, k, h, err in res:
        ref[(g, k)] = (h, err)
        if err:
            # an operation that raises on freshly built objects is not a machinery failure: the pooled execution must
            # then raise the same way (PureResult compares digests AND exception classes); whether raising is right is
            # the business of the property that owns the operation
            raised.append(f'{S.op_label(g, k)}: {err}')
    ctx.notes['reference_operations_that_raise'] = raised
    if len(raised) > len(res) // 2:
        raise MachineryError(f'most reference operations raise in a fresh interpreter, e.g. {raised[:3]}')
    return ref


def histories(ctx):
    hs = []
    L = 3 if ctx.tier == 'thorough' else 2
    for g, n in S.group_sizes().items():
        out = os.path.join(ctx.scratch, f'c15_hist_{g}.json')
        ctx.tlc_model('MC_C15_hist', 'MC_C15_hist.cfg', workers=1, timeout=600, label=f'histories of group {g}',
                      env={'OUT_FILE': out, 'C15_NOPS': str(n), 'C15_LEN': str(L)})
        for seq in json.load(open(out)):
            hs.append(([(g, int(k) - 1) for k in seq], 'TLC-histories'))
    n_tlc = len(hs)
    # random tier: longer histories within a group and cross-group histories
    rng = np.random.default_rng(ctx.seed + 15)
    groups = list(S.group_sizes().items())
    for j in range(3000 if ctx.tier == 'thorough' else 600):
        ln = int(rng.integers(3, 9))
        if j % 2 == 0:
            g, n = groups[int(rng.integers(len(groups)))]
            hs.append(([(g, int(rng.integers(n))) for _ in range(ln)], 'random-group'))
        else:
            seq = []
            for _ in range(ln):
                g, n = groups[int(rng.integers(len(groups)))]
                seq.append((g, int(rng.integers(n))))
            hs.append((seq, 'random-cross'))
    return hs, n_tlc


# driver module -> number of sampled recipes (quick); the other properties' drivers exercise most of the library
STREAMS = {'c05': 60, 'c11': 80, 'c12': 40, 'c13': 60, 'c02': 60, 'c03': 40, 'c06': 60, 'c10': 40, 'c17': 40, 'c18': 60}


def _stream_worker(job):
    """Runs in a fresh interpreter: executes the recipes of another property's driver in the given order and returns
    one digest per recipe (of the complete recorded event list)."""
    import hashlib
    import importlib
    import logging
    import warnings
    warnings.simplefilter('ignore')
    logging.getLogger('skfem').setLevel(logging.ERROR)
    modname, recipes, order = job
    mod = importlib.import_module(f'harness.props.{modname}')
    out = {}
    for j in order:
        try:
            evs = mod.execute(recipes[j])
        except Exception as exc:          # harness-level problem: reported as such by the caller
            evs = [{'harness_error': type(exc).__name__}]
        out[j] = hashlib.sha1(json.dumps(evs, sort_keys=True, default=str).encode()).hexdigest()[:20]
    return modname, out


def driver_streams(ctx):
    """Pool mode of the other drivers: the scenario streams of other properties' drivers (which exercise most of the
    library) are executed twice in fresh interpreters, in generation order and in a shuffled order; any module- or
    class-level state that leaks from one scenario into another makes the two digests of a scenario differ."""
    import importlib
    rng = np.random.default_rng(ctx.seed + 151)
    jobs = []
    streams = {}
    for modname, n in STREAMS.items():
        mod = importlib.import_module(f'harness.props.{modname}')
        recs = mod.generate('quick', ctx.seed)
        k = n * (4 if ctx.tier == 'thorough' else 1)
        if len(recs) > k:
            recs = [recs[int(j)] for j in sorted(rng.choice(len(recs), size=k, replace=False))]
        streams[modname] = recs
        order1 = list(range(len(recs)))
        order2 = [int(j) for j in rng.permutation(len(recs))]
        jobs.append((modname, recs, order1))
        jobs.append((modname, recs, order2))
    with mp.get_context('spawn').Pool(processes=min(8, len(jobs)), maxtasksperchild=1) as pool:
        res = pool.map(_stream_worker, jobs, chunksize=1)
    scs = []
    for a in range(0, len(res), 2):
        modname, d1 = res[a]
        _, d2 = res[a + 1]
        for j, rec in enumerate(streams[modname]):
            ev = {'a': f'{modname}.execute', 'group': 'drivers', 'k': j + 1, 'h_pool': d2[j], 'e_pool': '',
                  'h_fresh': d1[j], 'e_fresh': '', 'before': [], 'after': [], 'tags': {'op': f'{modname}.execute'}}
            scs.append({'id': f'C15-stream-{modname}-{j}', 'recipe': {'driver': 'stream', 'module': modname, 'recipe': rec},
                        'tags': {'family': 'driver-streams', 'groups': modname}, 'events': [ev]})
    return scs


def run(ctx):
    ctx.model_must_hold('Cache', 'MC_C15.cfg', timeout=900)
    old = ctx.tlc_model('Cache', 'MC_C15_old.cfg', timeout=900, label='regression model: hit conditions before the repairs')
    ctx.notes['old_hit_conditions_refuted_by_tlc'] = bool(old['violated'])
    if not old['violated']:
        raise MachineryError('the cache model does not refute the pre-repair hit conditions')
    ref = references(ctx)
    hs, n_tlc = histories(ctx)
    jobs = [(f'C15-{j}', h) for j, (h, fam) in enumerate(hs)]
    with mp.get_context('fork').Pool(processes=16) as pool:
        done = dict(pool.map(_pooled, jobs, chunksize=max(1, len(jobs) // 64)))
    scs = []
    for j, (h, fam) in enumerate(hs):
        sid = f'C15-{j}'
        evs = done[sid]
        for ev in evs:
            hf, ef = ref[(ev['group'], ev['k'] - 1)]
            ev['h_fresh'], ev['e_fresh'] = hf, ef
        scs.append({'id': sid, 'recipe': {'driver': 'session', 'history': [[g, k] for g, k in h]},
                    'tags': {'family': fam, 'groups': '+'.join(sorted({g for g, _ in h}))}, 'events': evs})
    stream_scs = driver_streams(ctx)
    ctx.notes['driver_stream_scenarios'] = len(stream_scs)
    scs += stream_scs
    ctx.validate('TraceC15', scs)
    ctx.notes['distinct_nontrivial'] = len({json.dumps(s['recipe'], default=str) for s in scs if len(s['events']) >= 2})
    ctx.notes['histories_from_tlc'] = n_tlc
    ctx.notes['operation_instances'] = {g: [S.op_label(g, k) for k in range(n)] for g, n in S.group_sizes().items()}
    return ctx.finish(rule=RULE, assumptions=[
        'single-threaded BLAS (OMP_NUM_THREADS=1): results of one operation on equal inputs are bit-identical',
        'reference digests come from a fresh interpreter per operation instance (multiprocessing spawn)',
        'the operation alphabet is the one listed in coverage.operation_instances; memoisation in code it does not '
        'reach is not observed'], exhaustive=False)


def replay(ctx, doc):
    sc = doc['scenario']
    if sc['recipe'].get('driver') == 'stream':
        # a single scenario cannot show cross-scenario leakage: re-run the whole stream comparison
        scs = [s for s in driver_streams(ctx) if s['recipe']['module'] == sc['recipe']['module']]
        ctx.validate('TraceC15', scs)
        return ctx.finish(rule=RULE)
    ref = references(ctx)
    h = [(g, k) for g, k in sc['recipe']['history']]
    sid, evs = _pooled((sc['id'], h))
    for ev in evs:
        ev['h_fresh'], ev['e_fresh'] = ref[(ev['group'], ev['k'] - 1)]
    ctx.validate('TraceC15', [{'id': sid, 'recipe': sc['recipe'], 'tags': sc.get('tags', {}), 'events': evs}])
    return ctx.finish(rule=RULE)
