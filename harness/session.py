"""Session interpreter for C15: objects are recipes, operations are instances over a shared pool.

* A pool object is described by the constructor expression that built it (OBJECTS[name] -> factory).  "The same
  operation on freshly constructed equal objects" = re-evaluate the recipes of the operands, then apply the operation.
* An operation instance (OPS[group][k]) names its operand recipes and returns a result which is reduced to a canonical
  byte string and hashed (sha1).  Operand arrays are check-summed before and after.
* The reference result of every operation instance is computed in a FRESH INTERPRETER (one process per instance).
"""
import hashlib
import os
import sys
import warnings

import numpy as np


# ------------------------------------------------------------------------------------------ canonical form / hashing
def _canon(x, out):
    import scipy.sparse as sp
    if x is None:
        out.append(b'N')
    elif isinstance(x, (bool, np.bool_)):
        out.append(b'b1' if x else b'b0')
    elif isinstance(x, (int, np.integer)):
        out.append(b'i' + str(int(x)).encode())
    elif isinstance(x, (float, np.floating)):
        out.append(b'f' + np.float64(x).tobytes())
    elif isinstance(x, (complex, np.complexfloating)):
        out.append(b'c' + np.complex128(x).tobytes())
    elif isinstance(x, str):
        out.append(b's' + x.encode())
    elif isinstance(x, np.ndarray):
        a = np.ascontiguousarray(x)
        if a.dtype.kind in 'iu':
            a = a.astype(np.int64)
        elif a.dtype.kind == 'f':
            a = a.astype(np.float64)
        out.append(b'A' + str(a.shape).encode() + a.dtype.str.encode() + a.tobytes())
        ori = getattr(x, 'ori', None)
        if isinstance(ori, np.ndarray):
            out.append(b'ori' + np.ascontiguousarray(ori.astype(np.int64)).tobytes())
    elif sp.issparse(x):
        c = x.tocoo()
        order = np.lexsort((c.col, c.row))
        out.append(b'S' + str(c.shape).encode())
        _canon(c.row[order].astype(np.int64), out)
        _canon(c.col[order].astype(np.int64), out)
        _canon(np.asarray(c.data[order]), out)
    elif isinstance(x, dict):
        out.append(b'D')
        for k in sorted(x, key=str):
            _canon(str(k), out)
            _canon(x[k], out)
    elif isinstance(x, (list, tuple)):
        out.append(b'L' + str(len(x)).encode())
        for v in x:
            _canon(v, out)
    elif hasattr(x, 'doflocs') and hasattr(x, 't'):            # a mesh
        out.append(b'M' + type(x).__name__.encode())
        _canon(x.doflocs, out)
        _canon(x.t, out)
        _canon(x.boundaries if x.boundaries is not None else None, out)
        _canon(x.subdomains if x.subdomains is not None else None, out)
    elif hasattr(x, 'astuple'):                                 # DiscreteField
        out.append(b'F')
        for v in x.astuple:
            _canon(v, out)
    elif hasattr(x, 'flatten') and hasattr(x, 'nodal_ix'):      # DofsView
        _canon(np.asarray(x.flatten()), out)
    else:
        raise TypeError(f'cannot canonicalise {type(x).__name__}')


def digest(x):
    out = []
    _canon(x, out)
    h = hashlib.sha1()
    for b in out:
        h.update(b)
    return h.hexdigest()[:20]


def operand_arrays(obj, depth=0):
    """The arrays that constitute the VALUE of an operand (for the bit-for-bit unchanged check)."""
    import scipy.sparse as sp
    if isinstance(obj, np.ndarray):
        return [obj]
    if sp.issparse(obj):
        if hasattr(obj, 'indptr'):
            return [obj.data, obj.indices, obj.indptr]
        return [obj.data]
    if hasattr(obj, 'doflocs') and hasattr(obj, 't'):
        arrs = [obj.doflocs, obj.t]
        for tags in (obj._boundaries, obj._subdomains):
            if tags:
                for k in sorted(tags):
                    arrs.append(np.asarray(tags[k]))
                    if getattr(tags[k], 'ori', None) is not None:
                        arrs.append(np.asarray(tags[k].ori))
        return arrs
    if hasattr(obj, 'mesh') and hasattr(obj, 'elem') and depth == 0:       # a basis
        arrs = operand_arrays(obj.mesh, 1)
        if hasattr(obj, 'dx'):
            arrs.append(obj.dx)
        if hasattr(obj, 'X'):
            arrs.append(obj.X)
        return arrs
    if hasattr(obj, 'mesh') and depth == 0:                                # a mapping
        return operand_arrays(obj.mesh, 1)
    if isinstance(obj, (list, tuple)):
        out = []
        for v in obj:
            out += operand_arrays(v, depth)
        return out
    return []


def checksum(obj):
    h = hashlib.sha1()
    for a in operand_arrays(obj):
        a = np.ascontiguousarray(a)
        h.update(str(a.shape).encode() + a.dtype.str.encode() + a.tobytes())
    return h.hexdigest()[:16]


# ------------------------------------------------------------------------------------------ object recipes
def _objects():
    import skfem as fem
    from skfem.models.poisson import laplace, mass
    X1 = np.array([[0.25, 0.5], [0.25, 0.125]])
    X2 = np.array([[0.5, 0.125], [0.375, 0.25]])
    X3 = np.array([[0.25, 0.5, 0.125], [0.25, 0.125, 0.5]])

    def system(mesh, shift=0.0):
        b = fem.Basis(mesh, fem.ElementTriP1())
        A = (laplace.assemble(b) + (1.0 + shift) * mass.assemble(b)).tocsr()
        return A

    O = {
        # meshes
        'tri_a': lambda: fem.MeshTri().refined(1),
        'tri_b': lambda: fem.MeshTri.init_sqsymmetric(),
        'tri_c': lambda: fem.MeshTri().refined(2),
        'tri_t': lambda: fem.MeshTri().refined(1).with_boundaries({'left': lambda x: x[0] == 0})
                           .with_subdomains({'low': lambda x: x[1] < 0.5}),
        'line_a': lambda: fem.MeshLine(np.linspace(0, 1, 4)),
        'line_b': lambda: fem.MeshLine(np.array([0., 0.25, 1.])),
        'quad_a': lambda: fem.MeshQuad().refined(1),
        'quad_b': lambda: fem.MeshQuad.init_tensor(np.array([0., 0.375, 1.]), np.array([0., 0.75, 1.])),
        'tet_a': lambda: fem.MeshTet().refined(1),
        # strongly stretched cells: the containing cell is often not among the nearest centroids (finder fallback)
        'tri_s': lambda: fem.MeshTri.init_tensor(np.linspace(0, 1, 3), np.linspace(0, 1, 41)),
        'tet_s': lambda: fem.MeshTet.init_tensor(np.linspace(0, 1, 9), np.linspace(0, 8, 2), np.linspace(0, 8, 2)),
        'tri2_a': lambda: fem.MeshTri2.init_circle(1),
        # elements
        'morley': lambda: fem.ElementTriMorley(),
        'argyris': lambda: fem.ElementTriArgyris(),
        'p1': lambda: fem.ElementTriP1(),
        'p2': lambda: fem.ElementTriP2(),
        'linepp3': lambda: fem.ElementLinePp(3),
        'linepp4': lambda: fem.ElementLinePp(4),
        'quadp3': lambda: fem.ElementQuadP(3),
        'quad2': lambda: fem.ElementQuad2(),
        'q1': lambda: fem.ElementQuad1(), 'lp1': lambda: fem.ElementLineP1(), 'tp1': lambda: fem.ElementTetP1(),
        'h1': lambda: fem.ElementHex1(),
        'hex_a': lambda: fem.MeshHex().refined(1),
        # solver factories
        'krylov': lambda: fem.solver_iter_krylov(rtol=1e-12) if _has_rtol() else fem.solver_iter_krylov(tol=1e-12),
        'direct': lambda: fem.solver_direct_scipy(),
        'cg': lambda: fem.solver_iter_cg(),
        # linear systems
        'A1': lambda: system(fem.MeshTri().refined(1)),
        'A2': lambda: system(fem.MeshTri().refined(2)),
        'A3': lambda: system(fem.MeshTri().refined(1), 0.5),
        # point sets
        'X1': lambda: X1.copy(), 'X2': lambda: X2.copy(), 'X3': lambda: X3.copy(),
        'X1cell': lambda: np.tile(X1[:, None, :], (1, 4, 1)),
        'P1': lambda: np.array([[0.125, 0.75]]), 'P2': lambda: np.array([[0.625, 0.25]]),
        'P3': lambda: np.array([[0.125, 0.75, 0.5]]),
        'S1': lambda: np.array([[0.125]]), 'S2': lambda: np.array([[0.625]]),
        'Q1': lambda: np.array([[0.25, 0.75], [0.25, 0.5]]), 'Q2': lambda: np.array([[0.625, 0.125], [0.75, 0.875]]),
    }
    # derived objects (recipes over recipes)
    O['map_q'] = lambda: fem.MeshQuad().refined(1).mapping()
    O['map_t'] = lambda: fem.MeshTri().refined(1).mapping()
    O['map_c'] = lambda: fem.MeshTri2.init_circle(1).mapping()
    O['B_p2'] = lambda: fem.Basis(fem.MeshTri().refined(1), fem.ElementTriP2())
    O['FB_p2'] = lambda: fem.FacetBasis(fem.MeshTri().refined(1), fem.ElementTriP2())
    O['B_pp'] = lambda g: fem.Basis(g('line_a'), g('linepp4'))            # shares mesh and element with other recipes
    # same element object, another rule with EQUALLY MANY (5) but different points
    O['B_pp2'] = lambda g: fem.Basis(g('line_a'), g('linepp4'),
                                     quadrature=(np.linspace(0.125, 0.875, 5)[None, :], np.full(5, 0.2)))
    O['B_qp'] = lambda g: fem.Basis(g('quad_a'), g('quadp3'))
    O['B_mor'] = lambda g: fem.Basis(g('tri_a'), g('morley'))
    O['x0'] = lambda: np.linspace(0.0, 1.0, 9)
    # caller-owned arrays handed to constructors (connectivity NOT in ascending local order; several layouts)
    T3 = np.array([[1, 0, 2], [2, 1, 3], [3, 1, 4], [4, 1, 0]]).T          # fan around vertex 1, mixed orientation
    O['P2d'] = lambda: np.array([[0., 1., 1., 0., -1.], [0., 0., 1., 1.5, 0.5]])
    O['T3_i32'] = lambda: np.ascontiguousarray(T3.astype(np.int32))
    O['T3_i64'] = lambda: np.ascontiguousarray(T3.astype(np.int64))
    O['T3_i32F'] = lambda: np.asfortranarray(T3.astype(np.int32))
    O['P2q'] = lambda: np.array([[0., 1., 1., 0., 2., 2.], [0., 0., 1., 1., 0., 1.]])
    O['T4q_i32'] = lambda: np.ascontiguousarray(np.array([[1, 2, 3, 0], [4, 5, 2, 1]], dtype=np.int32).T)
    O['P3t'] = lambda: np.array([[0., 1., 0., 0., 1.], [0., 0., 1., 0., 1.], [0., 0., 0., 1., 1.]])
    O['T4t_i32'] = lambda: np.ascontiguousarray(np.array([[3, 1, 2, 0], [4, 3, 2, 1]], dtype=np.int32).T)
    O['P1d'] = lambda: np.array([[0., 2., 1., 3.]])
    O['T2_i32'] = lambda: np.ascontiguousarray(np.array([[2, 0], [1, 2], [3, 1]], dtype=np.int32).T)
    O['tri_o'] = lambda: fem.MeshTri().refined(1).oriented()                # library-made, int32, not ascending
    O['yvec'] = lambda: np.linspace(-1.0, 2.0, 25)
    O['B_vec'] = lambda: fem.Basis(fem.MeshTri().refined(1), fem.ElementVector(fem.ElementTriP1()))
    O['hermite'] = lambda: fem.ElementLineHermite()
    # a segment mesh with a cell listed right to left, and ONE isoparametric mapping object shared by every basis on it
    O['line_rl'] = lambda: fem.MeshLine(np.array([[0., 1., 0.375, 0.75]]), np.array([[0, 2], [3, 2], [1, 3]]).T)
    O['map_rl'] = lambda g: fem.MappingIsoparametric(g('line_rl'), fem.ElementLineP1())
    O['lp2'] = lambda: fem.ElementLineP2()
    O['form_mass'] = lambda: fem.BilinearForm(lambda u, v, w: u * v)
    O['B_l2'] = lambda: fem.Basis(fem.MeshLine(np.linspace(0, 1, 4)), fem.ElementLineP2())
    O['B_q2'] = lambda: fem.Basis(fem.MeshQuad().refined(1), fem.ElementQuad2())
    return O


def _has_rtol():
    import inspect
    import scipy.sparse.linalg as spl
    return 'rtol' in inspect.signature(spl.cg).parameters


# ------------------------------------------------------------------------------------------ operation instances
# each: (name, [operand recipe names], callable(*operands) -> result)
def _ops():
    import skfem as fem
    from skfem.models.poisson import laplace, mass, unit_load
    from skfem import utils as su

    def mass_on(m, e):
        return mass.assemble(fem.Basis(m, e))

    def interp_at(m, e, x):
        b = fem.Basis(m, e)
        y = b.project(lambda x: x[0] ** 3 + 1.0)
        return b.interpolator(y)(x)

    def interp_two(m, e, xa, xb):
        b = fem.Basis(m, e)
        f = b.interpolator(b.project(lambda x: x[0] ** 3 + 1.0))
        return [f(xa), f(xb)]

    def probes_at(m, e, x):
        b = fem.Basis(m, e)
        y = b.project(lambda x: x[0] ** 2 + x[1])
        return b.probes(x) @ y

    tind32 = np.array([1, 0], dtype=np.int32)
    tind64 = np.array([1], dtype=np.int64)
    G = {}
    G['elem'] = [
        ('mass', ['tri_a', 'morley'], mass_on),
        ('mass', ['tri_b', 'morley'], mass_on),
        ('mass', ['tri_c', 'morley'], mass_on),
        ('mass', ['tri_a', 'argyris'], mass_on),
        ('mass', ['tri_b', 'argyris'], mass_on),
        ('interp', ['line_a', 'linepp3', 'P1'], interp_at),
        ('interp', ['line_a', 'linepp3', 'P2'], interp_at),
        ('interp', ['line_a', 'linepp3', 'P3'], interp_at),
        ('mass', ['line_b', 'linepp3'], mass_on),
        ('mass', ['quad_a', 'quadp3'], mass_on),
        ('mass', ['quad_b', 'quadp3'], mass_on),
        ('probes', ['quad_a', 'quadp3', 'Q1'], probes_at),
        ('probes', ['quad_a', 'quadp3', 'Q2'], probes_at),
        ('evalpp', ['B_pp', 'P1'], lambda b, x: b.interpolator(np.arange(b.N, dtype=float) ** 2 / 16.)(x)),
        ('evalpp', ['B_pp', 'P2'], lambda b, x: b.interpolator(np.arange(b.N, dtype=float) ** 2 / 16.)(x)),
        ('evalpp', ['B_pp', 'P3'], lambda b, x: b.interpolator(np.arange(b.N, dtype=float) ** 2 / 16.)(x)),
        ('evalpp', ['B_pp', 'S1'], lambda b, x: b.interpolator(np.arange(b.N, dtype=float) ** 2 / 16.)(x)),
        ('evalpp', ['B_pp', 'S2'], lambda b, x: b.interpolator(np.arange(b.N, dtype=float) ** 2 / 16.)(x)),
        ('massB', ['B_pp'], lambda b: mass.assemble(b)),
        ('loadB', ['B_pp'], lambda b: unit_load.assemble(b)),
        ('refinterp', ['B_pp'], lambda b: list(b.refinterp(np.arange(b.N, dtype=float) / 4., nrefs=2))[1]),
        ('massB', ['B_pp2'], lambda b: mass.assemble(b)),
        ('massB', ['B_qp'], lambda b: mass.assemble(b)),
        ('massB', ['B_mor'], lambda b: mass.assemble(b)),
        ('evalqp', ['B_qp', 'Q1'], lambda b, x: b.probes(x) @ (np.arange(b.N, dtype=float) / 8.)),
        ('evalqp', ['B_qp', 'Q2'], lambda b, x: b.probes(x) @ (np.arange(b.N, dtype=float) / 8.)),
    ]
    G['map'] = [
        ('detDF', ['map_q', 'X1'], lambda mp, X: mp.detDF(X)),
        ('detDF', ['map_q', 'X2'], lambda mp, X: mp.detDF(X)),
        ('detDF32', ['map_q', 'X1'], lambda mp, X: mp.detDF(X, tind=tind32)),
        ('detDF64', ['map_q', 'X1'], lambda mp, X: mp.detDF(X, tind=tind64)),
        ('F', ['map_q', 'X1'], lambda mp, X: mp.F(X)),
        ('F', ['map_q', 'X3'], lambda mp, X: mp.F(X)),
        ('DFcell', ['map_q', 'X1cell'], lambda mp, X: mp.DF(X, tind=np.arange(4))),
        ('invF', ['map_q', 'X1'], lambda mp, X: mp.invF(mp.F(X, tind=tind32), tind=tind32)),
        ('invDF', ['map_q', 'X2'], lambda mp, X: mp.invDF(X, tind=tind32)),
        ('detDF', ['map_t', 'X1'], lambda mp, X: mp.detDF(X)),
        ('detDF32', ['map_t', 'X2'], lambda mp, X: mp.detDF(X, tind=tind32)),
        ('invDF', ['map_t', 'X3'], lambda mp, X: mp.invDF(X)),
        ('detDF', ['map_c', 'X1'], lambda mp, X: mp.detDF(X)),
        ('DF64', ['map_c', 'X2'], lambda mp, X: mp.DF(X, tind=tind64)),
    ]
    conv = fem.BilinearForm(lambda u, v, w: u.grad[0] * v)
    G['map'] += [
        ('conv_p1', ['line_rl', 'map_rl', 'lp1'], lambda m, mp, e: conv.assemble(fem.Basis(m, e, mapping=mp, intorder=4))),
        ('conv_p2', ['line_rl', 'map_rl', 'lp2'], lambda m, mp, e: conv.assemble(fem.Basis(m, e, mapping=mp, intorder=4))),
        ('grad_p2', ['line_rl', 'map_rl', 'lp2'],
         lambda m, mp, e: fem.Basis(m, e, mapping=mp, intorder=4).interpolate(np.arange(7, dtype=float) ** 2).grad),
        ('invDF_rl', ['map_rl', 'S1'], lambda mp, X: [mp.invDF(X), mp.detDF(X), mp.DF(X)]),
    ]
    G['mesh'] = [
        ('facets', ['tri_t'], lambda m: [m.facets, m.t2f]),
        ('f2t', ['tri_t'], lambda m: [m.f2t, m.boundary_facets(), m.boundary_nodes()]),
        ('refined', ['tri_t'], lambda m: m.refined()),
        ('adapt', ['tri_t'], lambda m: m.refined(np.array([0, 1]))),
        ('restrict', ['tri_t'], lambda m: m.restrict(np.array([0, 1, 2]))),
        ('translated', ['tri_t'], lambda m: m.translated((1., 2.))),
        ('scaled', ['tri_t'], lambda m: m.scaled((2., 0.5))),
        ('mirrored', ['tri_t'], lambda m: m.mirrored((0.5, 0.), (1., 0.))),
        ('morphed', ['tri_t'], lambda m: m.morphed(lambda p: p[0] + 0.25 * p[1], lambda p: p[1] * 2.0)),
        ('tag', ['tri_t'], lambda m: m.with_boundaries({'top': lambda x: x[1] == 1}).with_subdomains({'r': lambda x: x[0] > .5})),
        ('meshio', ['tri_t'], lambda m: _meshio_data(m)),
        ('finder', ['tri_t', 'Q1'], lambda m, x: m.element_finder()(*x)),
        ('use', ['tri_t'], lambda m: [mass.assemble(fem.Basis(m, fem.ElementTriP1())), m.mapping().detDF(np.array([[.25], [.25]]))]),
        ('translated_mass', ['tri_t'], lambda m: _mesh_numbers(m.translated((1., 2.)))),
        ('scaled_mass', ['tri_t'], lambda m: _mesh_numbers(m.scaled((2., 0.5)))),
        ('mirrored_mass', ['tri_t'], lambda m: _mesh_numbers(m.mirrored((0.5, 0.), (1., 0.)))),
        ('morphed_mass', ['tri_t'], lambda m: _mesh_numbers(m.morphed(lambda p: p[0] + 0.25 * p[1], lambda p: 2. * p[1]))),
        ('refined_mass', ['tri_t'], lambda m: _mesh_numbers(m.refined())),
        ('restrict_mass', ['tri_t'], lambda m: _mesh_numbers(m.restrict(np.array([0, 1, 2, 5])))),
        ('tagged_mass', ['tri_t'], lambda m: _mesh_numbers(m.with_boundaries({'top': lambda x: x[1] == 1}))),
        ('oriented', ['tri_t'], lambda m: [m.oriented().t, m.oriented().p]),
        ('conn_again', ['tri_t'], lambda m: [m.t, m.facets, m.t2f, m.f2t, m.boundary_nodes()]),
        ('retag', ['tri_t'], lambda m: m.with_boundaries({'left': lambda x: x[1] == 0, 'new': lambda x: x[0] == 1})),
        ('resub', ['tri_t'], lambda m: m.with_subdomains({'low': lambda x: x[0] < 0.5, 'hi': lambda x: x[1] > 0.5})),
        ('finder_far', ['tri_s'], lambda m: m.element_finder()(np.array([0.3125, 0.640625, 0.765625, 0.765625]),
                                                                np.array([0.046875, 0.90625, 0.71875, 0.390625]))),
        ('finder_vertices', ['tri_s'], lambda m: m.element_finder()(m.p[0, ::7], m.p[1, ::7])),
        ('finder_edges', ['tri_s'], lambda m: m.element_finder()(m.p[:, m.facets[:, ::9]].mean(axis=1)[0],
                                                                  m.p[:, m.facets[:, ::9]].mean(axis=1)[1])),
        ('probe_p0_s', ['tri_s'], lambda m: fem.Basis(m, fem.ElementTriP0()).probes(
            np.vstack((m.p[0, ::7], m.p[1, ::7]))) @ np.arange(m.t.shape[1], dtype=float)),
        ('tfinder_far', ['tet_s'], lambda m: m.element_finder()(np.array([0.51, 0.02]), np.array([3.5, 7.0]), np.array([4.5, 0.5]))),
        ('tfinder_vertices', ['tet_s'], lambda m: m.element_finder()(m.p[0, ::5], m.p[1, ::5], m.p[2, ::5])),
        ('tetadapt', ['tet_a'], lambda m: m.refined(np.array([0, 3]))),
        ('tetedges', ['tet_a'], lambda m: [m.edges, m.t2e, m.f2e]),
        ('smoothed', ['tri_t'], lambda m: m.smoothed()),
        ('dict', ['tri_t'], lambda m: digest({k: np.asarray(v) for k, v in m.to_dict().items() if isinstance(v, list)})),
    ]
    y1 = lambda b: np.arange(b.N, dtype=float) / 8.0
    y2 = lambda b: np.cos(np.arange(b.N, dtype=float))
    G['basis'] = [
        ('mass', ['B_p2'], lambda b: mass.assemble(b)),
        ('laplace', ['B_p2'], lambda b: laplace.assemble(b)),
        ('interp', ['B_p2'], lambda b: b.interpolate(y1(b))),
        ('interp2', ['B_p2'], lambda b: b.interpolate(y2(b))),
        ('probes', ['B_p2', 'Q1'], lambda b, x: b.probes(x) @ y1(b)),
        ('probes', ['B_p2', 'Q2'], lambda b, x: b.probes(x) @ y1(b)),
        ('project', ['B_p2'], lambda b: b.project(lambda x: x[0] * x[1])),
        ('getdofs', ['B_p2'], lambda b: [b.get_dofs().flatten(), b.get_dofs(lambda x: x[0] == 0).flatten()]),
        ('fmass', ['FB_p2'], lambda fb: mass.assemble(fb)),
        ('withelem', ['B_p2', 'p1'], lambda b, e: mass.assemble(b.with_element(e))),
        ('psource', ['B_l2', 'P1'], lambda b, x: b.point_source(x[0, :1])),
        ('mixed', ['B_p2', 'p1'], lambda b, e: fem.BilinearForm(lambda u, v, w: u * v).assemble(b, b.with_element(e))),
        ('load', ['B_q2'], lambda b: unit_load.assemble(b)),
        ('form_wx_wh', ['B_p2'], lambda b: fem.BilinearForm(lambda u, v, w: w.x[0] * u * v + w.h * u * v).assemble(b)),
        ('fform_wn', ['FB_p2'], lambda fb: fem.LinearForm(lambda v, w: w.n[0] * v * w.x[1] + w.h * v).assemble(fb)),
        ('coo_add', ['B_p2'], lambda b: _coo_add(mass, b)),
        ('coo_own_add', ['form_mass', 'B_p2'], lambda f, b: _coo_add(f, b)),
        ('global_coords', ['B_p2'], lambda b: [b.global_coordinates().value, b.mesh_parameters().value, b.doflocs]),
        ('fglobal_coords', ['FB_p2'], lambda fb: [fb.global_coordinates().value, fb.mesh_parameters().value, fb.normals.value]),
        ('asm_then_scale', ['B_p2'], lambda b: _inplace_scaled(mass.assemble(b))),
        ('asm_own_form', ['form_mass', 'B_p2'], lambda f, b: f.assemble(b)),
        ('asm_own_then_setdiag', ['form_mass', 'B_p2'], lambda f, b: _inplace_diag(f.assemble(b))),
        ('coo_own_form', ['form_mass', 'B_p2'], lambda f, b: f.coo_data(b).tocsr()),
        ('lin_then_scale', ['B_p2'], lambda b: _inplace_scaled(unit_load.assemble(b))),
        ('qmass', ['B_q2'], lambda b: mass.assemble(b)),
        ('qprobes', ['B_q2', 'Q2'], lambda b, x: b.probes(x) @ y2(b)),
    ]
    ones = lambda A: np.ones(A.shape[0])
    ramp = lambda A: np.arange(A.shape[0], dtype=float)
    G['solver'] = [
        ('solve', ['A1', 'krylov'], lambda A, s: su.solve(A, ones(A), solver=s)),
        ('solve', ['A2', 'krylov'], lambda A, s: su.solve(A, ones(A), solver=s)),
        ('solve', ['A3', 'krylov'], lambda A, s: su.solve(A, ones(A), solver=s)),
        ('solve_atol', ['A1', 'krylov'], lambda A, s: su.solve(A, ramp(A), solver=s, atol=1e-3)),
        ('solve', ['A1', 'direct'], lambda A, s: su.solve(A, ones(A), solver=s)),
        ('solve', ['A2', 'direct'], lambda A, s: su.solve(A, ramp(A), solver=s)),
        ('solve_opt', ['A3', 'direct'], lambda A, s: su.solve(A, ones(A), solver=s, use_umfpack=False)),
        ('solve', ['A1', 'cg'], lambda A, s: su.solve(A, ones(A), solver=s)),
        ('solve_tol', ['A3', 'cg'], lambda A, s: su.solve(A, ones(A), solver=s, tol=1e-3)),
        ('solve', ['A2', 'cg'], lambda A, s: su.solve(A, ramp(A), solver=s)),
        ('default', ['A1'], lambda A: su.solve(A, ones(A))),
        ('default', ['A3'], lambda A: su.solve(A, ramp(A))),
    ]
    def bmass(m, e):
        return mass.assemble(fem.Basis(m, e, intorder=3))

    def fbmass(m, e):
        return mass.assemble(fem.FacetBasis(m, e, intorder=3))

    from skfem.quadrature import get_quadrature
    from skfem import refdom as rd
    G['rules'] = [
        ('bmass', ['tri_a', 'p1'], bmass),
        ('bmass', ['quad_a', 'q1'], bmass),
        ('bmass', ['line_a', 'lp1'], bmass),
        ('bmass', ['tet_a', 'tp1'], bmass),
        ('bmass', ['hex_a', 'h1'], bmass),
        ('fbmass', ['tri_a', 'p1'], fbmass),
        ('fbmass', ['quad_a', 'q1'], fbmass),
        ('fbmass', ['tet_a', 'tp1'], fbmass),
        ('fbmass', ['hex_a', 'h1'], fbmass),
        ('rule_tri3', [], lambda: list(get_quadrature(rd.RefTri, 3))),
        ('rule_quad3', [], lambda: list(get_quadrature(rd.RefQuad, 3))),
        ('rule_tet3', [], lambda: list(get_quadrature(rd.RefTet, 3))),
        ('rule_hex3', [], lambda: list(get_quadrature(rd.RefHex, 3))),
        ('rule_wedge3', [], lambda: list(get_quadrature(rd.RefWedge, 3))),
        ('rule_line3', [], lambda: list(get_quadrature(rd.RefLine, 3))),
        ('rule_tri3_then_scale', [], lambda: _scale_rule(get_quadrature(rd.RefTri, 3))),
        ('rule_quad3_then_scale', [], lambda: _scale_rule(get_quadrature(rd.RefQuad, 3))),
        ('refdom_tables', [], lambda: [np.array(rd.RefTri.p), np.array(rd.RefQuad.p), np.array(rd.RefTet.p), np.array(rd.RefHex.p),
                                       np.array(rd.RefTri.normals), np.array(rd.RefTet.normals)]),
    ]
    D = np.array([0, 3, 4], dtype=np.int32)
    xs = lambda A: np.linspace(0, 1, A.shape[0])
    G['bc'] = [
        ('enforce', ['A1'], lambda A: list(su.enforce(A, ones(A), x=xs(A), D=D))),
        ('condense', ['A1'], lambda A: list(su.condense(A, ones(A), x=xs(A), D=D))),
        ('penalize', ['A1'], lambda A: list(su.penalize(A, ones(A), x=xs(A), D=D, epsilon=2.0 ** -20))),
        ('enforce', ['A3'], lambda A: list(su.enforce(A, ramp(A), D=D))),
        ('condenseI', ['A3'], lambda A: list(su.condense(A, ramp(A), I=np.setdiff1d(np.arange(A.shape[0]), D)))),
        ('enforce_mass', ['A1', 'A3'], lambda A, M: list(su.enforce(A, M, D=D))),
        ('condense_mass', ['A1', 'A3'], lambda A, M: list(su.condense(A, M, D=D))[:2]),
        ('solve_cond', ['A1'], lambda A: su.solve(*su.condense(A, ones(A), x=xs(A), D=D))),
        ('solve_enf', ['A1'], lambda A: su.solve(*su.enforce(A, ones(A), x=xs(A), D=D))),
        ('diag', ['A2'], lambda A: su.build_pc_diag(A)),
        ('solve_cond_x', ['A1', 'x0'], lambda A, x: su.solve(*su.condense(A, ones(A), x=x, D=D))),
        ('solve_enf_x', ['A1', 'x0'], lambda A, x: su.solve(*su.enforce(A, ones(A), x=x, D=D))),
        ('solve_cond_keep', ['A1', 'x0'], lambda A, x: _solve_twice(su, A, x, D)),
        # nothing to eliminate (a tag without facets), then the "reduced" system is constrained IN PLACE: the caller's own
        # matrix and vector must not notice (a helper that hands its operands back as the result would let them)
        ('cond_emptyD_then_enforce', ['A1', 'x0'], lambda A, x: _empty_then_inplace(su, A, x, 'enforce')),
        ('cond_emptyD_then_penalize', ['A1', 'x0'], lambda A, x: _empty_then_inplace(su, A, x, 'penalize')),
        ('cond_allI_then_enforce', ['A3', 'x0'], lambda A, x: _empty_then_inplace(su, A, x, 'enforce', use_I=True)),
    ]
    from skfem.models.elasticity import linear_elasticity
    from skfem.helpers import ddot, grad, sym_grad, transpose, dot
    yv = lambda b: np.sin(np.arange(b.N, dtype=float))
    # constructors and conversions on CALLER-OWNED arrays / library-made operands (the arrays must stay as they were)
    G['arrays'] = [
        ('MeshTri', ['P2d', 'T3_i32'], lambda p, t: _mesh_numbers(fem.MeshTri(p, t))),
        ('MeshTri', ['P2d', 'T3_i64'], lambda p, t: _mesh_numbers(fem.MeshTri(p, t))),
        ('MeshTri', ['P2d', 'T3_i32F'], lambda p, t: _mesh_numbers(fem.MeshTri(p, t))),
        ('MeshTri_tables', ['P2d', 'T3_i32'], lambda p, t: [fem.MeshTri(p, t).facets, fem.MeshTri(p, t).t]),
        ('MeshQuad', ['P2q', 'T4q_i32'], lambda p, t: [fem.MeshQuad(p, t).t, fem.MeshQuad(p, t).facets, fem.MeshQuad(p, t).f2t]),
        ('MeshTet', ['P3t', 'T4t_i32'], lambda p, t: [fem.MeshTet(p, t).t, fem.MeshTet(p, t).facets, fem.MeshTet(p, t).edges]),
        ('MeshLine', ['P1d', 'T2_i32'], lambda p, t: [fem.MeshLine(p, t).t, fem.MeshLine(p, t).p]),
        ('from_mesh', ['tri_o'], lambda m: _mesh_numbers(fem.MeshTri1.from_mesh(m))),
        ('tri2_from', ['tri_o'], lambda m: [fem.MeshTri2.from_mesh(m).t, fem.MeshTri2.from_mesh(m).p]),
        ('refined_o', ['tri_o'], lambda m: _mesh_numbers(m.refined())),
        ('adapt_o', ['tri_o'], lambda m: _mesh_numbers(m.refined(np.array([0, 3])))),
        ('use_o', ['tri_o'], lambda m: [m.t, m.facets, m.t2f, mass.assemble(fem.Basis(m, fem.ElementTriP2()))]),
        ('asm_kw', ['B_p2', 'yvec'], lambda b, y: fem.BilinearForm(lambda u, v, w: u * v * w['c']).assemble(b, c=y)),
        ('lin_kw', ['B_p2', 'yvec'], lambda b, y: fem.LinearForm(lambda v, w: v * w['c'] ** 2).assemble(b, c=y)),
        ('interp_y', ['B_p2', 'yvec'], lambda b, y: [b.interpolate(y).value, b.interpolate(y).grad]),
        ('interpolator_y', ['B_p2', 'yvec', 'Q1'], lambda b, y, x: b.interpolator(y)(x)),
    ]
    # integrand helpers on ONE vector-valued basis (a helper that writes into the arrays stored in the basis shows in
    # every later result that depends on the part it destroyed)
    G['vec'] = [
        ('elasticity', ['B_vec'], lambda b: linear_elasticity(1.0, 2.0).assemble(b)),
        ('symgrad', ['B_vec'], lambda b: fem.BilinearForm(lambda u, v, w: ddot(sym_grad(u), sym_grad(v))).assemble(b)),
        ('skew', ['B_vec'], lambda b: fem.BilinearForm(
            lambda u, v, w: (u.grad[0, 1] - u.grad[1, 0]) * (v.grad[0, 1] - v.grad[1, 0])).assemble(b)),
        ('gradgrad', ['B_vec'], lambda b: fem.BilinearForm(lambda u, v, w: ddot(grad(u), grad(v))).assemble(b)),
        ('transposed', ['B_vec'], lambda b: fem.BilinearForm(lambda u, v, w: ddot(transpose(grad(u)), grad(v))).assemble(b)),
        ('interp_grad', ['B_vec'], lambda b: b.interpolate(yv(b)).grad),
        ('dotmass', ['B_vec'], lambda b: fem.BilinearForm(lambda u, v, w: dot(u, v)).assemble(b)),
        ('functional', ['B_vec'], lambda b: fem.Functional(
            lambda w: w['u'].grad[0, 1] - w['u'].grad[1, 0]).assemble(b, u=b.interpolate(yv(b)))),
    ]
    # one globally-defined element object on a mesh and on MOVED copies of it (same connectivity, other geometry)
    for ename in ('morley', 'argyris'):
        G['elem'] += [
            ('mass_scaled', ['tri_a', ename], lambda m, e: mass_on(m.scaled((2., 0.5)), e)),
            ('mass_translated', ['tri_a', ename], lambda m, e: mass_on(m.translated((1., -1.)), e)),
            ('mass_morphed', ['tri_a', ename], lambda m, e: mass_on(m.morphed(lambda p: p[0] + .25 * p[1], lambda p: 2. * p[1]), e)),
        ]
    G['elem'] += [
        ('mass', ['line_a', 'hermite'], mass_on),
        ('mass_scaled', ['line_a', 'hermite'], lambda m, e: mass_on(m.scaled(3.), e)),
        ('mass', ['line_b', 'hermite'], mass_on),
    ]
    return G


def _mesh_numbers(m):
    """Numbers computed THROUGH a derived mesh (its mapping, bases, finder), not only its arrays."""
    import skfem as fem
    from skfem.models.poisson import mass
    b = fem.Basis(m, fem.ElementTriP1())
    return [m.p, m.t, mass.assemble(b), b.doflocs, m.mapping().detDF(np.array([[.25], [.25]])),
            m.element_finder()(*m.p[:, m.t[:, 0]].mean(axis=1)[:, None])]


def _coo_add(form, b):
    c = form.coo_data(b)
    s2 = c + c
    return [s2.tocsr(), c.tocsr(), s2.todefault(), c.todefault()]


def _scale_rule(rule):
    X, W = rule
    out = [X.copy(), W.copy()]
    W *= 2.0                    # the caller owns what it was handed
    X += 0.125
    return out


def _inplace_scaled(A):
    A *= 2.0
    return A


def _inplace_diag(A):
    A.setdiag(7.0)
    return A


def _solve_twice(su, A, x, D):
    cond = su.condense(A, np.ones(A.shape[0]), x=x, D=D)
    y1 = su.solve(*cond)
    keep = y1.copy()
    y2 = su.solve(*su.condense(A, 2.0 * np.ones(A.shape[0]), x=x, D=D))
    return [keep, y1, y2]


def _empty_then_inplace(su, A, x, how, use_I=False):
    b = np.cos(np.arange(A.shape[0], dtype=float))
    kw = {'I': np.arange(A.shape[0])} if use_I else {'D': np.array([], dtype=np.int64)}
    K, f = su.condense(A, b, expand=False, **kw)[:2]
    D2 = np.array([0, 3, 4])
    if how == 'enforce':
        su.enforce(K, f, x=x, D=D2, overwrite=True)
    else:
        su.penalize(K, f, x=x, D=D2, epsilon=2.0 ** -20, overwrite=True)
    # the caller's system, used again afterwards
    return [su.solve(A, b), A @ x]


def _meshio_data(m):
    from skfem.io.meshio import to_meshio
    mio = to_meshio(m)
    return [mio.points, [c.data for c in mio.cells],
            {k: [np.asarray(a) for a in v] for k, v in mio.cell_data.items()}]


_CACHE = {}


def objects():
    if 'O' not in _CACHE:
        _CACHE['O'] = _objects()
    return _CACHE['O']


def ops():
    if 'G' not in _CACHE:
        _CACHE['G'] = _ops()
    return _CACHE['G']


def group_sizes():
    return {g: len(v) for g, v in ops().items()}


def build(name, pool):
    """Evaluate the recipe `name`.  pool=None: everything fresh (sub-objects included); otherwise objects are interned
    in the pool by recipe name, sub-objects of composite recipes (bases over pooled meshes/elements) as well."""
    O = objects()
    if pool is not None and name in pool:
        return pool[name]
    f = O[name]
    import inspect
    if len(inspect.signature(f).parameters) == 1:
        memo = {} if pool is None else pool           # fresh: sub-objects shared only within this one construction
        obj = f(lambda sub: build(sub, memo if pool is not None else None) if pool is not None else O[sub]())
    else:
        obj = f()
    if pool is not None:
        pool[name] = obj
    return obj


def run_op(group, k, pool=None):
    """Execute operation instance k of a group on pooled (pool dict given) or fresh operands.
    Returns (hash or '', err, checksums before, checksums after)."""
    warnings.simplefilter('ignore')
    import logging
    logging.getLogger('skfem').setLevel(logging.ERROR)
    name, operands, fn = ops()[group][k]
    objs = [build(r, pool) for r in operands]
    before = [checksum(o) for o in objs]
    try:
        res = fn(*objs)
        h, err = digest(res), ''
    except Exception as exc:             # observation
        h, err = '', type(exc).__name__
    after = [checksum(o) for o in objs]
    return h, err, before, after


def reference_worker(job):
    """Runs in a FRESH interpreter (multiprocessing spawn, maxtasksperchild=1)."""
    group, k = job
    h, err, before, after = run_op(group, k, None)
    return group, k, h, err


def op_label(group, k):
    name, operands, _ = ops()[group][k]
    return f'{name}({",".join(operands)})'
