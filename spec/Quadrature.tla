----------------------------- MODULE Quadrature -----------------------------
(* Property C08: quadrature rules deliver their advertised degree.            *)
(*                                                                             *)
(* An event is what  skfem.quadrature.get_quadrature(refdom, n)  returned,     *)
(* projected by the harness (harness/props/c08.py):                            *)
(*   kind, n, err ("" or the exception class), dim, npts,                      *)
(*   sumw   = sum of the weights                                   (Fx),        *)
(*   slack  = min over nodes and over the inequalities that define the closed  *)
(*            reference cell of the inequality's slack             (Fx),        *)
(*   mom    = rows <<alpha_1..alpha_dim, limb_1..limb_5>> : the moment          *)
(*            sum_i w_i x_i^alpha computed in exact rational arithmetic from    *)
(*            the returned floats, for every monomial the order promises,       *)
(*   ts     = for quadrilateral / hexahedron / prism: the factor rules the      *)
(*            library returns for the same order (segment, triangle), all       *)
(*            nodes X and weights W of the product rule and, per node, the      *)
(*            index of the nearest node of each factor rule.                    *)
(* The oracle RefMoment is the closed form of Numeric.tla.                     *)
(* The same clauses are applied to the rules built by the transcription        *)
(* TensorImpl of quadrature.py:43-74 in MC_C08.                                *)
EXTENDS Numeric

\* largest order for which a table exists today; only decides under which NAME the exactness of a
\* returned rule is reported (beyond it: RefusesOutsideTable), never whether it is demanded
TableMax(kind) == CASE kind = "tri" -> 19 [] kind = "tet" -> 9 [] kind = "wedge" -> 19 [] OTHER -> 1000000

TensorKinds   == {"quad", "hex", "wedge"}
Factors(kind) == CASE kind = "quad"  -> <<"line", "line">>
                   [] kind = "hex"   -> <<"line", "line", "line">>
                   [] kind = "wedge" -> <<"tri", "line">>
                   [] OTHER          -> <<>>

Alpha(e, r) == SubSeq(e.mom[r], 1, e.dim)
Val(e, r)   == SubSeq(e.mom[r], e.dim + 1, e.dim + NL)
\* the "degree" the order n bounds
Deg(kind, alpha) == CASE kind = "point" -> 0
                      [] kind \in {"tri", "tet", "wedge"} -> SumSeq(alpha)
                      [] OTHER -> MaxSet({alpha[i] : i \in DOMAIN alpha})

FactorWF(f, kind) ==
  /\ f.err = "" => /\ Len(f.x) = Len(f.w) /\ Len(f.w) >= 1
                   /\ \A i \in DOMAIN f.w : FxWF(f.w[i]) /\ Len(f.x[i]) = CellDim(kind)
                                            /\ \A c \in DOMAIN f.x[i] : FxWF(f.x[i][c])
TensorWF(e) ==
  IF e.kind \notin TensorKinds THEN TRUE
  ELSE /\ Len(e.ts.f) = Len(Factors(e.kind))
       /\ \A j \in DOMAIN e.ts.f : FactorWF(e.ts.f[j], Factors(e.kind)[j])
       /\ Len(e.ts.X) = e.npts /\ Len(e.ts.W) = e.npts /\ Len(e.ts.ix) = e.npts
       /\ \A k \in 1..e.npts : /\ FxWF(e.ts.W[k]) /\ Len(e.ts.X[k]) = e.dim
                               /\ \A c \in 1..e.dim : FxWF(e.ts.X[k][c])
                               /\ Len(e.ts.ix[k]) = Len(Factors(e.kind))
                               /\ \A j \in DOMAIN e.ts.ix[k] : e.ts.ix[k][j] \in 0..100000

QuadWellFormed(e) ==
  /\ e.kind \in CellKinds /\ e.n \in -1..64
  /\ e.err = "" =>
       /\ e.dim = CellDim(e.kind) /\ e.npts >= 1
       /\ FxWF(e.sumw) /\ FxWF(e.slack)
       /\ \A r \in DOMAIN e.mom : /\ Len(e.mom[r]) = e.dim + NL
                                  /\ \A i \in 1..e.dim : e.mom[r][i] \in 0..64
                                  /\ FxWF(Val(e, r))
       \* the enumeration of monomials is complete and without repetition (decided here, not in Python)
       /\ Len(e.mom) = NumMonomials(e.kind, e.n)
       /\ {Alpha(e, r) : r \in DOMAIN e.mom} = Monomials(e.kind, e.n)
       /\ TensorWF(e)

WeightsSumToMeasure(e) == FxNear(e.sumw, RefMeasure(e.kind), TolQuad(e.kind))
NodesInCell(e)         == FxLeq(FxNeg(TolNode), e.slack)
MomentExact(e, r)      == FxNear(Val(e, r), RefMoment(e.kind, Alpha(e, r)), TolQuad(e.kind))
ExactToDegree(e)       == \A r \in DOMAIN e.mom : MomentExact(e, r)
\* the part of ExactToDegree below the advertised degree (a rule that is "one degree short" still has it)
ExactBelowTop(e)       == \A r \in DOMAIN e.mom : Deg(e.kind, Alpha(e, r)) <= e.n - 1 => MomentExact(e, r)

\* quadrilateral / hexahedron / prism rules are tensor products of the segment / triangle rules of the same
\* order: every node is a tuple of factor nodes, every tuple occurs exactly once, weights are the products
RECURSIVE ProdSeq(_)
ProdSeq(s) == IF s = <<>> THEN 1 ELSE Head(s) * ProdSeq(Tail(s))
RECURSIVE FxProdSeq(_)
FxProdSeq(s) == IF Len(s) = 1 THEN s[1] ELSE FxMul(s[1], FxProdSeq(Tail(s)))
TensorStructure(e) ==
  LET fs == e.ts.f
      nf == Len(fs)
  IN /\ \A j \in 1..nf : fs[j].err = ""
     /\ e.npts = ProdSeq([j \in 1..nf |-> Len(fs[j].w)])
     /\ \A k \in 1..e.npts : \A j \in 1..nf : e.ts.ix[k][j] \in 1..Len(fs[j].w)
     /\ Cardinality({e.ts.ix[k] : k \in 1..e.npts}) = e.npts
     /\ \A k \in 1..e.npts :
          LET want == FlattenSeq([j \in 1..nf |-> fs[j].x[e.ts.ix[k][j]]]) IN
          /\ Len(want) = e.dim
          /\ \A c \in 1..e.dim : FxNear(e.ts.X[k][c], want[c], TolNode)
          /\ FxNear(e.ts.W[k], FxProdSeq([j \in 1..nf |-> fs[j].w[e.ts.ix[k][j]]]), TolNode)

QuadClauses(e) ==
  IF ~QuadWellFormed(e) THEN [WellFormed |-> FALSE]
  ELSE IF e.err # ""
  THEN [WellFormed |-> TRUE] @@
       (IF e.n > TableMax(e.kind) THEN [RefusesOutsideTable |-> e.err # "Timeout"] ELSE <<>>)
  ELSE LET exact == ExactToDegree(e) IN
       [WellFormed |-> TRUE,
        WeightsSumToMeasure |-> WeightsSumToMeasure(e),
        NodesInCell |-> NodesInCell(e),
        ExactToDegree |-> exact,
        ExactBelowTop |-> exact \/ ExactBelowTop(e)] @@
       (IF e.n > TableMax(e.kind) THEN [RefusesOutsideTable |-> exact] ELSE <<>>) @@
       (IF e.kind \in TensorKinds THEN [Drift_TensorStructure |-> TensorStructure(e)] ELSE <<>>)   \* informational: not demanded by C08
==============================================================================
