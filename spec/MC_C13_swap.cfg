SPECIFICATION Spec
CONSTANTS
  MeshUniverse <- MCUniverse
  EARLYSTOP = FALSE
  SWAPBLUE = TRUE
INVARIANT ClausesHold
INVARIANT LoopBounded


CHECK_DEADLOCK FALSE
