SPECIFICATION Spec
CONSTANT Which = "linecomp"
INVARIANT FindOKHolds
CHECK_DEADLOCK FALSE
