"""C06 - Galerkin exactness end to end (patch test and projection identity).

L : model problems (Poisson, reaction-diffusion, linear elasticity) whose exact solution is a polynomial P of the
    element's degree with small integer coefficients are assembled (skfem.models), constrained on a Dirichlet
    facet subset to the boundary projection of P (FacetBasis.project + get_dofs + condense), given natural data
    on the remaining boundary facets, and solved; TraceC06 / Galerkin.tla computes P exactly at the (integer,
    scaled) DOF locations and compares with the recorded solution vector (SolutionIsInterpolant, TolSolve).
    basis.project of a member of the space onto the whole mesh / a sub-domain / a boundary part must return the
    member (ProjectionIsIdentity), curved second-order meshes included.
    Further classes: the system assembled ONCE and constrained/solved for several different Dirichlet/Neumann
    splits through enforce / condense / penalize with the Dirichlet set in every accepted form (every solve must be
    exact); meshes reached through operation histories (refined(marked) ..., harness/meshops.py) with solutions of
    the element's degree (>= 3 for several DOFs per edge); strongly graded tensor grids (cell measures spanning
    > 16 decades): degree-one patch tests with an exact fixed-point oracle at the dyadic DOF locations and
    projection identities, relative to the O(1) solution.
There is no model-checking configuration: the oracle is a theorem (Galerkin exactness / uniqueness of the
discrete solution), not something TLC establishes; TLC evaluates the exact polynomial and decides the law.
Python constructs the problem data from P (exact integer polynomial calculus = input construction), drives the
library and changes representation; it contains no comparison and no tolerance.
"""
import json
from dataclasses import replace

import numpy as np

from .. import universe as U
from .. import meshgen as G
from .. import elements as EL
from .. import meshops as MO
from ..core import guarded, MachineryError
from ..par import Pool
from ..project import fx

# per-call alarm of the library calls: generous (normal calls take < 10 s) - a slow or loaded machine must never
# turn into a verdict; a genuine hang is still reported (as the event's err) after this time
CALL_TIMEOUT = 900

RULE = ('scenario = one mesh x one element x one model problem (polynomial exact solution, Dirichlet/Neumann split) '
        'or one projection; distinct = distinct recipe; non-trivial = at least one interior DOF and (for solves) '
        'polynomial degree = element degree')

# element -> (kind, degree reproduced exactly, scale S making the Lagrange nodes integral on integer meshes, vector?)
SOLVE_ELEMS = {
    'ElementLineP1': ('line', 1, 1, 0), 'ElementLineP2': ('line', 2, 2, 0),
    'ElementTriP1': ('tri', 1, 1, 0), 'ElementTriP2': ('tri', 2, 2, 0), 'ElementTriP3': ('tri', 3, 3, 0),
    'ElementTriP4': ('tri', 4, 4, 0),
    'ElementQuad1': ('quad', 1, 1, 0), 'ElementQuad2': ('quad', 2, 2, 0),
    'ElementTetP1': ('tet', 1, 1, 0), 'ElementTetP2': ('tet', 2, 2, 0),
    'ElementHex1': ('hex', 1, 1, 0), 'ElementHex2': ('hex', 2, 2, 0),
    'ElementWedge1': ('wedge', 1, 1, 0),
    'ElementVector(TriP1)': ('tri', 1, 1, 1), 'ElementVector(TriP2)': ('tri', 2, 2, 1),
    'ElementVector(TetP1)': ('tet', 1, 1, 1), 'ElementVector(TetP2)': ('tet', 2, 2, 1),
    'ElementVector(Quad1)': ('quad', 1, 1, 1), 'ElementVector(Quad2)': ('quad', 2, 2, 1),
    'ElementVector(Hex1)': ('hex', 1, 1, 1),
}
PROJECT_ELEMS = ['ElementLineP0', 'ElementLineP1', 'ElementLineP2', 'ElementLinePp3', 'ElementLineMini',
                 'ElementTriP0', 'ElementTriP1', 'ElementTriP2', 'ElementTriP3', 'ElementTriP4', 'ElementTriP1B',
                 'ElementTriP2B', 'ElementTriCR', 'ElementTriRT1', 'ElementTriN1', 'ElementTriP1DG', 'ElementDG(TriP2)',
                 'ElementVector(TriP1)', 'ElementVector(TriP2)', 'ElementTriMorley',
                 'ElementQuad0', 'ElementQuad1', 'ElementQuad2', 'ElementQuadS2', 'ElementQuadP3', 'ElementQuadRT1',
                 'ElementVector(Quad2)',
                 'ElementTetP0', 'ElementTetP1', 'ElementTetP2', 'ElementTetMini', 'ElementTetRT1', 'ElementTetN1',
                 'ElementVector(TetP1)',
                 'ElementHex0', 'ElementHex1', 'ElementHex2', 'ElementHexS2', 'ElementWedge1']
NODAL_H1 = {'ElementLineP1', 'ElementLineP2', 'ElementTriP1', 'ElementTriP2', 'ElementTriP3', 'ElementTriP4',
            'ElementQuad1', 'ElementQuad2', 'ElementQuadS2', 'ElementTetP1', 'ElementTetP2', 'ElementHex1', 'ElementHex2',
            'ElementVector(TriP1)', 'ElementVector(TriP2)', 'ElementVector(TetP1)', 'ElementVector(Quad2)'}
SECOND = {'tri': 'MeshTri2', 'quad': 'MeshQuad2', 'tet': 'MeshTet2', 'hex': 'MeshHex2'}


# ------------------------------------------------------------------------------------------ integer polynomials
# {exponent tuple: int coefficient}; exact calculus used to construct the data (f, h) of the model problems

def p_rand(dim, deg, rng):
    import itertools
    P = {}
    exps = [e for e in itertools.product(range(deg + 1), repeat=dim) if sum(e) <= deg]
    for e in exps:
        c = int(rng.integers(-2, 3))
        if c:
            P[e] = c
    top = [e for e in exps if sum(e) == deg]
    e = top[int(rng.integers(len(top)))]
    if not P.get(e):
        P[e] = 1 + int(rng.integers(0, 2))
    return P


def p_diff(P, i):
    out = {}
    for e, c in P.items():
        if e[i] > 0:
            e2 = e[:i] + (e[i] - 1,) + e[i + 1:]
            out[e2] = out.get(e2, 0) + c * e[i]
    return {e: c for e, c in out.items() if c}


def p_add(P, Q, a=1, b=1):
    out = {}
    for e, c in P.items():
        out[e] = out.get(e, 0) + a * c
    for e, c in Q.items():
        out[e] = out.get(e, 0) + b * c
    return {e: c for e, c in out.items() if c}


def p_eval(P, x):
    """x: array (dim, ...) of floats."""
    out = np.zeros_like(x[0], dtype=float)
    for e, c in P.items():
        term = c * np.ones_like(x[0], dtype=float)
        for i, k in enumerate(e):
            if k:
                term = term * x[i] ** k
        out = out + term
    return out


def p_terms(P, dim):
    return [{'c': int(c), 'e': [int(k) for k in e]} for e, c in sorted(P.items())] or [{'c': 0, 'e': [0] * dim}]


def p_from_terms(T):
    return {tuple(t['e']): t['c'] for t in T if t['c']}


# ------------------------------------------------------------------------------------------ the real pipeline

def build_mesh(rec):
    import skfem
    kind = rec['kind']
    m = U.make(kind, np.array(rec['p'], dtype=float), np.array(rec['t'], dtype=np.int64))
    cv = rec.get('curved')
    if cv:
        m2 = getattr(skfem, SECOND[kind]).from_mesh(m)
        d = m2.doflocs.copy()
        nv = np.array(rec['p']).shape[1]
        off = np.random.default_rng(cv['seed']).integers(-1, 2, size=(d.shape[0], d.shape[1] - nv)) / float(cv['den'])
        d[:, nv:] += off
        m = replace(m2, doflocs=d)
    return m


def dof_components(basis, dim, vector):
    comp = np.ones(basis.N, dtype=int)
    if vector:
        for k, ix in enumerate(basis.split_indices()):
            comp[ix] = k + 1
    return comp


def _mesh_of(rec):
    """Mesh of a recipe: (p, t) [+ curved], an operation history (harness/meshops.py spec) or a graded tensor grid."""
    if 'mesh' in rec:
        return MO.build(rec['mesh'])
    if 'graded' in rec:
        g = rec['graded']
        cls = U.mesh_class(rec['kind'])
        axes = [np.array([0.] + [2. ** -k for k in ax]) for ax in g['axes']]
        if rec['kind'] == 'line':
            return cls(axes[0])
        return cls.init_tensor(*axes)
    return build_mesh(rec)


def exec_solve(rec):
    """One mesh, one element, one model problem with polynomial exact solution: the system is assembled ONCE and
    then constrained and solved for every Dirichlet/Neumann split of rec['splits'] (same matrix object, same body
    load vector) - one Solve event per split; every solve must reproduce the exact solution."""
    import skfem
    from skfem import Basis, FacetBasis, BilinearForm, LinearForm, condense, enforce, penalize, solve
    from skfem.helpers import dot
    from skfem.models.poisson import laplace, mass
    from skfem.models.elasticity import linear_elasticity
    name = rec['elem']
    kind, deg, S0, vector = SOLVE_ELEMS[name]
    polys = [p_from_terms(T) for T in rec['poly']]
    dim = len(rec['poly'][0][0]['e'])
    splits = rec['splits']

    def base(sp):
        return {'a': 'Solve', 'problem': rec['problem'], 'bc': sp['bc'], 'dform': sp.get('dform', 'view'),
                'method': sp.get('method', 'condense'), 'nform': sp.get('nform', 'array'), 'elem': name, 'dim': dim,
                'S': S0, 'S2': 0,
                'poly': [p_terms(P, dim) for P in polys], 'loc': [], 'comp': [], 'x': [], 'err': '', 'ndir': 0,
                'nth': 0}

    def assemble():
        m = _mesh_of(rec)
        e = EL.make(name)
        basis = Basis(m, e)
        if rec['problem'] == 'elasticity':
            lam, mu = rec['lam'], rec['mu']
            A = linear_elasticity(float(lam), float(mu)).assemble(basis)
            # sigma_ij = mu (d_j u_i + d_i u_j) + lam div(u) delta_ij ;  f = -div sigma
            divu = {}
            for i in range(dim):
                divu = p_add(divu, p_diff(polys[i], i))
            sig = [[p_add(p_add(p_diff(polys[i], j), p_diff(polys[j], i), mu, mu), divu if i == j else {}, 1, lam)
                    for j in range(dim)] for i in range(dim)]
            f = []
            for i in range(dim):
                fi = {}
                for j in range(dim):
                    fi = p_add(fi, p_diff(sig[i][j], j), 1, -1)
                f.append(fi)
            b0 = LinearForm(lambda v, w: sum(p_eval(f[i], w.x) * v[i] for i in range(dim))).assemble(basis)
            natural = LinearForm(lambda v, w: sum(p_eval(sig[i][j], w.x) * w.n[j] * v[i]
                                                  for i in range(dim) for j in range(dim)))
            exact = lambda x: np.array([p_eval(P, x) for P in polys])
        else:
            P = polys[0]
            c = rec.get('c', 0)
            A = laplace.assemble(basis)
            if c:
                A = A + c * mass.assemble(basis)
            lap = {}
            for i in range(dim):
                lap = p_add(lap, p_diff(p_diff(P, i), i))
            f = p_add(p_add({}, lap, 1, -1), P, 1, c)                      # f = -lap P + c P
            b0 = LinearForm(lambda v, w: p_eval(f, w.x) * v).assemble(basis)
            gradP = [p_diff(P, i) for i in range(dim)]
            natural = LinearForm(lambda v, w: sum(p_eval(gradP[i], w.x) * w.n[i] for i in range(dim)) * v)
            exact = lambda x: p_eval(P, x)
        return m, e, basis, A, b0, natural, exact
    sysm, err = guarded(assemble, CALL_TIMEOUT)
    if err:
        ev = base(splits[0])
        # NotImplementedError = the library explicitly declines (e.g. no quadrature rule of the requested order):
        # not an observation about exactness; counted, not judged
        ev['err'] = 'NotSupported' if err == 'NotImplementedError' else err
        return [ev]
    m, e, basis, A, b0, natural, exact = sysm
    # integer DOF locations: scale S = S0 * 2^j (operation histories halve edges), or 2^S2 on graded grids
    S, S2 = S0, 0
    if 'graded' in rec:
        S2 = int(rec['graded']['bits'])
        L = basis.doflocs * 2. ** S2
    else:
        for j in range(5):
            L = basis.doflocs * (S0 * 2 ** j)
            if np.abs(L - np.rint(L)).max() <= 1e-9:
                S = S0 * 2 ** j
                break
    Li = np.rint(L)
    lattice_ok = np.abs(L - Li).max() <= 1e-9 and np.abs(Li).max() < 2 ** 30
    comp = [int(c) for c in dof_components(basis, dim, vector)]
    bf = m.boundary_facets()
    events = []
    for nth, sp in enumerate(splits):
        ev = base(sp)
        ev.update(S=int(S), S2=int(S2), nth=nth + 1)

        def run():
            dsel = np.array(sp['dir'], dtype=np.int64) % max(1, len(bf))      # positions within boundary_facets()
            dsel = np.unique(dsel) if len(sp['dir']) else dsel
            Dfac = bf[dsel] if len(dsel) else np.array([], dtype=np.int64)
            Nfac = np.setdiff1d(bf, Dfac)
            b = b0.copy()
            if len(Nfac) and kind != 'wedge':
                # the natural boundary part is handed over in every accepted FORM: an index array, or a UNION (tuple /
                # list / set) of index arrays, boundary names or callables whose members OVERLAP (and may be empty);
                # every facet must be integrated once
                nform = sp.get('nform', 'array')
                mN, sel = m, Nfac
                if nform != 'array' and len(Nfac) >= 2:
                    n3 = max(1, len(Nfac) // 3)
                    A_, B_, C_ = Nfac[:len(Nfac) - n3], Nfac[n3:], Nfac[::2]         # A and B overlap, C overlaps both
                    E_ = np.array([], dtype=Nfac.dtype)
                    if nform == 'tuple_arrays':
                        sel = (A_, B_, C_)
                    elif nform == 'list_arrays_empty':
                        sel = [A_, E_, B_, Nfac[-1:]]
                    elif nform in ('tuple_tags', 'set_tags', 'list_tags_empty'):
                        tags = {'nat_a': A_, 'nat_b': B_, 'nat_x': C_, 'nat_none': E_}
                        mN = m.with_boundaries(tags)
                        sel = {'tuple_tags': ('nat_a', 'nat_b', 'nat_x'), 'set_tags': {'nat_a', 'nat_b', 'nat_x'},
                               'list_tags_empty': ['nat_a', 'nat_none', 'nat_b']}[nform]
                    elif nform == 'callables':
                        mid = m.p[:, m.facets].mean(axis=1)

                        def member(ix):
                            mm = mid[:, ix]
                            return lambda x: (x[:, :, None] == mm[:, None, :]).all(axis=0).any(axis=1)
                        sel = (member(A_), member(B_), Nfac[::2])
                b = b + natural.assemble(FacetBasis(mN, e, facets=sel))
            if not len(Dfac):
                return np.asarray(solve(A, b)), 0
            D = basis.get_dofs(Dfac)
            # the Dirichlet set is handed over in every accepted FORM: a DofsView, an index array, a dict of the
            # DofsViews of several boundary parts (adjacent or overlapping: they share DOFs), or I=
            form = sp.get('dform', 'view')
            kw = {'D': D}
            if form == 'array':
                kw = {'D': D.flatten()}
            elif form in ('dict', 'dict_overlap'):
                kw = {'D': {'part%d' % k: basis.get_dofs(bf[np.unique(np.array(part, dtype=np.int64) % len(bf))])
                            for k, part in enumerate(sp['dparts'])}}
            elif form == 'I':
                kw = {'I': basis.complement_dofs(D)}
            reduce_ = {'enforce': enforce, 'penalize': penalize}.get(sp.get('method'), condense)
            if kind == 'wedge':                                             # FacetBasis is not available for prisms:
                xD = basis.zeros()                                          # nodal values of the data on the DOFs the
                dd = D.flatten()                                            # library returned
                xD[dd] = exact(basis.doflocs[:, dd])
            else:
                xD = FacetBasis(m, e, facets=Dfac).project(exact)           # boundary projection of the data
            return np.asarray(solve(*reduce_(A, b, x=xD, **kw))), len(D.flatten())
        out, err = guarded(run, CALL_TIMEOUT)
        if err:
            ev['err'] = err
        elif not lattice_ok:
            ev['err'] = 'DofLocationsNotOnTheScaledLattice'
        else:
            x, nd = out
            xs = [fx(float(v)) for v in x]
            if any(v is None for v in xs):
                ev['err'] = 'NonFinite'
            else:
                ev.update(loc=[[int(v) for v in col] for col in Li.T], comp=comp, x=xs, ndir=int(nd))
        events.append(ev)
    return events


def exec_project(rec):
    from skfem import Basis, FacetBasis
    name = rec['elem']
    ev = {'a': 'Project', 'elem': name, 'region': rec['region'], 'y0': [], 'y1': [], 'I': [], 'edofs': [], 'cells': [],
          'err': '', 'curved': 1 if rec.get('curved') else 0, 'graded': 1 if 'graded' in rec else 0}

    def run():
        m = _mesh_of(rec)
        e = EL.make(name)
        basis = Basis(m, e)
        y0 = np.random.default_rng(rec['yseed']).integers(-3, 4, basis.N).astype(float)
        edofs, cells = [], []
        if rec['region'] == 'mesh':
            y1 = basis.project(basis.interpolate(y0))
            I = np.arange(basis.N)
        elif rec['region'] == 'cells':
            cells = np.unique(np.array(rec['cells'], dtype=np.int64) % m.t.shape[1])
            sub = basis.with_elements(cells)                                # basis restricted to the sub-domain
            y1 = sub.project(sub.interpolate(y0))
            I = np.unique(basis.element_dofs[:, cells])
            edofs = [[int(d) + 1 for d in col] for col in basis.element_dofs.T]
            cells = [int(k) + 1 for k in cells]
        else:
            bf = m.boundary_facets()
            F = bf[np.array(rec['facets'], dtype=np.int64)]
            fb = FacetBasis(m, e, facets=F)
            y1 = fb.project(fb.interpolate(y0))
            I = basis.get_dofs(F).flatten()
        return y0, np.asarray(y1), np.asarray(I), edofs, cells
    out, err = guarded(run, CALL_TIMEOUT)
    if err:
        ev['err'] = 'NotSupported' if err == 'NotImplementedError' else err
        return [ev]
    y0, y1, I, edofs, cells = out
    ys = [fx(float(v)) for v in y1]
    if any(v is None for v in ys):
        ev['err'] = 'NonFinite'
        return [ev]
    ev.update(y0=[int(v) for v in y0], y1=ys, I=[int(d) + 1 for d in I], edofs=edofs, cells=cells)
    return [ev]


def execute(rec):
    return exec_solve(rec) if rec['driver'] == 'solve' else exec_project(rec)


def scenario(sid, rec):
    tags = {'kind': rec['kind'], 'family': rec['family'], 'elem': rec['elem'], 'driver': rec['driver'],
            'dform': rec['splits'][0].get('dform', '') if 'splits' in rec else '',
            'method': rec['splits'][0].get('method', '') if 'splits' in rec else '',
            'nsplits': len(rec.get('splits', [])), 'graded': 1 if 'graded' in rec else 0,
            'history': 1 if 'mesh' in rec else 0,
            'problem': rec.get('problem', 'project'), 'region': rec.get('region', ''), 'curved': 1 if rec.get('curved') else 0}
    return {'id': sid, 'recipe': rec, 'tags': tags, 'events': execute(rec)}


def _scen(args):
    return scenario(*args)


# ------------------------------------------------------------------------------------------ inputs

def meshes_for(kind, rng, th, general_ok):
    out = []
    sh = lambda p, t: G.shuffle(kind, p, t, rng)
    if kind == 'line':
        out.append(('line-graded', *U.line_points([0, 1, 3, 4, 8]), 'affine'))
        out.append(('line-shuffled', *sh(*U.line_points([0, 2, 3, 7, 8, 9])), 'affine'))
    elif kind == 'tri':
        out.append(('tri-lattice', *G.tensor_tri([0, 1, 3], [0, 2, 3], (0, 1, 1, 0)), 'affine'))
        out.append(('tri-delaunay-shuffled', *sh(*U.delaunay_int(2, int(rng.integers(6, 10)), 5, rng)), 'affine'))
        out.append(('tri-graded-shuffled', *sh(*G.tensor_tri([0, 1, 2, 4], [0, 1, 4])), 'affine'))
        p, t = G.tensor_tri([0, 1, 2, 3], [0, 1, 2])
        out.append(('tri-nonconvex', *G.drop_cells(p, t, [2, 3]), 'affine'))
    elif kind == 'quad':
        p, t = G.tensor_quad([0, 1, 3], [0, 2, 3])
        out.append(('quad-rect', p, t, 'affine'))
        out.append(('quad-sheared-shuffled', *sh(G.shear(p, 1), t), 'affine'))
        pj, tj = G.tensor_quad([0, 4, 8], [0, 4, 8])
        pj = pj.copy()
        pj[:, 4] += (1, -1)
        out.append(('quad-jiggled-shuffled', *sh(pj, tj), 'general'))
    elif kind == 'tet':
        out.append(('tet-kuhn', *U.tet_cubes(1, 6), 'affine'))
        out.append(('tet-five-shuffled', *sh(*U.tet_cubes(2, 5)), 'affine'))
        out.append(('tet-delaunay-shuffled', *sh(*U.delaunay_int(3, 7, 3, rng)), 'affine'))
    elif kind == 'hex':
        p, t = G.tensor_hex([0, 1, 3], [0, 2], [0, 1])
        out.append(('hex-box', p, t, 'affine'))
        out.append(('hex-sheared-rotated', *sh(G.shear(p, 1), t), 'affine'))
        pj = p.copy() * 4
        pj[:, 4] += (1, 1, 0)
        out.append(('hex-jiggled-rotated', *sh(pj, t), 'general'))
    elif kind == 'wedge':
        out.append(('wedge', *G.tensor_wedge([0, 1, 3], [0, 2], [0, 1, 2], (0, 1)), 'affine'))
        p, t = G.tensor_wedge([0, 2, 3], [0, 1, 2], [0, 2], (1, 0, 0, 1))
        p2, t2 = G.shuffle('wedge', p, t, rng, local=False)
        out.append(('wedge-renumbered', p2, t2, 'affine'))
    return out


def _nbfacets(kind, p, t):
    return len(U.make(kind, np.array(p, dtype=float), np.array(t)).boundary_facets())


def generate(tier, seed):
    th = tier == 'thorough'
    rng = np.random.default_rng(seed + 6)
    recs = []
    cache = {}
    nrep = 20 if th else 6
    for rep in range(nrep):
        for name, (kind, deg, S, vector) in SOLVE_ELEMS.items():
            if (kind, rep) not in cache:
                cache[(kind, rep)] = meshes_for(kind, rng, th, True)       # fresh random meshes per repetition
            for fam, p, t, cls in cache[(kind, rep)]:
                dim = np.asarray(p).shape[0]
                d = deg if cls == 'affine' else 1          # general convex Q1 / Hex1 cells: degree-one solutions only
                if cls == 'general' and deg > 1:
                    continue
                nb = _nbfacets(kind, p, t)
                problems = ['elasticity'] if vector else ['poisson', 'reaction']
                for prob in problems:
                    # Dirichlet part: a random non-empty subset of the boundary facets (sometimes all of them,
                    # for reaction-diffusion sometimes none); natural data on the rest
                    mode = ['mixed', 'mixed', 'dirichlet', 'neumann'][int(rng.integers(0, 4))]
                    if kind == 'wedge':
                        mode = 'dirichlet'                  # no FacetBasis on prisms: natural data cannot be assembled
                    if mode == 'neumann' and prob != 'reaction':
                        mode = 'mixed'
                    if mode == 'dirichlet':
                        dsel = list(range(nb))
                    elif mode == 'neumann':
                        dsel = []
                    else:
                        k = int(rng.integers(1, max(2, nb // 2 + 1)))
                        dsel = sorted(int(j) for j in rng.permutation(nb)[:k])
                    poly = [p_terms(p_rand(dim, d, rng), dim) for _ in range(dim if vector else 1)]
                    # form in which the Dirichlet set reaches condense / enforce; boundary parts of the dict forms
                    # are a random assignment of the Dirichlet facets (adjacent parts meet at shared DOFs), the
                    # overlapping variant additionally repeats facets in two parts
                    forms = ['view', 'array', 'I', 'dict', 'dict_overlap']
                    form = forms[(rep + len(recs)) % len(forms)] if rep < 5 else forms[int(rng.integers(0, 5))]
                    if rep % 3 == 1:
                        form = 'dict'
                    if rep % 3 == 2:
                        form = 'dict_overlap'
                    method = 'enforce' if (len(recs) + rep) % 2 else 'condense'
                    dparts = []
                    if form in ('dict', 'dict_overlap') and dsel:
                        npart = min(len(dsel), int(rng.integers(2, 4)))
                        assign = rng.integers(0, npart, len(dsel))
                        assign[:npart] = np.arange(npart)
                        dparts = [[dsel[j] for j in range(len(dsel)) if assign[j] == k] for k in range(npart)]
                        if form == 'dict_overlap':
                            for k in range(npart):
                                dparts[k] = sorted(set(dparts[k]) | {dsel[int(rng.integers(0, len(dsel)))]})
                    r = {'driver': 'solve', 'kind': kind, 'family': fam, 'elem': name, 'problem': prob,
                         'p': np.asarray(p).astype(int).tolist(), 't': np.asarray(t).astype(int).tolist(), 'poly': poly,
                         'splits': [{'bc': mode, 'dform': form if dsel else 'view', 'method': method, 'dparts': dparts,
                                     'nform': ['array', 'tuple_arrays', 'tuple_tags', 'list_arrays_empty', 'set_tags',
                                               'callables', 'list_tags_empty'][(rep + len(recs)) % 7],
                                     'dir': dsel}]}
                    if prob == 'reaction':
                        r['c'] = int(rng.integers(1, 4))
                    if prob == 'elasticity':
                        r['lam'], r['mu'] = int(rng.integers(1, 3)), int(rng.integers(1, 3))
                    recs.append(r)
    def problem_fields(r, prob):
        if prob == 'reaction':
            r['c'] = int(rng.integers(1, 4))
        if prob == 'elasticity':
            r['lam'], r['mu'] = int(rng.integers(1, 3)), int(rng.integers(1, 3))
        return r

    def rand_split(nb, k, wedge=False, allow_neumann=False):
        """k-th split of a history: another Dirichlet facet set, another form, another reduction routine."""
        forms = ['view', 'dict', 'array', 'I', 'dict_overlap']
        methods = ['enforce', 'condense', 'enforce', 'penalize', 'enforce', 'condense']
        if wedge:
            dsel = list(range(nb))
        else:
            n = int(rng.integers(1, max(2, nb // 2 + 1)))
            dsel = sorted(int(j) for j in rng.permutation(nb)[:n])
        form = forms[(k + int(rng.integers(0, 5))) % 5]
        dparts = []
        if form in ('dict', 'dict_overlap'):
            npart = min(len(dsel), 2)
            assign = rng.integers(0, npart, len(dsel))
            assign[:npart] = np.arange(npart)
            dparts = [[dsel[j] for j in range(len(dsel)) if assign[j] == q] for q in range(npart)]
            if form == 'dict_overlap':
                dparts = [sorted(set(part) | {dsel[0]}) for part in dparts]
        nforms = ['tuple_arrays', 'tuple_tags', 'array', 'list_arrays_empty', 'set_tags', 'callables', 'list_tags_empty']
        return {'bc': 'dirichlet' if wedge else 'mixed', 'dform': form, 'method': methods[k % len(methods)],
                'nform': nforms[(k + int(rng.integers(0, 7))) % 7], 'dparts': dparts, 'dir': dsel}

    # ---- end-to-end HISTORIES: the system is assembled once, then constrained and solved for several different
    # Dirichlet/Neumann splits through enforce / condense / penalize; every solve must be exact, not only the first
    for en, (name, (kind, deg, S, vector)) in enumerate(SOLVE_ELEMS.items()):
        ms = [x for x in cache[(kind, 0)] if x[3] == 'affine']
        for rep in range(3 if th else 1):
            fam, p, t, cls = ms[(en + rep) % len(ms)]
            dim = np.asarray(p).shape[0]
            nb = _nbfacets(kind, p, t)
            prob = 'elasticity' if vector else ['poisson', 'reaction'][(en + rep) % 2]
            poly = [p_terms(p_rand(dim, deg, rng), dim) for _ in range(dim if vector else 1)]
            r = {'driver': 'solve', 'kind': kind, 'family': fam + '-assembled-once', 'elem': name, 'problem': prob,
                 'p': np.asarray(p).astype(int).tolist(), 't': np.asarray(t).astype(int).tolist(), 'poly': poly,
                 'splits': [rand_split(nb, k, wedge=(kind == 'wedge')) for k in range(5 if th else 4)]}
            recs.append(problem_fields(r, prob))
    # ---- meshes that were USED and THEN MOVED (Basis / FacetBasis / finder / orientation / facets_satisfying(normal=)
    # on m, then scaled / translated / mirrored / morphed): the exact solution is expressed in the moved coordinates;
    # control = the same history without the prior use
    MOVES = [[['scaled', 0, 2]], [['translated', 1, 1]], [['mirrored', 0]], [['scaled', 1, 2], ['translated', 0, 3]],
             [['morphed', 0, 1, 1]], [['translated', 0, 2], ['mirrored', 1], ['scaled', 0, 2]]]
    for en, (name, (kind, deg, S, vector)) in enumerate(SOLVE_ELEMS.items()):
        ms = [x for x in cache[(kind, 0)] if x[3] == 'affine']
        for rep in range(3 if th else 1):
            fam, p, t, cls = ms[(en + rep + 1) % len(ms)]
            dim = np.asarray(p).shape[0]
            if kind == 'line':
                moves = [mv for mv in MOVES if all(op[0] != 'morphed' for op in mv)]
            else:
                moves = MOVES
            mv = moves[(en + rep) % len(moves)]
            prob = 'elasticity' if vector else ['poisson', 'reaction'][(en + rep) % 2]
            poly = [p_terms(p_rand(dim, deg, rng), dim) for _ in range(dim if vector else 1)]
            nb = _nbfacets(kind, p, t)
            split = rand_split(nb, en + rep, wedge=(kind == 'wedge'))
            split['method'] = 'condense' if split['method'] == 'penalize' else split['method']
            for used in (1, 0):
                spec = MO.from_pt(kind, p, t)
                spec['ops'] = ([['use']] if used else []) + mv
                r = {'driver': 'solve', 'kind': kind, 'family': fam + ('-used-then-moved' if used else '-moved'), 'elem': name,
                     'problem': prob, 'mesh': spec, 'poly': poly, 'splits': [split]}
                if prob == 'reaction':
                    r['c'] = 2
                if prob == 'elasticity':
                    r['lam'], r['mu'] = 1, 2
                recs.append(r)
    # ---- meshes reached through OPERATION HISTORIES (refined(marked) ... ; harness/meshops.py, the C03 families):
    # exact solutions of the element's degree, i.e. >= 3 for the elements with several DOFs per edge
    from .c03 import history_specs
    hcache = {}
    for en, (name, (kind, deg, S, vector)) in enumerate(SOLVE_ELEMS.items()):
        if kind == 'wedge':
            continue
        if kind not in hcache:
            hcache[kind] = [h for h in history_specs(kind, rng) if not h[2].get('unsorted')]
        hs = hcache[kind]
        sel = hs if th else [h for h in hs if 'adaptive' in h[0]][:2] + [hs[(en) % len(hs)]]
        for fam, spec, flags in sel:
            dim = {'line': 1, 'tri': 2, 'quad': 2}.get(kind, 3)
            prob = 'elasticity' if vector else ['poisson', 'reaction'][int(rng.integers(0, 2))]
            poly = [p_terms(p_rand(dim, deg, rng), dim) for _ in range(dim if vector else 1)]
            # restrict / remove_elements may leave pieces that hang together at a vertex only (or not at all): there
            # the data is essential on the whole boundary, so that the problem stays uniquely solvable
            loose = any(op[0] in ('restrict', 'remove_elements') for op in spec['ops'])
            r = {'driver': 'solve', 'kind': kind, 'family': fam, 'elem': name, 'problem': prob, 'mesh': spec, 'poly': poly,
                 'splits': [{'bc': 'dirichlet' if loose else 'mixed', 'dform': 'view', 'method': 'condense', 'dparts': [],
                             'dir': list(range(600)) if loose else
                             [int(j) for j in rng.integers(0, 1000, int(rng.integers(2, 6)))]}]}
            recs.append(problem_fields(r, prob))
    # ---- STRONGLY GRADED tensor grids (geometric spacing, cell measures spanning > 16 decades): degree-one patch
    # tests (exact fixed-point oracle at the dyadic DOF locations) and projection identities, relative to the O(1)
    # solution
    # grading: just what the class needs (smallest / largest cell measure = 2^-54 < machine eps) and no more
    GRADED = {'line': {'axes': [[54, 27, 1, 0]], 'bits': 0}, 'tri': {'axes': [[27, 13, 0]] * 2, 'bits': 27},
              'quad': {'axes': [[27, 13, 0]] * 2, 'bits': 27}, 'tet': {'axes': [[18, 9, 0]] * 3, 'bits': 18},
              'hex': {'axes': [[18, 9, 0]] * 3, 'bits': 18}}
    for name, (kind, deg, S, vector) in SOLVE_ELEMS.items():
        if deg != 1 or vector or kind in ('wedge', 'line'):
            continue
        g = GRADED[kind]
        dim = len(g['axes'])
        for prob in ('poisson', 'reaction'):
            poly = [p_terms(p_rand(dim, 1, rng), dim)]
            # essential data on the whole boundary: with natural data on layers 2^-29 thin the systems are too
            # ill-conditioned for a sharp tolerance (observed 1e-8); with Dirichlet data the solves are exact to 1e-14
            r = {'driver': 'solve', 'kind': kind, 'family': kind + '-graded', 'elem': name, 'problem': prob, 'graded': g,
                 'poly': poly, 'splits': [{'bc': 'dirichlet', 'dform': ['view', 'array', 'I'][int(rng.integers(0, 3))],
                                           'method': ['condense', 'enforce'][int(rng.integers(0, 2))],
                                           'dparts': [], 'dir': list(range(400))}]}
            recs.append(problem_fields(r, prob))
    for name in PROJECT_ELEMS:
        kind = EL.CATALOGUE[name]['kind']
        if kind == 'wedge' or any(x in name for x in ('RT', 'N1', 'Morley', 'QuadP', 'LinePp', 'S2')):
            continue        # on graded grids only NODAL families: DOFs that scale with the cell size (fluxes, circulations,
                            # normal derivatives) and hierarchical / serendipity bases give mass matrices whose solution
                            # depends on the equilibration of the direct solver (splu without equilibration: QuadP3 3e-5,
                            # LinePp3 6e-7, QuadS2 6e-7, HexS2 1.5e-8; nodal families <= 3e-12 under every solver variant)
        base = {'driver': 'project', 'kind': kind, 'family': kind + '-graded', 'elem': name, 'graded': GRADED[kind]}
        recs.append(dict(base, region='mesh', yseed=int(rng.integers(0, 2 ** 31))))
        recs.append(dict(base, region='cells', cells=[int(j) for j in rng.integers(0, 1000, 5)],
                         yseed=int(rng.integers(0, 2 ** 31))))
    # ---- projections
    for name in PROJECT_ELEMS:
        kind = EL.CATALOGUE[name]['kind']
        if kind not in cache:
            cache[kind] = meshes_for(kind, rng, th, True)
        fams = cache[kind][:4 if th else 2]
        for fam, p, t, cls in fams:
            base = {'driver': 'project', 'kind': kind, 'family': fam, 'elem': name,
                    'p': np.asarray(p).astype(int).tolist(), 't': np.asarray(t).astype(int).tolist()}
            nt = np.asarray(t).shape[1]
            recs.append(dict(base, region='mesh', yseed=int(rng.integers(0, 2 ** 31))))
            cells = sorted(int(k) for k in rng.permutation(nt)[:max(1, nt // 2)])
            recs.append(dict(base, region='cells', cells=cells, yseed=int(rng.integers(0, 2 ** 31))))
            if name in NODAL_H1:
                nb = _nbfacets(kind, p, t)
                fs = sorted(int(j) for j in rng.permutation(nb)[:max(1, nb // 2)])
                recs.append(dict(base, region='facets', facets=fs, yseed=int(rng.integers(0, 2 ** 31))))
        # curved second-order meshes
        if kind in SECOND and EL.CATALOGUE[name]['cclass'] == 'H1' and not name.startswith('ElementQuadP'):
            fam, p, t, cls = cache[kind][0]
            base = {'driver': 'project', 'kind': kind, 'family': fam + '-curved', 'elem': name,
                    'p': np.asarray(p).astype(int).tolist(), 't': np.asarray(t).astype(int).tolist(),
                    'curved': {'seed': int(rng.integers(0, 2 ** 31)), 'den': 32}}
            recs.append(dict(base, region='mesh', yseed=int(rng.integers(0, 2 ** 31))))
            nt = np.asarray(t).shape[1]
            recs.append(dict(base, region='cells', cells=sorted(int(k) for k in rng.permutation(nt)[:max(1, nt // 2)]),
                             yseed=int(rng.integers(0, 2 ** 31))))
            if name in NODAL_H1:
                nb = _nbfacets(kind, p, t)
                recs.append(dict(base, region='facets', facets=sorted(int(j) for j in rng.permutation(nb)[:max(1, nb // 2)]),
                                 yseed=int(rng.integers(0, 2 ** 31))))
    return recs


def run(ctx):
    procs = Pool()
    try:
        recs = generate(ctx.tier, ctx.seed)
        scs = procs.map(_scen, [(f'C06-{k}', r) for k, r in enumerate(recs)])
    finally:
        procs.close()
    ctx.validate('TraceC06', scs, jvms=8)
    ctx.notes['distinct_nontrivial'] = len({json.dumps(r, sort_keys=True) for r in recs})
    ctx.notes['tolerances'] = {'TolSolve': '2^-26 x scale of the solution'}
    return ctx.finish(rule=RULE, assumptions=[
        'the oracle is a theorem (Galerkin exactness: the exact solution lies in the discrete space and the default '
        'quadrature integrates the forms exactly; uniqueness of the discrete solution); TLC evaluates the exact '
        'polynomial at the integer DOF locations and decides |x[d] - P(loc[d])| <= TolSolve * scale - there is no '
        'model-checking configuration for C06',
        'degree > 1 solutions only on affine cells (simplices, parallelograms, parallelepipeds); general convex '
        'Q1 / Hex1 cells with degree-one solutions; prisms with Dirichlet data on the whole boundary (FacetBasis '
        'is not implemented for prisms)',
        'sub-domain projection uses the basis restricted to the sub-domain (CellBasis.with_elements)',
        'meshes have <= ~350 DOFs; integer coordinates <= 9, dyadic ones on operation histories and graded grids',
        'strongly graded grids: essential data on the whole boundary for the patch test (with natural data on layers '
        '2^-29 thin the round-off of the solve reaches 1e-8), projections for families whose DOFs are point values',
        'penalize() is driven with its default epsilon: observed error 8.5e-11 relative (tolerance 1.5e-8)',
        'TLC 1.8.0 and the CommunityModules Json module are trusted'],
        exhaustive=False)


def replay(ctx, doc):
    sc = doc['scenario']
    sc2 = scenario(sc['id'], sc['recipe'])
    ctx.validate('TraceC06', [sc2], jvms=8)
    return ctx.finish(rule=RULE)
