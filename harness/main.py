"""./check <ID> --tier quick|thorough [--replay path] ; ./check --setup"""
import argparse
import importlib
import json
import os
import sys
import traceback

from .core import Ctx, MachineryError, SPEC, sany_check


EXTRA_ROOTS = {'C16': ['AssemblyThreads.tla'], 'C15': ['Cache.tla'], 'C13': ['RGB.tla']}


def setup():
    """SANY-parse the specification.  Root modules of the checks registered in MANIFEST.json must parse (exit 2
    otherwise); other modules (work in progress for properties not yet claimed) are parsed and reported only."""
    import re
    manifest = json.load(open(os.path.join(os.path.dirname(SPEC), 'MANIFEST.json')))
    pids = [c['property_id'] for c in manifest.get('checks', [])]
    mods = sorted(f for f in os.listdir(SPEC) if f.endswith('.tla'))
    required = set()
    for pid in pids:
        for f in mods:
            if f == f'Trace{pid}.tla' or re.match(rf'MC_{pid}(_\w+)?\.tla$', f):
                required.add(f)
        required.update(EXTRA_ROOTS.get(pid, []))
    bad = sany_check(mods)
    fatal = [m for m, _ in bad if m in required]
    for m, out in bad:
        print(f'SANY failed for {m}{" (REQUIRED)" if m in required else " (not used by a registered check)"}:\n{out[-600:]}')
    print(f'setup: parsed {len(mods)} modules, {len(bad)} failed, {len(fatal)} fatal; registered checks: {" ".join(pids)}')
    return 2 if fatal else 0


def main(argv=None):
    ap = argparse.ArgumentParser()
    ap.add_argument('pid', nargs='?')
    ap.add_argument('--tier', default=os.environ.get('VERIF_TIER', 'quick'), choices=['quick', 'thorough'])
    ap.add_argument('--replay')
    ap.add_argument('--setup', action='store_true')
    ap.add_argument('--selftest', action='store_true')
    ap.add_argument('--extended', action='store_true', help='run every extended-coverage check X01.. in turn')
    a = ap.parse_args(argv)
    if a.setup:
        return setup()
    if a.extended:
        import glob
        here = os.path.dirname(__file__)
        rc = 0
        for f in sorted(glob.glob(os.path.join(here, 'props', 'x[0-9][0-9].py'))):
            pid = os.path.basename(f)[:-3].upper()
            r = main([pid, '--tier', a.tier])
            rc = max(rc, r)
        return rc
    if not a.pid:
        ap.error('property id required')
    pid = a.pid.upper()
    try:
        mod = importlib.import_module(f'harness.props.{pid.lower()}')
    except ModuleNotFoundError as exc:
        print(f'no check for {pid}: {exc}')
        return 2
    ctx = Ctx(pid, a.tier)
    try:
        if a.replay:
            ctx.replay_mode = True
            ctx.replay_path = a.replay
            doc = json.load(open(a.replay))
            return mod.replay(ctx, doc)
        if a.selftest:
            return mod.selftest(ctx)
        return mod.run(ctx)
    except MachineryError as exc:
        print(f'MACHINERY-FAILURE property={pid}: {exc}')
        return 2
    except Exception:
        traceback.print_exc()
        print(f'MACHINERY-FAILURE property={pid}: unexpected exception in the harness')
        return 2


if __name__ == '__main__':
    sys.exit(main())
